#!/bin/bash
# regress_seeded.sh [dir ...]: applies every stored seeded change to /repo in turn, runs the quick check of
# its property, reverts; prints one line per change. Nothing else may touch /repo meanwhile.
cd /verif
DIRS=${@:-$(ls seeded)}
for D in $DIRS; do
  P=$(python3 -c "import json;print(json.load(open('seeded/$D/meta.json'))['property'])")
  git -C /repo diff --quiet || { echo "/repo is dirty"; exit 9; }
  git -C /repo apply /verif/seeded/$D/patch.diff || { echo "$D: PATCH DOES NOT APPLY"; continue; }
  s=$(date +%s)
  ./check $P --quick --no-evidence > .build/logs/regress.$D.log 2>&1
  rc=$?
  git -C /repo checkout -- .
  echo "$D $P rc=$rc $(( $(date +%s) - s ))s $(grep -c '^\[ *failed' .build/logs/regress.$D.log) failed :: $(tail -1 .build/logs/regress.$D.log | cut -c1-150)"
done
