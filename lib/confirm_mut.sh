#!/bin/bash
# DEMO_RUSTFLAGS (optional): RUSTFLAGS for the demo runs only (e.g. --cfg fe2o3_amqp_verif when the demo drives the facade)
# confirm_mut.sh <ID> <demo-dest-relpath> <mod-file-relpath|-> <mod-line|-> <cargo test args...>
# In the agent's scratch worktree /tmp/mut/<ID> (patch applied): checks that the patch applies at
# /repo HEAD, the existing suite still passes with it, the demo fails with it and passes without.
ID=$1; DEST=$2; MODF=$3; MODL=$4; shift 4
W=/tmp/mut/$ID; OUT=/tmp/mut/$ID-out; T=/tmp/mut/$ID-target
set -u
cd $W || exit 9
git checkout -q -- . && git clean -fdq
git apply --check $OUT/patch.diff || { echo "PATCH DOES NOT APPLY"; exit 9; }
install_demo() { mkdir -p $(dirname $W/$DEST); cp $OUT/demo.rs $W/$DEST; if [ "$MODF" != "-" ]; then printf '\n%s\n' "$MODL" >> $W/$MODF; fi; }
remove_demo() { rm -f $W/$DEST; rmdir $(dirname $W/$DEST) 2>/dev/null; if [ "$MODF" != "-" ]; then git checkout -q -- $MODF; fi; }
# 1. without the change: demo passes
install_demo
RUSTFLAGS="${DEMO_RUSTFLAGS:-}" CARGO_TARGET_DIR=$T cargo test --offline "$@" > $OUT/confirm.demo_without.log 2>&1; RC_WITHOUT=$?
remove_demo
# 2. with the change: suite passes, demo fails
git apply $OUT/patch.diff
CARGO_TARGET_DIR=$T cargo test --workspace --no-fail-fast --offline > $OUT/confirm.suite_with.log 2>&1
python3 - "$OUT/confirm.suite_with.log" <<'PY'
import json,re,sys
base=set(json.load(open('/root/.vp/BASELINE.json'))['stable_pass'])
ok=set()
for l in open(sys.argv[1],errors='replace'):
    m=re.match(r"^test (\S+) \.\.\. ok",l)
    if m and ' - ' not in l: ok.add(m.group(1))
short={s.split('::',1)[1] for s in base}
missing=[m for m in short if m not in ok and m.split('::')[-1] not in ok]
print("SUITE_WITH_CHANGE missing_from_baseline=%d"%len(missing), missing[:5])
PY
install_demo
RUSTFLAGS="${DEMO_RUSTFLAGS:-}" CARGO_TARGET_DIR=$T cargo test --offline "$@" > $OUT/confirm.demo_with.log 2>&1; RC_WITH=$?
remove_demo
echo "DEMO without-change rc=$RC_WITHOUT (want 0)  with-change rc=$RC_WITH (want !=0)"
grep -h "^test result" $OUT/confirm.demo_without.log | tail -2; grep -h "^test result" $OUT/confirm.demo_with.log | tail -2
rm -rf $T
