#!/bin/bash
cd /verif
lib/regress_seeded.sh C13-4 C02-2 C07-4 C12-4 C18-2 C16 C14-2 C15-4
