#!/bin/bash
# regression of the round-5 seeded changes through the registered quick commands
cd /verif
lib/regress_seeded.sh C12-3 C17-3 C13-3 C11-3 C15-3 C08-3 C09-3 C07-3 C14 C18 C02 C19-3 C10-3 C06-3 C03-3 C05-3 C20-3 C04-3
