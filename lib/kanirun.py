"""Engine K: build a harness crate with Kani once, run harnesses as parallel `cargo kani` processes,
parse verdicts, extract counterexamples and cover witnesses, replay counterexamples natively."""
import fcntl
import json
import os
import re
import resource
import signal
import subprocess
import time
from concurrent.futures import ThreadPoolExecutor

from harnesses import KANI_DIR

VERIF = os.path.dirname(os.path.dirname(os.path.abspath(__file__)))
BUILD = os.path.join(VERIF, ".build")
HOOK_CFG = "--cfg fe2o3_amqp_verif"

ENV = dict(os.environ)
ENV.update({"CARGO_NET_OFFLINE": "true", "CARGO_TERM_COLOR": "never"})
# harness crates that need the repo built with the verification hooks
NEEDS_HOOKS = {"proto"}


def crate_env(crate):
    e = dict(ENV)
    if crate in NEEDS_HOOKS:
        e["RUSTFLAGS"] = (e.get("RUSTFLAGS", "") + " " + HOOK_CFG).strip()
    return e


def _sync_lock(crate):
    """Cargo.lock of a harness crate is a copy of /repo/Cargo.lock (offline resolution)."""
    dst = os.path.join(KANI_DIR, crate, "Cargo.lock")
    if not os.path.exists(dst):
        import shutil

        shutil.copy("/repo/Cargo.lock", dst)


class BuildError(Exception):
    pass


def build_kani(crate, log):
    """`cargo kani --only-codegen` under a file lock; incremental w.r.t. /repo's working tree."""
    os.makedirs(BUILD, exist_ok=True)
    _sync_lock(crate)
    tdir = os.path.join(BUILD, f"{crate}-kani")
    t0 = time.time()
    with open(os.path.join(BUILD, f"{crate}.lock"), "w") as lk:
        fcntl.flock(lk, fcntl.LOCK_EX)
        # `--only-codegen` would also link every harness (about 1 s each, redone by each run);
        # asking for a harness that does not exist stops kani-driver right after the cargo build.
        p = subprocess.run(
            ["cargo", "kani", "--harness", "__build_only__", "--exact", "-Z", "stubbing", "--target-dir", tdir],
            cwd=os.path.join(KANI_DIR, crate),
            env=crate_env(crate),
            stdout=subprocess.PIPE,
            stderr=subprocess.STDOUT,
            text=True,
        )
    with open(log, "w") as f:
        f.write(p.stdout)
    built = "Failed to match the following harness" in p.stdout and "could not compile" not in p.stdout
    if p.returncode != 0 and not built:
        errs = [l for l in p.stdout.splitlines() if l.startswith("error")]
        raise BuildError(f"kani build of {crate} failed: {errs[:5]} (log {log})")
    return time.time() - t0


def build_native(crate, release, log):
    tdir = os.path.join(BUILD, f"{crate}-native")
    _sync_lock(crate)
    cmd = ["cargo", "build", "--offline", "--bin", "replay", "--target-dir", tdir]
    if release:
        cmd.append("--release")
    with open(os.path.join(BUILD, f"{crate}.nlock"), "w") as lk:
        fcntl.flock(lk, fcntl.LOCK_EX)
        p = subprocess.run(cmd, cwd=os.path.join(KANI_DIR, crate), env=crate_env(crate), stdout=subprocess.PIPE, stderr=subprocess.STDOUT, text=True)
    with open(log, "a") as f:
        f.write(p.stdout)
    if p.returncode != 0:
        raise BuildError(f"native build of {crate} failed (log {log})")
    return os.path.join(tdir, "release" if release else "debug", "replay")


CHECK_RE = re.compile(
    r"^Check \d+: (?P<name>.+)\n\s*- Status: (?P<status>\w+)\n\s*- Description: \"(?P<desc>.*)\"\n(?:\s*- Location: (?P<loc>.*)\n)?",
    re.M,
)
PLAY_RE = re.compile(
    r"/// Check for `(?P<kind>[^`]*)`: \"(?P<desc>.*)\"\n(?:.*\n)*?\s*let concrete_vals: Vec<Vec<u8>> = vec!\[\n(?P<body>(?:.*\n)*?)\s*\];",
)


def parse_playbacks(out):
    res = []
    for m in PLAY_RE.finditer(out):
        vals = []
        for vm in re.finditer(r"vec!\[([0-9, ]*)\]", m.group("body")):
            nums = [int(x) for x in vm.group(1).replace(" ", "").split(",") if x]
            vals.append(bytes(nums).hex())
        res.append({"kind": m.group("kind"), "desc": m.group("desc"), "vals": vals})
    return res


def classify(check):
    d = check["desc"]
    n = check["name"]
    if d.startswith("unwinding assertion") or ".unwind." in n:
        return "unwind"
    if "unsupported_construct" in n or "is not currently supported by Kani" in d or "not currently supported" in d:
        return "unsupported"
    if n.endswith(".cover") or ".cover." in n:
        return "cover"
    return "real"


def loc_function(loc):
    if not loc:
        return ""
    m = re.search(r" in function (.*)$", loc)
    fn = m.group(1) if m else loc
    f = re.match(r"(.*?):\d+", loc)
    file = f.group(1) if f else ""
    file = re.sub(r"^(\.\./)+", "", file)
    return f"{file} :: {fn}"


def _limits(mem_gb):
    def f():
        os.setsid()
        lim = mem_gb * (1 << 30)
        resource.setrlimit(resource.RLIMIT_AS, (lim, lim))

    return f


def run_harness(h, tier, logdir):
    """Returns a result dict; never raises for solver-side problems."""
    tdir = os.path.join(BUILD, f"{h.crate}-kani")
    cmd = ["cargo", "kani", "--harness", h.qual, "--exact", "--target-dir", tdir, "-Z", "unstable-options", "-Z", "concrete-playback", "--concrete-playback=print"]
    cmd += ["-Z", "stubbing"]
    cbmc = []
    # default bound 20: enough for the 16-byte memcmp-free compare loops of the oracles and it
    # bounds the (statically recursive, dynamically depth<=2) drop glue of io::Error's Box<dyn Error>;
    # unwinding assertions stay on, so a bound that is too small is reported, never silently cut.
    unwind = h.unwind if h.unwind is not None else 20
    res_unwind = unwind
    cbmc += ["--unwind", str(unwind)]
    us = ["memcmp.0:26"] + h.unwindset
    cbmc += ["--unwindset", ",".join(us)]
    cmd += ["--cbmc-args"] + cbmc
    timeout = h.timeout or (1200 if tier == "quick" else 3600)
    log = os.path.join(logdir, f"{h.crate}.{h.name}.log")
    t0 = time.time()
    res = {"harness": h.name, "crate": h.crate, "qual": h.qual, "prop": h.prop, "cmd": " ".join(cmd), "log": log, "bounds": h.bounds, "assumes": h.assumes, "desc": h.desc, "stubs": h.stubs, "unwind": h.unwind if h.unwind is not None else 20}
    try:
        p = subprocess.Popen(cmd, cwd=os.path.join(KANI_DIR, h.crate), env=crate_env(h.crate), stdout=subprocess.PIPE, stderr=subprocess.STDOUT, text=True, preexec_fn=_limits(h.mem_gb))
        try:
            out, _ = p.communicate(timeout=timeout)
        except subprocess.TimeoutExpired:
            os.killpg(p.pid, signal.SIGKILL)
            out, _ = p.communicate()
            with open(log, "w") as f:
                f.write(out or "")
            res.update(status="timeout", wall_s=time.time() - t0, detail=f"no verdict within {timeout}s")
            return res
    except Exception as e:  # pragma: no cover
        res.update(status="error", wall_s=time.time() - t0, detail=repr(e))
        return res
    with open(log, "w") as f:
        f.write(out)
    res["wall_s"] = round(time.time() - t0, 2)
    m = re.search(r"Verification Time: ([0-9.]+)s", out)
    res["solver_s"] = float(m.group(1)) if m else None
    checks = [m.groupdict() for m in CHECK_RE.finditer(out)]
    res["n_checks"] = len(checks)
    failed = [c for c in checks if c["status"] == "FAILURE"]
    undet = [c for c in checks if c["status"] == "UNDETERMINED"]
    covers = [c for c in checks if classify(c) == "cover"]
    res["covers_total"] = len(covers)
    res["covers_sat"] = len([c for c in covers if c["status"] == "SATISFIED"])
    res["covers_unsat"] = [c["desc"] for c in covers if c["status"] not in ("SATISFIED",)]
    plays = parse_playbacks(out)
    res["witnesses"] = [p_ for p_ in plays if p_["kind"] == "cover"]
    if "VERIFICATION:- SUCCESSFUL" in out:
        if res["covers_unsat"]:
            res.update(status="vacuous", detail=f"cover(s) not satisfiable: {res['covers_unsat']}")
        else:
            res.update(status="ok")
        return res
    if re.search(r"[Oo]ut of memory|CBMC failed with status|std::bad_alloc|Killed", out) and not any(c["status"] == "FAILURE" and classify(c) == "real" for c in checks):
        res.update(status="oom", detail="CBMC ran out of memory / crashed before a verdict")
        return res
    if "VERIFICATION:- FAILED" not in out:
        tail = "\n".join(out.splitlines()[-8:])
        res.update(status="error", detail="no verdict (crash / out of memory / compile error): " + tail[-600:])
        return res
    real = [c for c in failed if classify(c) == "real"]
    res["failed_checks"] = [{"desc": c["desc"], "where": loc_function(c.get("loc")), "name": c["name"]} for c in real]
    if not real:
        kinds = sorted({classify(c) for c in failed}) or ["undetermined"]
        res.update(status="inconclusive", detail=f"failed only on {kinds}: " + "; ".join(sorted({c['desc'] for c in failed})[:4]) + (f" (+{len(undet)} undetermined)" if undet else ""))
        return res
    # attach counterexample values
    fails = [p_ for p_ in plays if p_["kind"] != "cover"]
    used = set()
    for fc in res["failed_checks"]:
        # one playback per failed check, same order among checks with the same description
        for i, p_ in enumerate(fails):
            if i not in used and p_["desc"] == fc["desc"]:
                fc["vals"] = p_["vals"]
                used.add(i)
                break
        else:
            same = [p_ for p_ in fails if p_["desc"] == fc["desc"]]
            if same or fails:
                fc["vals"] = (same or fails)[0]["vals"]
    res.update(status="failed")
    return res


def replay_native(crate, name, vals, log):
    """Run recorded values against native dev and release builds of the same harness body."""
    out = {}
    arg = ",".join(vals) if vals else "-"
    for prof, rel in (("dev", False), ("release", True)):
        try:
            exe = build_native(crate, rel, log)
        except BuildError as e:
            out[prof] = {"rc": None, "out": str(e)}
            continue
        try:
            p = subprocess.run([exe, name, arg], stdout=subprocess.PIPE, stderr=subprocess.STDOUT, text=True, timeout=90)
            out[prof] = {"rc": p.returncode, "out": p.stdout[-1500:]}
        except subprocess.TimeoutExpired:
            # a harness body is a finite computation (native replays take milliseconds): not coming back on the
            # solver's input is a reproduced failure of its own kind (e.g. a lock taken twice on one thread)
            out[prof] = {"rc": "hang", "out": "the native replay of the solver's input did not terminate within 90 s"}
    return out


MEM_BUDGET_GB = int(os.environ.get("VERIF_MEM_GB", "52"))


def run_many(hs, tier, logdir, jobs):
    """runs the harnesses in parallel, never admitting more than MEM_BUDGET_GB of address-space
    limits at once (no swap on this machine: an over-committed run would be killed, not slowed)"""
    import threading

    cv = threading.Condition()
    used = [0]

    def one(h):
        # the default 12 GB limit is a safety net (such harnesses use 1-3 GB); a raised limit is a measured need
        need = min(h.mem_gb, MEM_BUDGET_GB) if h.mem_gb > 12 else 3
        with cv:
            while used[0] + need > MEM_BUDGET_GB:
                cv.wait()
            used[0] += need
        try:
            return run_harness(h, tier, logdir)
        finally:
            with cv:
                used[0] -= need
                cv.notify_all()

    with ThreadPoolExecutor(max_workers=jobs) as ex:
        return list(ex.map(one, hs))
