"""Harness discovery: scans /verif/kani/<crate>/src/*.rs with the same rule as the crates' build.rs.

A harness is any `cNN_name` token on a line that invokes a macro at statement level
(`harness!(..`, `prim_suite!(..`).  The property id is the `cNN` prefix.
Attributes are `// @key value` comment lines directly above the invocation:
  @tier quick|thorough|probe (default quick; probe = feasibility harness known not to reach a verdict here, run only by `check --probe`, never by a registered command)
  @unwind N                 (cbmc --unwind N; default: none, i.e. loops must be bounded by themselves)
  @unwindset a:b,c:d        (extra --unwindset entries)
  @timeout SECONDS          (default per tier)
  @mem GB                   (address-space limit, default 12)
  @stub orig=replacement    (enables -Z stubbing; documentation only, the stub attribute is in the source)
  @bound text               (stated bound, copied into evidence)
  @assume text              (stated assumption, copied into evidence)
  @desc text                (what is decided)
  @needs-cover N            (minimum number of satisfied cover witnesses; default: all covers)
"""
import os
import re
from dataclasses import dataclass, field

KANI_DIR = os.path.join(os.path.dirname(os.path.dirname(os.path.abspath(__file__))), "kani")

TOKEN = re.compile(r"(?<![A-Za-z0-9_])(c[0-9]{2}_[a-z0-9_]+)")
INVOKE = re.compile(r"^([a-z_]+)!\(")


@dataclass
class Harness:
    crate: str
    module: str
    name: str
    prop: str
    tier: str = "quick"
    unwind: int | None = None
    unwindset: list = field(default_factory=list)
    timeout: int | None = None
    mem_gb: int = 12
    stubs: list = field(default_factory=list)
    bounds: list = field(default_factory=list)
    assumes: list = field(default_factory=list)
    desc: str = ""
    macro: str = "harness"
    also: list = field(default_factory=list)  # further properties this harness is evidence for

    @property
    def qual(self):
        return f"{self.module}::{self.name}"


def scan_crate(crate):
    src = os.path.join(KANI_DIR, crate, "src")
    out = []
    for fn in sorted(os.listdir(src)):
        if not fn.endswith(".rs") or fn in ("lib.rs", "main.rs"):
            continue
        module = fn[:-3]
        attrs = {}
        macro_attrs = {}  # attributes written inside a macro_rules body apply to every invocation
        cur_macro = None
        last_inv = None  # (macro, attrs) of the directly preceding invocation line
        for raw in open(os.path.join(src, fn), encoding="utf-8"):
            l = raw.strip()
            mm = re.match(r"^macro_rules!\s+(\w+)\s*\{", l)
            if mm:
                cur_macro = mm.group(1)
                attrs = {}
                continue
            if raw.startswith("}"):
                cur_macro = None
            m = re.match(r"^//\s*@([a-z-]+)\s+(.*)$", l)
            if m:
                attrs.setdefault(m.group(1), []).append(m.group(2).strip())
                continue
            if l.startswith("//"):
                continue
            if not l:
                last_inv = None
            if cur_macro and re.match(r"^p?harness!\(\$", l):
                tgt = macro_attrs.setdefault(cur_macro, {})
                for k, v in attrs.items():
                    tgt.setdefault(k, []).extend(v)
                attrs = {}
                continue
            mi = INVOKE.match(l)
            if not mi or mi.group(1) in ("macro_rules", "assert", "vcover", "matches", "vec", "format", "println", "assert_eq", "debug_assert", "panic", "unreachable"):
                if l and not l.startswith("#["):
                    attrs = {}
                continue
            head = l.split("|")[0]
            names = TOKEN.findall(head)
            if names and not attrs and last_inv and last_inv[0] == mi.group(1):
                # a run of invocations of the same macro shares the attributes written above the first
                attrs = {k: list(v) for k, v in last_inv[1].items() if k != "tier-of"}
            own = {k: list(v) for k, v in attrs.items()}
            if names and mi.group(1) in macro_attrs:
                merged = {k: list(v) for k, v in macro_attrs[mi.group(1)].items()}
                for k, v in attrs.items():
                    merged[k] = merged.get(k, []) + v if k in ("bound", "assume", "also", "tier-of") else v
                attrs = merged
            for n in names:
                h = Harness(crate=crate, module=module, name=n, prop="C" + n[1:3], macro=mi.group(1))
                h.tier = attrs.get("tier", ["quick"])[-1]
                if "unwind" in attrs:
                    h.unwind = int(attrs["unwind"][-1])
                for u in attrs.get("unwindset", []):
                    h.unwindset += [x.strip() for x in u.split(",") if x.strip()]
                if "timeout" in attrs:
                    h.timeout = int(attrs["timeout"][-1])
                if "mem" in attrs:
                    h.mem_gb = int(attrs["mem"][-1])
                for ov in attrs.get("tier-of", []):
                    nm, tr = ov.split()
                    if nm == n:
                        h.tier = tr
                        h.timeout = h.timeout or 2400
                h.stubs = attrs.get("stub", [])
                h.bounds = attrs.get("bound", [])
                h.assumes = attrs.get("assume", [])
                h.desc = " ".join(attrs.get("desc", []))
                h.also = [a.strip() for x in attrs.get("also", []) for a in x.split(",")]
                out.append(h)
            last_inv = (mi.group(1), own) if names else None
            attrs = {}
    return out


def crates():
    return sorted(
        d for d in os.listdir(KANI_DIR) if os.path.isfile(os.path.join(KANI_DIR, d, "Cargo.toml"))
    )


def all_harnesses():
    out = []
    for c in crates():
        out += scan_crate(c)
    return out


if __name__ == "__main__":
    import collections

    hs = all_harnesses()
    by = collections.Counter((h.prop, h.tier) for h in hs)
    for k in sorted(by):
        print(k, by[k])
    print(len(hs), "harnesses")
