#!/usr/bin/env python3
"""Runs the repository test suite (guard off) and compares with /root/.vp/BASELINE.json stable_pass."""
import json, re, subprocess, sys
base = json.load(open("/root/.vp/BASELINE.json"))
stable = set(base["stable_pass"])
p = subprocess.run("cd /repo && cargo test --workspace --no-fail-fast --offline 2>&1", shell=True, stdout=subprocess.PIPE, text=True)
ok, bad = set(), set()
for l in p.stdout.splitlines():
    m = re.match(r"^test (\S+) \.\.\. (ok|FAILED|ignored)", l)
    if m and " - " not in l:
        (ok if m.group(2) == "ok" else bad).add(m.group(1))
def short(n):  # strip crate prefix
    return n.split("::", 1)[1] if "::" in n else n
stable_short = {short(s) for s in stable}
missing = sorted(s for s in stable_short if s not in ok)
# integration tests print bare names (no module prefix): accept a match on the last segment
missing = [m for m in missing if m.split("::")[-1] not in ok and m not in ok]
print(f"ok={len(ok)} failed={len(bad)} stable={len(stable)} missing_from_ok={len(missing)}")
for m in missing[:20]:
    print("  MISSING", m)
sys.exit(1 if missing else 0)
