"""Glue between ./check and Engine M (runs under python3-vt for the z3 bindings)."""
import json
import os
import subprocess
import sys
import time

VERIF = os.path.dirname(os.path.dirname(os.path.abspath(__file__)))
PROPS_WITH_M = {"C01", "C07", "C11", "C12", "C13", "C17", "C09", "C06", "C08", "C10", "C15", "C04", "C20", "C03", "C05", "C19", "C02", "C14", "C18", "C16"}


def obligations_for(prop, tier, only):
    if prop not in PROPS_WITH_M:
        return []
    p = subprocess.run(["python3-vt", os.path.join(VERIF, "mirsmt", "run.py"), "--list", prop], stdout=subprocess.PIPE, text=True)
    names = [l.strip() for l in p.stdout.splitlines() if l.strip()]
    return names


def run(prop, tier, obls, logdir, seed, only=None):
    out = os.path.join(logdir, f"mirsmt.{prop}.json")
    if os.path.exists(out):
        os.remove(out)
    cmd = ["python3-vt", os.path.join(VERIF, "mirsmt", "run.py"), "--prop", prop, "--tier", tier, "--out", out, "--logdir", logdir, "--seed", str(seed)]
    if only:
        cmd += ["--only", only]
    p = subprocess.run(cmd, stdout=subprocess.PIPE, stderr=subprocess.STDOUT, text=True)
    open(os.path.join(logdir, f"mirsmt.{prop}.log"), "w").write(p.stdout)
    if not os.path.exists(out) or p.returncode not in (0,):
        return [{"name": f"mirsmt:{prop}", "status": "error", "detail": "engine M crashed: " + p.stdout[-600:]}]
    return json.load(open(out))


def replay(prop, rp, path):
    logdir = os.path.join(VERIF, ".build", "logs", prop)
    os.makedirs(logdir, exist_ok=True)
    cmd = ["python3-vt", os.path.join(VERIF, "mirsmt", "run.py"), "--replay", path, "--logdir", logdir]
    p = subprocess.run(cmd, stdout=subprocess.PIPE, stderr=subprocess.STDOUT, text=True)
    print(p.stdout)
    if p.returncode == 1:
        print(f"VIOLATION property={prop} replay={path}")
    return p.returncode
