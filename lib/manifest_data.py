HOOK_COMMITS = []

_NOTE = "Trusted: Kani 0.68/CBMC 6.11/CaDiCaL, rustc MIR, Kani's memory/atomics models, the harness-side spec oracles; dev-profile semantics decide 'never panics'. Only inputs inside the per-harness bounds listed in the evidence file are covered."

CLAIMED = {
    "C03": {"engine": "kani", "design_ref": "DESIGN.md §4 C03", "technique": "bounded model checking (Kani/CBMC) of the real serializer+deserializer over symbolic values",
            "text": "For every value of each fixed-width AMQP primitive (whole bit-width domain) and for strings/symbols/binaries/lists/maps/arrays with symbolic content at fixed small shapes, the solver shows decode(encode(x)) == x on the real serde_amqp code; a counterexample is replayed natively before it is reported. Bounded: shapes and lengths are listed per harness; untyped Value trees and large composites are outside.",
            "note": _NOTE},
    "C04": {"engine": "kani", "design_ref": "DESIGN.md §4 C04", "technique": "bounded model checking (Kani/CBMC): every byte string of a fixed length through typed decoder entry points",
            "text": "For EVERY byte string of the stated length (7-14 bytes, all 256^N values at once) fed to the real Deserializer through its typed serde entry points (primitives, seq/tuple/map/struct/enum/option headers, list/array/map element pulls, described-list/-map access as a derive-generated visitor does), the solver shows: no panic, no arithmetic overflow, no out-of-bounds access, element pulls terminate within what the bytes can hold, and decode-Ok implies re-encode/decode stability for fixed-width types. Longer inputs, untyped Value trees, stack depth and allocation proportionality are outside.",
            "note": _NOTE},
    "C05": {"engine": "kani", "design_ref": "DESIGN.md §4 C05", "technique": "bounded model checking (Kani/CBMC) against a spec oracle transcribed from AMQP 1.0 part 1",
            "text": "The solver shows that the bytes written by the real Serializer are accepted by an independent spec oracle as an encoding of exactly the symbolic value, and that every spec-permitted width variant built by the oracle decodes to the same value, for all values inside the per-harness bounds.",
            "note": _NOTE},
    "C20": {"engine": "kani", "design_ref": "DESIGN.md §4 C20", "technique": "bounded model checking (Kani/CBMC): differential harnesses between codec entry points",
            "text": "The solver shows serialized_size(x) == len(to_vec(x)) and SliceReader/IoReader agreement (value, bytes consumed, trailing bytes untouched) for all symbolic values / byte strings inside the per-harness bounds.",
            "note": _NOTE},
}

NOT_APPLICABLE = {
    "C01": "end-to-end delivery is a property of six concurrently scheduled tokio tasks joined by mpsc channels; operating a tokio channel under Kani is an internal compiler error (thread_local with destructor) and Kani has no concurrency; the solver-reachable pieces are claimed under C06/C07/C10/C11",
    "C02": "every settlement step runs through hash-keyed state (HashMap/IndexMap); a single HashMap insert+get does not terminate in CBMC within 400 s, and the dispose paths await tokio mpsc (Kani ICE)",
    "C14": "quantifies over transport cut points x pending awaits across spawned tokio tasks (channels, JoinHandles, IO driver): not executable under Kani, no loop-free integer kernel for the MIR->SMT engine",
    "C16": "needs recv/send futures polled and dropped at each await; every await there is a tokio mpsc/select! operation (Kani ICE)",
    "C18": "transaction manager state is an IndexMap keyed by transaction id (hashing), ids from OS RNG, commit replays frames through awaits on session channels: nothing solver-executable",
    # not built yet (will be claimed once their checks exist)
    "C06": "check under construction in this session (see DESIGN.md §4 C06)",
    "C07": "check under construction in this session (see DESIGN.md §4 C07)",
    "C08": "check under construction in this session (see DESIGN.md §4 C08)",
    "C09": "check under construction in this session (see DESIGN.md §4 C09)",
    "C10": "check under construction in this session (see DESIGN.md §4 C10)",
    "C11": "check under construction in this session (see DESIGN.md §4 C11)",
    "C12": "check under construction in this session (see DESIGN.md §4 C12)",
    "C13": "check under construction in this session (see DESIGN.md §4 C13)",
    "C15": "check under construction in this session (see DESIGN.md §4 C15)",
    "C17": "check under construction in this session (see DESIGN.md §4 C17)",
    "C19": "check under construction in this session (see DESIGN.md §4 C19)",
}
