HOOK_COMMITS = ["49c7c95", "6e86167", "051cd7a"]

_NOTE = "Trusted: Kani 0.68/CBMC 6.11/CaDiCaL, rustc MIR, Kani's memory/atomics models, the harness-side spec oracles; dev-profile semantics decide 'never panics'. Only inputs inside the per-harness bounds listed in the evidence file are covered."

CLAIMED = {
    "C03": {"engine": "kani", "design_ref": "DESIGN.md §4 C03", "technique": "bounded model checking (Kani/CBMC) of the real serializer+deserializer over symbolic values",
            "text": "For every value of each fixed-width AMQP primitive (whole bit-width domain) and for strings/symbols/binaries/lists/maps/arrays with symbolic content at fixed small shapes, the solver shows decode(encode(x)) == x on the real serde_amqp code; a counterexample is replayed natively before it is reported. Bounded: shapes and lengths are listed per harness; untyped Value trees and large composites are outside.",
            "note": _NOTE},
    "C04": {"engine": "kani", "design_ref": "DESIGN.md §4 C04", "technique": "bounded model checking (Kani/CBMC): every byte string of a fixed length through typed decoder entry points",
            "text": "For EVERY byte string of the stated length (7-14 bytes, all 256^N values at once) fed to the real Deserializer through its typed serde entry points (primitives, seq/tuple/map/struct/enum/option headers, list/array/map element pulls, described-list/-map access as a derive-generated visitor does), the solver shows: no panic, no arithmetic overflow, no out-of-bounds access, element pulls terminate within what the bytes can hold, and decode-Ok implies re-encode/decode stability for fixed-width types. Longer inputs, untyped Value trees, stack depth and allocation proportionality are outside.",
            "note": _NOTE},
    "C05": {"engine": "kani", "design_ref": "DESIGN.md §4 C05", "technique": "bounded model checking (Kani/CBMC) against a spec oracle transcribed from AMQP 1.0 part 1",
            "text": "The solver shows that the bytes written by the real Serializer are accepted by an independent spec oracle as an encoding of exactly the symbolic value, and that every spec-permitted width variant built by the oracle decodes to the same value, for all values inside the per-harness bounds.",
            "note": _NOTE},
    "C20": {"engine": "kani", "design_ref": "DESIGN.md §4 C20", "technique": "bounded model checking (Kani/CBMC): differential harnesses between codec entry points",
            "text": "The solver shows serialized_size(x) == len(to_vec(x)) and SliceReader/IoReader agreement (value, bytes consumed, trailing bytes untouched) for all symbolic values / byte strings inside the per-harness bounds.",
            "note": _NOTE},
}


_NOTE_M = "Trusted: rustc's MIR (nightly -Zunpretty=mir of the current tree) as the semantics, the MIR->SMT translator (validated on every run against the natively executed real code on corner and VERIF_SEED-derived vectors), z3 (library and /usr/bin/z3) and cvc5 which must agree on every query; opaque calls are havocked (over-approximation); loops are unrolled up to 3 times from havocked states."

CLAIMED.update({
    "C06": {"engine": "kani", "design_ref": "DESIGN.md §4 C06", "technique": "bounded model checking (Kani/CBMC) of the real frame encoder/decoder",
            "text": "The solver shows, for every channel and every frame-encoder max-frame-size 512..2^20, that the empty frame is written as doff=2,type=0,channel; and for every 4-byte header that the frame decoder accepts exactly doff=2/type=0 as the empty frame with the channel as sent. Partial: transfer splitting, length-prefix fragmentation and non-empty performatives are outside (see DESIGN).",
            "note": _NOTE},
    "C07": {"engine": "mir-smt", "design_ref": "DESIGN.md §4 C07", "technique": "symbolic execution of rustc MIR of the Session window functions, decided by z3 and cvc5 (bit-vector SMT) over all 32-bit values",
            "text": "For all 32-bit counter/window values: the send step advances next-outgoing-id by one and shrinks the remote-incoming-window by one; the send step is only reachable with the window open (every call site, loops as inductive steps); a held-back transfer is queued and leaves the counters untouched; the flow recompute equals next-incoming-id+incoming-window-next-outgoing-id in RFC-1982 serial arithmetic; the window invariant is inductive; incoming transfers/begin/flow update next-incoming-id as specified; outgoing flows report exactly the counters. Multi-link interleavings and the engine task are outside.",
            "note": _NOTE_M},
    "C08": {"engine": "kani+mir-smt", "design_ref": "DESIGN.md §4 C08", "technique": "bounded model checking (Kani/CBMC) of LinkFlowState<Sender> step functions over all 32-bit values; MIR->SMT (z3+cvc5) symbolic schedule exploration of the credit waiter",
            "text": "One step from an arbitrary sender flow state, all 32-bit values: link-credit follows the spec formula in serial arithmetic (unset delivery-count/link-credit handled), drain consumes all credit and answers with a zero-credit flow, echo is honoured, a delivery consumes exactly one credit and is refused at zero credit. Lost wake-up: the MIR of the real waiter coroutine (consume + consume_link_credit) is executed symbolically against tokio::Notify's documented contract with the grant placed at every call boundary of the waiter (including the cfg schedule_point between the failed check and the wait) and z3+cvc5 show the next poll completes; counterexamples are replayed natively through the schedule hook with the real tokio Notify.",
            "note": _NOTE + " Stubs: parking_lot RawRwLock slow paths panic (never reached)."},
    "C09": {"engine": "kani+mir-smt", "design_ref": "DESIGN.md §4 C09", "technique": "bounded model checking (Kani/CBMC) of LinkFlowState<Receiver> step functions; MIR->SMT (z3+cvc5) on the auto-credit top-up functions",
            "text": "One step from an arbitrary receiver flow state: a transfer is accepted iff credit >= 1 (else transfer-limit-exceeded with the state unchanged), accepted => credit-1 and delivery-count+1; the sender's flow is mirrored (delivery-count, available) without touching the issued credit; flows report exactly the stored state (Kani). Replenishment (MIR->SMT): every disposal site hands the processed count INCLUDING the disposal to the top-up check; with Auto(n) a flow re-issuing n is produced and the counter reset exactly when processed >= n/2; a no-stall lemma over the counters. Counterexamples are replayed on a real ReceiverInner natively. Manual-mode call sequences and multi-frame deliveries are outside.",
            "note": _NOTE + " Stubs: parking_lot RawRwLock slow paths panic (never reached)."},
    "C10": {"engine": "kani", "design_ref": "DESIGN.md §4 C10", "technique": "bounded model checking (Kani/CBMC) of IncompleteTransfer::or_assign (quick) and the chained-buffer reader (thorough)",
            "text": "For symbolic optional delivery-id, message-format, settled and 1-byte delivery-tags on a first and a continuation frame: omitted fields keep the first frame's value, equal repeats are accepted, contradictions are an error, settled is sticky-true. The chained reader / append order harnesses are thorough-tier only. Receiver::on_incoming_transfer (async, mpsc) is outside.",
            "note": _NOTE},
    "C11": {"engine": "mir-smt", "design_ref": "DESIGN.md §4 C11", "technique": "symbolic execution of rustc MIR (delivery-id stamping, channel allocation), decided by z3 and cvc5",
            "text": "For all counter values: a frame that starts a delivery gets delivery-id = next-outgoing-id, continuation frames get none, every frame advances the counter by one (strictly increasing ids, no reuse within 2^32 frames); the channel handed to a new session is exactly the slab's vacant key and <= channel-max. Link handles, names and routing tables (hash maps) are outside.",
            "note": _NOTE_M + " Environment contract: slab::VacantEntry::key is an unoccupied index."},
    "C12": {"engine": "kani+mir-smt", "design_ref": "DESIGN.md §4 C12", "technique": "Kani/CBMC on Connection::on_incoming_open/close from every state; MIR->SMT (z3+cvc5) on the send_open/send_close coroutines from every state",
            "text": "From every one of the 14 connection states, with error present/absent: the transition functions follow the AMQP 2.4.6 diagram (spec table written in the harness / obligation), illegal (state,event) pairs fail with the state unchanged, exactly one frame is handed to the sink per send, the peer's error is surfaced; and in the connection engine's Close arm (MIR->SMT) the state function's error is never swallowed and a peer-initiated close is answered with exactly one close (replayed natively with a real client connection against a scripted peer over an in-memory duplex). Header ordering, discarding after an error close and EOF handling are outside.",
            "note": _NOTE + " " + _NOTE_M},
    "C13": {"engine": "mir-smt", "design_ref": "DESIGN.md §4 C13", "technique": "symbolic execution of rustc MIR of the session/link lifecycle functions from every state, decided by z3 and cvc5",
            "text": "From every SessionState / LinkState with error and closed flags symbolic: on_incoming_begin/end, send_begin/send_end, Link::on_incoming_detach and send_detach follow the session/link diagrams; closing is answered with closing; mismatched answers are refused; illegal events fail with the state unchanged; at most one frame per call and only in a legal state; the output handle is released only on reaching DETACHED/CLOSED in on_incoming_detach. 'No later than the next operation', draining and Drop are outside.",
            "note": _NOTE_M},
    "C15": {"engine": "kani", "design_ref": "DESIGN.md §4 C15", "technique": "bounded model checking (Kani/CBMC) of the AMQP and SASL frame decoders on every undersized frame, and of the disposition range count",
            "text": "Every frame of 0..3 bytes (what a peer's size field of 4..7 yields) through the real AMQP FrameDecoder and SASL FrameCodec returns Ok/Err without panic; counting the deliveries of a disposition range never overflows for any (first,last). Together with C04 (performative body arithmetic). Engine reactions to protocol violations are outside.",
            "note": _NOTE},
    "C17": {"engine": "mir-smt+kani", "design_ref": "DESIGN.md §4 C17", "technique": "MIR->SMT (z3+cvc5) on Connection::allocate_session; Kani/CBMC on on_incoming_open for min(local,remote)",
            "text": "For every pair of 16-bit channel-max values the agreed maximum is the smaller one (Kani harness c12_on_incoming_open, also evidence for C17); for every state, agreed maximum and vacant slab key, a session is begun only on a channel <= the agreed maximum and otherwise refused with nothing allocated. Idle time-outs (tokio timers) are outside.",
            "note": _NOTE_M},
    "C19": {"engine": "kani", "design_ref": "DESIGN.md §4 C19", "technique": "bounded model checking (Kani/CBMC) of SaslPlainMechanism::on_init over every initial-response of 0..8 bytes",
            "text": "With configured credentials ab/cd, for EVERY initial-response byte string of length 0,3,5,6,7,8: the outcome is OK exactly for `authzid NUL ab NUL cd [NUL ..]`, everything else (wrong, prefix, one byte different, empty, embedded NUL, missing response, out-of-order response frame) is non-OK. The negotiation loops and SCRAM are outside.",
            "note": _NOTE},
})

NOT_APPLICABLE = {
    "C01": "end-to-end delivery is a property of six concurrently scheduled tokio tasks joined by mpsc channels; operating a tokio channel under Kani is an internal compiler error (thread_local with destructor) and Kani has no concurrency; the solver-reachable pieces are claimed under C06/C07/C10/C11",
    "C02": "every settlement step runs through hash-keyed state (HashMap/IndexMap); a single HashMap insert+get does not terminate in CBMC within 400 s, and the dispose paths await tokio mpsc (Kani ICE)",
    "C14": "quantifies over transport cut points x pending awaits across spawned tokio tasks (channels, JoinHandles, IO driver): not executable under Kani, no loop-free integer kernel for the MIR->SMT engine",
    "C16": "needs recv/send futures polled and dropped at each await; every await there is a tokio mpsc/select! operation (Kani ICE)",
    "C18": "transaction manager state is an IndexMap keyed by transaction id (hashing), ids from OS RNG, commit replays frames through awaits on session channels: nothing solver-executable",
}
