#!/usr/bin/env python3
"""Regenerates /verif/MANIFEST.json from lib/manifest_data.py (kept valid at all times)."""
import json, os, sys
VERIF = os.path.dirname(os.path.dirname(os.path.abspath(__file__)))
sys.path.insert(0, os.path.join(VERIF, "lib"))
from manifest_data import CLAIMED, NOT_APPLICABLE, HOOK_COMMITS  # noqa

checks = []
for pid, c in sorted(CLAIMED.items()):
    checks.append({
        "property_id": pid,
        "quick_cmd": f"./check {pid} --quick",
        "thorough_cmd": f"./check {pid} --thorough",
        "evidence_file": f"/verif/evidence/{pid}.json",
        "replay_cmd_template": f"./check {pid} --replay {{path}}",
        "engine": c["engine"],
        "level_claimed": {"category": "other", "text": c["text"], "design_ref": c["design_ref"]},
        "level_note": c["note"],
        "technique": c["technique"],
    })
m = {
    "version": 1,
    "setup_cmd": "./setup.sh",
    "hooks": {
        "guard": "--cfg fe2o3_amqp_verif",
        "enable": "RUSTFLAGS='--cfg fe2o3_amqp_verif' (set by ./check for the harness crates that need the facade; passes through cargo kani and cargo +nightly rustc)",
        "baseline_off_cmd": "cd /repo && cargo test --workspace --no-fail-fast --offline",
        "source_commits": HOOK_COMMITS,
        "add_only": False,
    },
    "engines": [
        {"name": "kani", "path": "/verif/kani", "serves_properties": sorted(p for p, c in CLAIMED.items() if "kani" in c["engine"]), "kind_free_text": "Kani 0.68 / CBMC 6.11 bounded model checking of harness crates that call the real code (path dependencies on /repo)"},
        {"name": "mir-smt", "path": "/verif/mirsmt", "serves_properties": sorted(p for p, c in CLAIMED.items() if "mir-smt" in c["engine"]), "kind_free_text": "rustc MIR (nightly -Zunpretty=mir of the current tree) of named functions translated to SMT-LIB bit-vector queries, decided by z3 and cross-checked by cvc5"},
    ],
    "checks": checks,
    "not_applicable": [{"property_id": p, "reason": r} for p, r in sorted(NOT_APPLICABLE.items())],
    "notes": "Hooks: one existing line in link/state.rs (the match arm `Err(_) => self.notifier.notified().await`) is rewritten into a block to host the cfg-guarded schedule point; everything else is added. Solver-based checking only. exit 2 from ./check = inconclusive (never a pass, never a violation). Known findings: /verif/known_findings.json.",
}
json.dump(m, open(os.path.join(VERIF, "MANIFEST.json"), "w"), indent=1)
print("MANIFEST.json:", len(checks), "checks,", len(NOT_APPLICABLE), "not applicable")
