#!/bin/bash
# regress_ns.sh [-j N] [-k JOBS_PER_CHECK] <seeded-dir> ...
# Runs the registered quick check of each stored seeded change against a scratch worktree of /repo with the change
# applied, WITHOUT touching /repo or /verif: each run gets a private mount namespace in which the worktree is
# bind-mounted over /repo and a copy of /verif (committed + working files, no build output) over /verif.
# Several runs may go on at once (-j). One line per change on stdout; logs in /verif/.build/logs/regress.<id>.log.
# An argument ending in .diff is taken as a patch file (PROPS must be given); ONLY=<regex> is passed as --only.
# `PROPS="C07 C11" regress_ns.sh C07-2` runs the checks of other properties than the one in meta.json.
J=3; K=5
while getopts "j:k:" o; do case $o in j) J=$OPTARG;; k) K=$OPTARG;; esac; done; shift $((OPTIND-1))
ROOT=/tmp/rg; mkdir -p $ROOT /verif/.build/logs
one() {
  D=$1; PATCH=/verif/seeded/$D/patch.diff
  case "$D" in *.diff) PATCH=$D; D=$(basename $D .diff);; esac
  W=$ROOT/$D
  P=${PROPS:-$(python3 -c "import json;print(json.load(open('/verif/seeded/$D/meta.json'))['property'])" 2>/dev/null)}
  rm -rf $W; mkdir -p $W
  git -C /repo worktree add -q --detach $W/repo HEAD 2>/dev/null || { echo "$D: worktree failed"; return; }
  cp /repo/Cargo.lock $W/repo/Cargo.lock
  if [ "$D" != "NONE" ]; then
    git -C $W/repo apply $PATCH || { echo "$D: PATCH DOES NOT APPLY"; git -C /repo worktree remove --force $W/repo; return; }
  fi
  rsync -a --exclude .build --exclude .git /verif/ $W/verif/
  s=$(date +%s)
  for p in $P; do
    unshare -m sh -c "mount --bind $W/repo /repo && mount --bind $W/verif /verif && cd /verif && VERIF_JOBS=$K ./check $p --quick --no-evidence ${ONLY:+--only '$ONLY'}" > /verif/.build/logs/regress.$D.$p.log 2>&1
    rc=$?
    L=/verif/.build/logs/regress.$D.$p.log
    echo "$D $p rc=$rc $(( $(date +%s) - s ))s $(grep -c '^\[ *failed' $L) failed :: $(grep -h '^VIOLATION\|^KNOWN-FINDING' $L | cut -c1-140 | tr '\n' ';') $(tail -1 $L | cut -c1-150)"
  done
  git -C /repo worktree remove --force $W/repo; rm -rf $W
}
export -f one; export ROOT K PROPS ONLY
printf '%s\n' "$@" | xargs -P $J -I{} bash -c 'one {}'
git -C /repo worktree prune
