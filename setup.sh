#!/bin/sh
# Offline setup: nothing to fetch. Harness crates are built by ./check from /repo's working tree.
set -e
cd "$(dirname "$0")"
mkdir -p .build evidence replays
for c in kani/*/; do
  [ -f "$c/Cargo.toml" ] && cp /repo/Cargo.lock "$c/Cargo.lock"
done
command -v cargo-kani >/dev/null && cargo kani --version
command -v z3 >/dev/null && z3 --version
exit 0
