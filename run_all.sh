#!/bin/sh
# runs every registered check's quick (or $1) command sequentially; summary on stdout
cd "$(dirname "$0")"
TIER=${1:---quick}
for p in $(python3 -c "import json;print(' '.join(c['property_id'] for c in json.load(open('MANIFEST.json'))['checks']))"); do
  s=$(date +%s)
  ./check $p $TIER > .build/logs/all.$p.log 2>&1
  rc=$?
  echo "$p rc=$rc $(( $(date +%s) - s ))s $(tail -1 .build/logs/all.$p.log | cut -c1-160)"
done
