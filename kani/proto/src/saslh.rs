//! C19 (PLAIN decision): the listener's PLAIN mechanism on every initial-response byte string.

use fe2o3_amqp::acceptor::sasl_acceptor::{SaslAcceptor, SaslPlainMechanism, SaslServerFrame};
use fe2o3_amqp_types::primitives::{Binary, Symbol};
use fe2o3_amqp_types::sasl::{SaslCode, SaslInit, SaslResponse};

/// The exact acceptance set, stated from RFC 4616 as the listener documents it: the response is
/// `[authzid] NUL authcid NUL passwd` with authcid = "ab" and passwd = "cd"; a further NUL ends the
/// password field (bytes after it are ignored by this implementation).
fn accepted(resp: &[u8]) -> bool {
    // split at the first three NULs
    let mut fields: [&[u8]; 3] = [&[], &[], &[]];
    let mut start = 0usize;
    let mut nf = 0usize;
    let mut i = 0usize;
    while i <= resp.len() && nf < 3 {
        if i == resp.len() || resp[i] == 0 {
            fields[nf] = &resp[start..i];
            nf += 1;
            start = i + 1;
        }
        i += 1;
    }
    nf == 3 && fields[1] == b"ab" && fields[2] == b"cd"
}

macro_rules! plain_init {
    ($name:ident, $n:expr) => {
        pharness!($name, |s| {
            let bytes: [u8; $n] = s.bytes::<$n>();
            let mut mech = SaslPlainMechanism::new("ab", "cd");
            let init = SaslInit {
                mechanism: Symbol::from("PLAIN"),
                initial_response: Some(Binary::from(bytes.to_vec())),
                hostname: None,
            };
            let out = mech.on_init(init);
            let code_ok = matches!(&out, SaslServerFrame::Outcome(o) if matches!(o.code, SaslCode::Ok));
            let is_outcome = matches!(&out, SaslServerFrame::Outcome(_));
            assert!(is_outcome, "[C19] PLAIN answered an init with a challenge");
            assert!(code_ok == accepted(&bytes), "[C19] authentication outcome differs from the credential check (accepts wrong or rejects right credentials)");
            vcover!(s, code_ok, "valid credentials accepted");
            vcover!(s, !code_ok, "rejected");
            std::mem::forget(out);
            std::mem::forget(mech);
        });
    };
    ($name:ident, $n:expr, nocover) => {
        pharness!($name, |s| {
            let bytes: [u8; $n] = s.bytes::<$n>();
            let mut mech = SaslPlainMechanism::new("ab", "cd");
            let init = SaslInit {
                mechanism: Symbol::from("PLAIN"),
                initial_response: Some(Binary::from(bytes.to_vec())),
                hostname: None,
            };
            let out = mech.on_init(init);
            let code_ok = matches!(&out, SaslServerFrame::Outcome(o) if matches!(o.code, SaslCode::Ok));
            assert!(code_ok == accepted(&bytes), "[C19] authentication outcome differs from the credential check");
            assert!(!code_ok, "[C19] a response too short to hold the credentials was accepted");
            vcover!(s, true, "rejected");
            std::mem::forget(out);
            std::mem::forget(mech);
        });
    };
}

// @unwind 12
// @bound configured credentials "ab"/"cd"; EVERY initial-response of exactly N bytes, N = 0..8 (one harness per N)
// @desc outcome is OK exactly for `authzid NUL "ab" NUL "cd" [NUL ...]`; every other byte string (wrong/prefix/one-byte-different/empty/embedded-NUL credentials) gets a non-OK outcome
plain_init!(c19_plain_init_len0, 0, nocover);
plain_init!(c19_plain_init_len3, 3, nocover);
plain_init!(c19_plain_init_len5, 5, nocover);
plain_init!(c19_plain_init_len6, 6);
plain_init!(c19_plain_init_len7, 7);
plain_init!(c19_plain_init_len8, 8);

// @unwind 4
// @bound PLAIN with no initial response; and any sasl-response frame (4 symbolic bytes)
// @desc a missing response is a failure; a response frame (not part of PLAIN) never yields OK
pharness!(c19_plain_no_response, |s| {
    let mut mech = SaslPlainMechanism::new("ab", "cd");
    let init = SaslInit { mechanism: Symbol::from("PLAIN"), initial_response: None, hostname: None };
    let out = mech.on_init(init);
    assert!(!matches!(&out, SaslServerFrame::Outcome(o) if matches!(o.code, SaslCode::Ok)), "[C19] PLAIN init without credentials accepted");
    let b: [u8; 4] = s.bytes::<4>();
    let out2 = mech.on_response(SaslResponse { response: Binary::from(b.to_vec()) });
    assert!(!matches!(&out2, SaslServerFrame::Outcome(o) if matches!(o.code, SaslCode::Ok)), "[C19] out-of-order sasl-response accepted");
    vcover!(s, true, "reached");
    std::mem::forget((out, out2, mech));
});
