#[cfg(not(kani))]
fn main() {
    vproto::vsrc::replay_main(vproto::lookup)
}
#[cfg(kani)]
fn main() {}
