//! Native oracle for Engine M: runs the real Session/Connection step functions (through the
//! cfg(fe2o3_amqp_verif) facade) on concrete inputs, one command per line on stdin, and prints
//! the observable post-state as JSON. Used (i) to validate the MIR->SMT translation on concrete
//! vectors on every run and (ii) to replay SMT counterexamples before they are reported.
#[cfg(kani)]
fn main() {}

#[cfg(not(kani))]
mod track {
    //! records the largest single allocation request (for the `iofill` command)
    use std::alloc::{GlobalAlloc, Layout, System};
    use std::sync::atomic::{AtomicUsize, Ordering::SeqCst};
    pub static MAX: AtomicUsize = AtomicUsize::new(0);
    pub struct T;
    unsafe impl GlobalAlloc for T {
        unsafe fn alloc(&self, l: Layout) -> *mut u8 {
            MAX.fetch_max(l.size(), SeqCst);
            System.alloc(l)
        }
        unsafe fn dealloc(&self, p: *mut u8, l: Layout) {
            System.dealloc(p, l)
        }
        unsafe fn realloc(&self, p: *mut u8, l: Layout, n: usize) -> *mut u8 {
            MAX.fetch_max(n, SeqCst);
            System.realloc(p, l, n)
        }
        unsafe fn alloc_zeroed(&self, l: Layout) -> *mut u8 {
            MAX.fetch_max(l.size(), SeqCst);
            System.alloc_zeroed(l)
        }
    }
}
#[cfg(not(kani))]
#[global_allocator]
static TRACK: track::T = track::T;

#[cfg(not(kani))]
struct StrOnly;
#[cfg(not(kani))]
impl<'de> serde::Deserialize<'de> for StrOnly {
    fn deserialize<D: serde::Deserializer<'de>>(d: D) -> Result<Self, D::Error> {
        struct V;
        impl<'de> serde::de::Visitor<'de> for V {
            type Value = StrOnly;
            fn expecting(&self, f: &mut std::fmt::Formatter) -> std::fmt::Result {
                f.write_str("str")
            }
            fn visit_str<E>(self, _: &str) -> Result<StrOnly, E> {
                Ok(StrOnly)
            }
        }
        d.deserialize_str(V)
    }
}
#[cfg(not(kani))]
struct BytesOnly;
#[cfg(not(kani))]
impl<'de> serde::Deserialize<'de> for BytesOnly {
    fn deserialize<D: serde::Deserializer<'de>>(d: D) -> Result<Self, D::Error> {
        struct V;
        impl<'de> serde::de::Visitor<'de> for V {
            type Value = BytesOnly;
            fn expecting(&self, f: &mut std::fmt::Formatter) -> std::fmt::Result {
                f.write_str("bytes")
            }
            fn visit_bytes<E>(self, _: &[u8]) -> Result<BytesOnly, E> {
                Ok(BytesOnly)
            }
        }
        d.deserialize_bytes(V)
    }
}

/// a peer that repeats sasl-init against the crate's SCRAM listener and then goes straight to the AMQP layer;
/// adapted from the demonstration stored with seeded change C19-5
#[cfg(feature = "scram")]
mod intruder {
    use std::{sync::Arc, time::Duration};

    use bytes::BytesMut;
    use fe2o3_amqp::{
        acceptor::{scram::SingleScramCredential, ConnectionAcceptor},
        auth::scram::{ScramAuthenticator, ScramVersion},
        frames::sasl,
    };
    use fe2o3_amqp_types::{
        performatives::Open,
        primitives::{Binary, Symbol},
        sasl::SaslInit,
    };
    use tokio::io::{AsyncReadExt, AsyncWriteExt, DuplexStream};
    use tokio_util::codec::{Decoder, Encoder};

    const USERNAME: &str = "guest";
    const PASSWORD: &str = "correct horse battery staple";
    const STEP_TIMEOUT: Duration = Duration::from_millis(1500);

    const SASL_HEADER: [u8; 8] = *b"AMQP\x03\x01\x00\x00";
    const AMQP_HEADER: [u8; 8] = *b"AMQP\x00\x01\x00\x00";

    pub type Credential = Arc<SingleScramCredential>;

    pub fn credential() -> Credential {
        Arc::new(SingleScramCredential::new(USERNAME, PASSWORD, ScramVersion::Sha256).unwrap())
    }

    pub fn acceptor(
        credential: Credential,
    ) -> ConnectionAcceptor<(), ScramAuthenticator<Credential>> {
        ConnectionAcceptor::builder()
            .container_id("scram-listener")
            .sasl_acceptor(ScramAuthenticator::new(credential))
            .build()
    }

    /// One whole SASL frame (with the 4 byte size) for the performative
    fn sasl_frame(frame: sasl::Frame) -> Vec<u8> {
        let mut body = BytesMut::new();
        let mut codec = sasl::FrameCodec {};
        codec.encode(frame, &mut body).unwrap();
        let mut buf = Vec::with_capacity(body.len() + 4);
        buf.extend_from_slice(&((body.len() + 4) as u32).to_be_bytes());
        buf.extend_from_slice(&body);
        buf
    }

    fn sasl_init(n: usize) -> Vec<u8> {
        let client_first = format!("n,,n={},r=clientnonce{:04}", USERNAME, n);
        sasl_frame(sasl::Frame::Init(SaslInit {
            mechanism: Symbol::from("SCRAM-SHA-256"),
            initial_response: Some(Binary::from(client_first.into_bytes())),
            hostname: None,
        }))
    }

    /// One whole AMQP frame on channel 0 carrying an `open`
    fn open_frame() -> Vec<u8> {
        let open = Open {
            container_id: "intruder".to_string(),
            hostname: None,
            max_frame_size: Default::default(),
            channel_max: Default::default(),
            idle_time_out: None,
            outgoing_locales: None,
            incoming_locales: None,
            offered_capabilities: None,
            desired_capabilities: None,
            properties: None,
        };
        let body = serde_amqp::to_vec(&open).unwrap();
        let mut buf = Vec::with_capacity(body.len() + 8);
        buf.extend_from_slice(&((body.len() + 8) as u32).to_be_bytes());
        buf.extend_from_slice(&[0x02, 0x00, 0x00, 0x00]);
        buf.extend_from_slice(&body);
        buf
    }

    /// Reads one SASL frame; `None` if the peer closed, stalled, or sent something that is not
    /// a SASL frame
    async fn read_sasl_frame(io: &mut DuplexStream) -> Option<sasl::Frame> {
        let read = async {
            let mut size = [0u8; 4];
            io.read_exact(&mut size).await.ok()?;
            let size = u32::from_be_bytes(size) as usize;
            if !(8..=512).contains(&size) {
                return None;
            }
            let mut rest = vec![0u8; size - 4];
            io.read_exact(&mut rest).await.ok()?;
            let mut src = BytesMut::from(&rest[..]);
            let mut codec = sasl::FrameCodec {};
            codec.decode(&mut src).ok().flatten()
        };
        tokio::time::timeout(STEP_TIMEOUT, read).await.ok().flatten()
    }

    /// Returns a description of what the intruder observed after it switched to AMQP
    pub async fn intruder(mut io: DuplexStream, inits: usize) -> String {
        if io.write_all(&SASL_HEADER).await.is_err() { return "closed".to_string(); }
        let mut header = [0u8; 8];
        if io.read_exact(&mut header).await.is_err() { return "closed".to_string(); }
        if header != SASL_HEADER { return "listener did not answer with the SASL header".to_string(); }
        match read_sasl_frame(&mut io).await {
            Some(sasl::Frame::Mechanisms(_)) => {}
            other => return format!("expecting sasl-mechanisms, found {:?}", other),
        }

        for n in 0..inits {
            if io.write_all(&sasl_init(n)).await.is_err() {
                return format!("listener closed before sasl-init #{}", n + 1);
            }
            match read_sasl_frame(&mut io).await {
                Some(sasl::Frame::Challenge(_)) => {}
                Some(sasl::Frame::Outcome(outcome)) => {
                    return format!("sasl-outcome {:?} after sasl-init #{}", outcome.code, n + 1)
                }
                other => return format!("{:?} after sasl-init #{}", other, n + 1),
            }
        }

        // No sasl-response, no sasl-outcome: go straight to the AMQP layer
        let _ = io.write_all(&AMQP_HEADER).await;
        let _ = io.write_all(&open_frame()).await;

        let mut header = [0u8; 8];
        match tokio::time::timeout(STEP_TIMEOUT, io.read_exact(&mut header)).await {
            Ok(Ok(_)) if header == AMQP_HEADER => {
                // Keep the stream open until the listener made up its mind
                let mut rest = Vec::new();
                let _ = tokio::time::timeout(STEP_TIMEOUT, io.read_to_end(&mut rest)).await;
                format!(
                    "listener answered with the AMQP header and {} more bytes",
                    rest.len()
                )
            }
            Ok(Ok(_)) => format!("listener answered with {:?}", header),
            Ok(Err(_)) => "listener closed the stream".to_string(),
            Err(_) => "listener is silent".to_string(),
        }
    }

}

/// a hand-scripted transaction controller (raw frames) against the crate's own listener; adapted from the
/// demonstration stored with seeded change C18-3
mod txc {
    use std::time::Duration;

    use bytes::{BufMut, BytesMut};
    use fe2o3_amqp::{
        acceptor::{ConnectionAcceptor, LinkAcceptor, LinkEndpoint, SessionAcceptor},
        frames::amqp::{Frame, FrameBody, FrameDecoder},
        transaction::coordinator::ControlLinkAcceptor,
    };
    use fe2o3_amqp_types::{
        definitions::{Handle, ReceiverSettleMode, Role, SenderSettleMode},
        messaging::{AmqpValue, DeliveryState, Outcome, Source, Target},
        performatives::{Attach, Begin, Disposition, Open, Transfer},
        transaction::{Coordinator, Declare, Discharge, TransactionId, TransactionalState},
    };
    use serde::Serialize;
    use tokio::{
        io::{AsyncReadExt, AsyncWriteExt, DuplexStream},
        sync::mpsc,
        time::timeout,
    };
    use tokio_util::codec::Decoder;

    const STEP: Duration = Duration::from_secs(5);

    /// A hand-scripted AMQP peer: writes and reads raw frames on channel 0.
    struct Peer {
        io: DuplexStream,
    }

    impl Peer {
        async fn send<P: Serialize>(&mut self, performative: &P, payload: &[u8]) {
            let body = serde_amqp::to_vec(performative).unwrap();
            let mut buf = BytesMut::new();
            buf.put_u32((8 + body.len() + payload.len()) as u32);
            buf.put_u8(2); // doff
            buf.put_u8(0); // AMQP frame
            buf.put_u16(0); // channel
            buf.put_slice(&body);
            buf.put_slice(payload);
            self.io.write_all(&buf).await.unwrap();
            self.io.flush().await.unwrap();
        }

        async fn recv(&mut self) -> FrameBody {
            let size = self.io.read_u32().await.expect("peer closed the stream") as usize;
            let mut rest = vec![0u8; size - 4];
            self.io.read_exact(&mut rest).await.unwrap();
            let mut src = BytesMut::from(&rest[..]);
            let mut dec = FrameDecoder {};
            let frame: Frame = dec.decode(&mut src).unwrap().unwrap();
            frame.body
        }

        /// Reads frames until `pick` returns something; everything else is skipped.
        async fn until<T>(&mut self, what: &str, mut pick: impl FnMut(FrameBody) -> Option<T>) -> T {
            let fut = async {
                loop {
                    let body = self.recv().await;
                    match &body {
                        FrameBody::End(end) => panic!("waiting for {what}: session ended: {end:?}"),
                        FrameBody::Close(close) => panic!("waiting for {what}: closed: {close:?}"),
                        FrameBody::Detach(detach) => panic!("waiting for {what}: detached: {detach:?}"),
                        _ => {}
                    }
                    if let Some(found) = pick(body) {
                        return found;
                    }
                }
            };
            timeout(STEP, fut)
                .await
                .unwrap_or_else(|_| panic!("timed out waiting for {what}"))
        }

        /// Attaches a sending link and waits for the attach echo and for link credit.
        async fn attach_sender(&mut self, name: &str, handle: u32, coordinator: bool) {
            let target = match coordinator {
                true => Coordinator::default().into(),
                false => Target::builder().address("q").build().into(),
            };
            let attach = Attach {
                name: name.to_string(),
                handle: Handle(handle),
                role: Role::Sender,
                snd_settle_mode: SenderSettleMode::Unsettled,
                rcv_settle_mode: ReceiverSettleMode::First,
                source: Some(Box::new(Source::default())),
                target: Some(Box::new(target)),
                unsettled: None,
                incomplete_unsettled: false,
                initial_delivery_count: Some(0),
                max_message_size: None,
                offered_capabilities: None,
                desired_capabilities: None,
                properties: None,
            };
            self.send(&attach, &[]).await;
            let name = name.to_string();
            let local = self
                .until("attach echo", |body| match body {
                    FrameBody::Attach(attach) if attach.name == name => Some(attach.handle),
                    _ => None,
                })
                .await;
            self.until("link credit", |body| match body {
                FrameBody::Flow(flow)
                    if flow.handle == Some(local.clone()) && flow.link_credit.unwrap_or(0) > 0 =>
                {
                    Some(())
                }
                _ => None,
            })
            .await;
        }

        /// Sends one single-frame unsettled delivery and returns the state of the disposition
        /// that covers it.
        async fn deliver<B: Serialize>(
            &mut self,
            handle: u32,
            delivery_id: u32,
            state: Option<DeliveryState>,
            body: B,
        ) -> Option<DeliveryState> {
            let transfer = Transfer {
                handle: Handle(handle),
                delivery_id: Some(delivery_id),
                delivery_tag: Some(delivery_id.to_be_bytes().to_vec().into()),
                message_format: Some(0),
                settled: Some(false),
                more: false,
                rcv_settle_mode: None,
                state,
                resume: false,
                aborted: false,
                batchable: false,
            };
            // A message that consists of a single amqp-value body section
            let payload = serde_amqp::to_vec(&AmqpValue(body)).unwrap();
            self.send(&transfer, &payload).await;
            self.until("disposition", |body| match body {
                FrameBody::Disposition(Disposition {
                    role: Role::Receiver,
                    first,
                    last,
                    state,
                    ..
                }) if first <= delivery_id && delivery_id <= last.unwrap_or(first) => Some(state),
                _ => None,
            })
            .await
        }
    }

    /// The resource side: the crate's listener.  Every message the application receives on the
    /// accepted link is forwarded to the returned channel.
    fn spawn_listener(server_io: DuplexStream) -> mpsc::UnboundedReceiver<String> {
        let (tx, rx) = mpsc::unbounded_channel();
        tokio::spawn(async move {
            let connection_acceptor = ConnectionAcceptor::builder()
                .container_id("listener")
                .build();
            let mut connection = connection_acceptor.accept(server_io).await.unwrap();
            let session_acceptor = SessionAcceptor::builder()
                .control_link_acceptor(ControlLinkAcceptor::default())
                .build();
            let mut session = session_acceptor.accept(&mut connection).await.unwrap();
            let link_acceptor = LinkAcceptor::builder().build();
            let mut receiver = match link_acceptor.accept(&mut session).await.unwrap() {
                LinkEndpoint::Receiver(receiver) => receiver,
                LinkEndpoint::Sender(_) => panic!("expected a receiving link"),
            };
            while let Ok(delivery) = receiver.recv::<String>().await {
                let _ = receiver.accept(&delivery).await;
                if tx.send(delivery.body().clone()).is_err() {
                    break;
                }
            }
            // keep the session and the connection up until the test is over
            tx.closed().await;
            drop(session);
            drop(connection);
        });
        rx
    }

    /// declare; post "first", "second"; discharge with the given `fail` field.  Returns what the
    /// listener's application has received (a) before the discharge and (b) after it.
    pub async fn scenario(fail: Option<bool>) -> (Vec<String>, Vec<String>) {
        let (client_io, server_io) = tokio::io::duplex(64 * 1024);
        let mut received = spawn_listener(server_io);
        let mut peer = Peer { io: client_io };

        // protocol header, open, begin
        peer.io.write_all(b"AMQP\x00\x01\x00\x00").await.unwrap();
        let mut header = [0u8; 8];
        timeout(STEP, peer.io.read_exact(&mut header))
            .await
            .unwrap()
            .unwrap();
        assert_eq!(&header, b"AMQP\x00\x01\x00\x00");
        let open = Open {
            container_id: "scripted-controller".to_string(),
            hostname: None,
            max_frame_size: Default::default(),
            channel_max: Default::default(),
            idle_time_out: None,
            outgoing_locales: None,
            incoming_locales: None,
            offered_capabilities: None,
            desired_capabilities: None,
            properties: None,
        };
        peer.send(&open, &[]).await;
        peer.until("open", |body| matches!(body, FrameBody::Open(_)).then_some(()))
            .await;
        let begin = Begin {
            remote_channel: None,
            next_outgoing_id: 0,
            incoming_window: 2048,
            outgoing_window: 2048,
            handle_max: Default::default(),
            offered_capabilities: None,
            desired_capabilities: None,
            properties: None,
        };
        peer.send(&begin, &[]).await;
        peer.until("begin", |body| matches!(body, FrameBody::Begin(_)).then_some(()))
            .await;

        // control link (handle 0) and declare
        peer.attach_sender("control-link", 0, true).await;
        let txn_id: TransactionId = match peer
            .deliver(0, 0, None, Declare { global_id: None })
            .await
        {
            Some(DeliveryState::Declared(declared)) => declared.txn_id,
            other => panic!("declare was answered with {other:?}"),
        };

        // posting link (handle 1) and two transactional posts
        peer.attach_sender("posting-link", 1, false).await;
        for (delivery_id, text) in [(1u32, "first"), (2u32, "second")] {
            let state = DeliveryState::TransactionalState(TransactionalState {
                txn_id: txn_id.clone(),
                outcome: None,
            });
            match peer
                .deliver(1, delivery_id, Some(state), text.to_string())
                .await
            {
                Some(DeliveryState::TransactionalState(TransactionalState {
                    txn_id: echoed,
                    outcome: Some(Outcome::Accepted(_)),
                })) => assert_eq!(echoed, txn_id),
                other => panic!("post {text:?} was answered with {other:?}"),
            }
        }

        // nothing may be visible before the discharge
        let mut before = Vec::new();
        while let Ok(Some(text)) = timeout(Duration::from_millis(200), received.recv()).await {
            before.push(text);
        }

        // discharge; the coordinator has to report success
        let discharge = Discharge {
            txn_id: txn_id.clone(),
            fail,
        };
        match peer.deliver(0, 3, None, discharge).await {
            Some(DeliveryState::Accepted(_)) => {}
            other => panic!("discharge(fail = {fail:?}) was answered with {other:?}"),
        }

        let mut after = Vec::new();
        while let Ok(Some(text)) = timeout(Duration::from_millis(300), received.recv()).await {
            after.push(text);
        }
        (before, after)
    }

}

#[cfg(not(kani))]
mod sp {
    //! A scripted AMQP peer for native replays: a real client (public API over an in-memory duplex) talks to
    //! this peer, which by default answers open/begin/attach/detach/end/close in kind and records every frame it
    //! sees. A scenario customises it with a rule that may take over the answer to any frame.
    use fe2o3_amqp::frames::amqp::{Frame, FrameBody};
    use fe2o3_amqp::transport::Transport;
    use fe2o3_amqp_types::definitions::Role;
    use fe2o3_amqp_types::performatives::{End, Flow};
    use futures_util::{SinkExt, StreamExt};
    use tokio::io::{AsyncReadExt, AsyncWriteExt, DuplexStream};

    pub fn describe(f: &Frame) -> String {
        match &f.body {
            FrameBody::Open(_) => "open".into(),
            FrameBody::Begin(_) => format!("begin@{}", f.channel),
            FrameBody::Attach(a) => format!("attach:{}:h{}{}", a.name, a.handle.0, match a.unsettled.as_ref().map(|m| m.keys().map(|k| format!("{}", k.first().copied().unwrap_or(0))).collect::<Vec<_>>()).unwrap_or_default() { v if v.is_empty() => String::new(), v => format!(":unsettled+{}+", v.join("+")) }),
            FrameBody::Flow(fl) => format!("flow:h{:?}:dc{:?}:credit{:?}:nii{:?}:drain{}:echo{}", fl.handle.as_ref().map(|h| h.0), fl.delivery_count, fl.link_credit, fl.next_incoming_id, fl.drain, fl.echo),
            FrameBody::Transfer { performative: t, payload } => format!("transfer:h{}:id{:?}:settled{:?}:more{}:len{}:tail{}", t.handle.0, t.delivery_id, t.settled, t.more, payload.len(), payload.last().copied().unwrap_or(0)),
            FrameBody::Disposition(d) => format!("disposition:{:?}:{}-{:?}:settled{}:{}", d.role, d.first, d.last, d.settled, d.state.as_ref().map(|s| format!("{:?}", s).split(|c: char| !c.is_alphanumeric()).next().unwrap_or("").to_string()).unwrap_or_else(|| "none".into())),
            FrameBody::Detach(d) => format!("detach:h{}:{}:{}", d.handle.0, d.closed, if d.error.is_some() { "err" } else { "noerr" }),
            FrameBody::End(e) => format!("end@{}:{}", f.channel, if e.error.is_some() { "err" } else { "noerr" }),
            FrameBody::Close(c) => format!("close:{}", if c.error.is_some() { "err" } else { "noerr" }),
            FrameBody::Empty => "empty".into(),
        }
    }

    /// what a rule may do with a frame: replies to send (channel, body); `handled` = skip the default answer;
    /// `stop` = drop the stream afterwards
    #[derive(Default)]
    pub struct Act {
        pub replies: Vec<Frame>,
        pub handled: bool,
        pub stop: bool,
        /// after sending the replies: do not read from the stream for this long (back-pressure on the client)
        pub pause_ms: u64,
        /// sent after the pause
        pub late_replies: Vec<Frame>,
    }

    pub struct PeerCfg {
        pub idle_time_out: Option<u32>,
        /// credit granted to a client-side sender right after its attach (None: no flow)
        pub credit: Option<u32>,
        /// how the peer numbers its own channels / handles (added to the client's number)
        pub channel_shift: u16,
    }
    impl Default for PeerCfg {
        fn default() -> Self {
            PeerCfg { idle_time_out: None, credit: Some(100), channel_shift: 0 }
        }
    }

    /// the peer's default answer to a frame (in kind); second component: the conversation is over
    pub fn default_answers(frame: &Frame, cfg: &PeerCfg) -> (Vec<Frame>, bool) {
        let channel = frame.channel;
        let mut out = Vec::new();
        let mut stop = false;
        match &frame.body {
            FrameBody::Open(open) => {
                let mut open = open.clone();
                open.container_id = "scripted-peer".to_string();
                open.idle_time_out = cfg.idle_time_out;
                out.push(Frame::new(0u16, FrameBody::Open(open)));
            }
            FrameBody::Begin(begin) => {
                let mut begin = begin.clone();
                begin.remote_channel = Some(channel);
                out.push(Frame::new(channel + cfg.channel_shift, FrameBody::Begin(begin)));
            }
            FrameBody::Attach(attach) => {
                let mut attach = attach.clone();
                let client_is_sender = matches!(attach.role, Role::Sender);
                attach.role = if client_is_sender { Role::Receiver } else { Role::Sender };
                attach.initial_delivery_count = if client_is_sender { None } else { Some(0) };
                attach.unsettled = None;
                let handle = attach.handle.clone();
                out.push(Frame::new(channel + cfg.channel_shift, FrameBody::Attach(attach)));
                if let (true, Some(credit)) = (client_is_sender, cfg.credit) {
                    let flow = Flow { next_incoming_id: Some(0), incoming_window: 2048, next_outgoing_id: 0, outgoing_window: 2048, handle: Some(handle), delivery_count: Some(0), link_credit: Some(credit), available: None, drain: false, echo: false, properties: None };
                    out.push(Frame::new(channel + cfg.channel_shift, FrameBody::Flow(flow)));
                }
            }
            FrameBody::Detach(detach) => {
                let mut detach = detach.clone();
                detach.error = None;
                out.push(Frame::new(channel + cfg.channel_shift, FrameBody::Detach(detach)));
            }
            FrameBody::End(_) => {
                out.push(Frame::new(channel + cfg.channel_shift, FrameBody::End(End { error: None })));
            }
            FrameBody::Close(close) => {
                let mut close = close.clone();
                close.error = None;
                out.push(Frame::new(0u16, FrameBody::Close(close)));
                stop = true;
            }
            _ => {}
        }
        (out, stop)
    }

    pub async fn run<R>(mut io: DuplexStream, cfg: PeerCfg, mut rule: R) -> Vec<String>
    where
        R: FnMut(&Frame, &[String]) -> Act + Send,
    {
        let mut log = Vec::new();
        let mut header = [0u8; 8];
        if io.read_exact(&mut header).await.is_err() {
            return log;
        }
        let _ = io.write_all(b"AMQP\x00\x01\x00\x00").await;
        let mut transport = Transport::<_, Frame>::bind(io, 64 * 1024, None);
        while let Some(frame) = transport.next().await {
            let frame = match frame {
                Ok(f) => f,
                Err(_) => {
                    log.push("decode-error".into());
                    break;
                }
            };
            log.push(describe(&frame));
            let act = rule(&frame, &log);
            for r in act.replies {
                let _ = transport.send(r).await;
            }
            if act.pause_ms > 0 {
                tokio::time::sleep(std::time::Duration::from_millis(act.pause_ms)).await;
            }
            for r in act.late_replies {
                if transport.send(r).await.is_err() {
                    log.push("send-failed".into());
                }
            }
            if act.stop {
                break;
            }
            if act.handled {
                continue;
            }
            let (replies, stop) = default_answers(&frame, &cfg);
            for r in replies {
                let _ = transport.send(r).await;
            }
            if stop {
                break;
            }
        }
        log
    }

    pub fn json_list(v: &[String]) -> String {
        format!("[{}]", v.iter().map(|s| format!("\"{}\"", s.replace('\\', "/").replace('"', "'"))).collect::<Vec<_>>().join(","))
    }
}

#[cfg(not(kani))]
fn main() {
    use bytes::Bytes;
    use fe2o3_amqp::verif_facade::*;
    use fe2o3_amqp_types::definitions::Handle;
    use fe2o3_amqp_types::performatives::{Begin, End, Flow, Transfer};
    use fe2o3_amqp_types::states::SessionState;
    use serde_bytes::ByteBuf;
    use std::future::Future;
    use std::io::BufRead;

    fn sstate(i: u64) -> SessionState {
        match i {
            0 => SessionState::Unmapped,
            1 => SessionState::BeginSent,
            2 => SessionState::BeginReceived,
            3 => SessionState::Mapped,
            4 => SessionState::EndSent,
            5 => SessionState::EndReceived,
            _ => SessionState::Discarding,
        }
    }
    fn sidx(s: &SessionState) -> u64 {
        match s {
            SessionState::Unmapped => 0,
            SessionState::BeginSent => 1,
            SessionState::BeginReceived => 2,
            SessionState::Mapped => 3,
            SessionState::EndSent => 4,
            SessionState::EndReceived => 5,
            SessionState::Discarding => 6,
        }
    }
    fn poll<F: std::future::Future>(f: F) -> Option<F::Output> {
        let mut f = Box::pin(f);
        let mut cx = std::task::Context::from_waker(std::task::Waker::noop());
        match f.as_mut().poll(&mut cx) {
            std::task::Poll::Ready(v) => Some(v),
            std::task::Poll::Pending => None,
        }
    }
    fn counters_json(c: &VSessionCounters, st: u64) -> String {
        format!(
            "\"state\":{},\"initial_outgoing_id\":{},\"next_outgoing_id\":{},\"incoming_window\":{},\"outgoing_window\":{},\"next_incoming_id\":{},\"need_flow_count\":{},\"remote_incoming_window\":{},\"remote_outgoing_window\":{},\"buffered\":{}",
            st, c.initial_outgoing_id, c.next_outgoing_id, c.incoming_window, c.outgoing_window, c.next_incoming_id, c.need_flow_count, c.remote_incoming_window, c.remote_outgoing_window, c.buffered
        )
    }
    // session <state> <initial_outgoing_id> <next_outgoing_id> <incoming_window> <outgoing_window> <next_incoming_id> <need_flow_count> <riw> <row>
    fn mk_session(a: &[u64]) -> VSession {
        let mut s = VSession::new(sstate(a[0]), a[1] as u32, a[3] as u32, a[4] as u32);
        let mut c = s.counters();
        c.next_outgoing_id = a[2] as u32;
        c.next_incoming_id = a[5] as u32;
        c.need_flow_count = a[6] as u32;
        c.remote_incoming_window = a[7] as u32;
        c.remote_outgoing_window = a[8] as u32;
        s.set_counters(c);
        s
    }
    let stdin = std::io::stdin();
    for line in stdin.lock().lines() {
        let line = line.unwrap();
        let toks: Vec<&str> = line.split_whitespace().collect();
        if toks.is_empty() {
            continue;
        }
        let nums: Vec<u64> = toks[1..].iter().map(|t| t.parse::<u64>().unwrap_or(0)).collect();
        let r = std::panic::catch_unwind(|| match toks[0] {
            // transfer <9 session nums> <has_tag> <settled_opt 0|1|2>
            "transfer" => {
                let mut s = mk_session(&nums[..9]);
                let t = Transfer {
                    handle: Handle(0),
                    delivery_id: None,
                    delivery_tag: if nums[9] == 1 { Some(ByteBuf::from(vec![1u8])) } else { None },
                    message_format: None,
                    settled: match nums[10] { 0 => None, 1 => Some(false), _ => Some(true) },
                    more: false,
                    rcv_settle_mode: None,
                    state: None,
                    resume: false,
                    aborted: false,
                    batchable: false,
                };
                let out = s.on_outgoing_transfer(0, t, Bytes::from_static(b"x"));
                let frames = match &out {
                    Ok(v) => v.iter().map(|(id, is_t)| format!("[{},{}]", id.map(|x| x as i64).unwrap_or(-1), is_t)).collect::<Vec<_>>().join(","),
                    Err(_) => String::new(),
                };
                format!("{{\"ok\":{},\"frames\":[{}],{}}}", out.is_ok(), frames, counters_json(&s.counters(), sidx(s.local_state())))
            }
            // xfer_in <9 session nums> <handle>: one incoming transfer frame for a handle no link is attached to
            "xfer_in" => {
                let mut s = mk_session(&nums[..9]);
                let t = Transfer { handle: Handle(nums[9] as u32), delivery_id: Some(0), delivery_tag: Some(ByteBuf::from(vec![1u8])), message_format: Some(0), settled: Some(true), more: false, rcv_settle_mode: None, state: None, resume: false, aborted: false, batchable: false };
                let out = poll(s.on_incoming_transfer(t, Bytes::from_static(b"x")));
                format!("{{\"ready\":{},\"ok\":{},{}}}", out.is_some(), matches!(out, Some(Ok(()))), counters_json(&s.counters(), sidx(s.local_state())))
            }
            // flow <9 session nums> <nii_present> <nii> <incoming_window> <next_outgoing_id> <outgoing_window>
            "flow" => {
                let mut s = mk_session(&nums[..9]);
                let f = Flow {
                    next_incoming_id: if nums[9] == 1 { Some(nums[10] as u32) } else { None },
                    incoming_window: nums[11] as u32,
                    next_outgoing_id: nums[12] as u32,
                    outgoing_window: nums[13] as u32,
                    handle: None,
                    delivery_count: None,
                    link_credit: None,
                    available: None,
                    drain: false,
                    echo: false,
                    properties: None,
                };
                let out = poll(s.on_incoming_flow(f));
                format!("{{\"ready\":{},\"ok\":{},{}}}", out.is_some(), matches!(out, Some(Ok(_))), counters_json(&s.counters(), sidx(s.local_state())))
            }
            // begin <9 session nums> <channel> <next_outgoing_id> <incoming_window> <outgoing_window>
            "begin" => {
                let mut s = mk_session(&nums[..9]);
                let b = Begin {
                    remote_channel: None,
                    next_outgoing_id: nums[10] as u32,
                    incoming_window: nums[11] as u32,
                    outgoing_window: nums[12] as u32,
                    handle_max: Default::default(),
                    offered_capabilities: None,
                    desired_capabilities: None,
                    properties: None,
                };
                let out = s.on_incoming_begin(nums[9] as u16, b);
                format!("{{\"ok\":{},{}}}", out.is_ok(), counters_json(&s.counters(), sidx(s.local_state())))
            }
            // end <9 session nums> <with_error>
            "end" => {
                let mut s = mk_session(&nums[..9]);
                let e = End { error: if nums[9] == 1 { Some(fe2o3_amqp_types::definitions::Error::new(fe2o3_amqp_types::definitions::AmqpError::InternalError, None, None)) } else { None } };
                let out = s.on_incoming_end(0, e);
                format!("{{\"ok\":{},{}}}", out.is_ok(), counters_json(&s.counters(), sidx(s.local_state())))
            }
            // sflow <9 session nums>: the session flow the endpoint would send
            "sflow" => {
                let s = mk_session(&nums[..9]);
                let (a, b, c, d) = s.outgoing_session_flow().unwrap();
                format!("{{\"next_incoming_id\":{},\"incoming_window\":{},\"next_outgoing_id\":{},\"outgoing_window\":{}}}", a.map(|x| x as i64).unwrap_or(-1), b, c, d)
            }
            // nsettled <first> <last_present> <last>
            "nsettled" => {
                let n = num_messages_settled_by_disposition(nums[0] as u32, if nums[1] == 1 { Some(nums[2] as u32) } else { None });
                format!("{{\"n\":{}}}", n)
            }
            // send_end <9 session nums> <with_error>   /   send_begin <9 session nums>
            "send_end" | "send_begin" => {
                let mut s = mk_session(&nums[..9]);
                let out = if toks[0] == "send_end" { s.send_end(nums[9] == 1) } else { s.send_begin() };
                format!("{{\"ready\":{},\"ok\":{},\"frames\":{},{}}}", out.ready_ok.is_some(), out.ready_ok == Some(true), out.frames, counters_json(&s.counters(), sidx(s.local_state())))
            }
            // link_detach <link state 0..12> <has_handle> <closed> <with_error>
            // link_send_detach <link state> <has_handle> <closed>
            "link_detach" | "link_send_detach" => {
                fn lstate(i: u64) -> VLinkState {
                    match i {
                        0 => VLinkState::Unattached,
                        1 => VLinkState::AttachSent,
                        2 => VLinkState::IncompleteAttachSent,
                        3 => VLinkState::AttachReceived,
                        4 => VLinkState::IncompleteAttachReceived,
                        5 => VLinkState::Attached,
                        6 => VLinkState::IncompleteAttachExchanged,
                        7 => VLinkState::DetachSent,
                        8 => VLinkState::DetachReceived,
                        9 => VLinkState::Detached,
                        10 => VLinkState::CloseSent,
                        11 => VLinkState::CloseReceived,
                        _ => VLinkState::Closed,
                    }
                }
                fn lidx(s: &VLinkState) -> u64 {
                    match s {
                        VLinkState::Unattached => 0,
                        VLinkState::AttachSent => 1,
                        VLinkState::IncompleteAttachSent => 2,
                        VLinkState::AttachReceived => 3,
                        VLinkState::IncompleteAttachReceived => 4,
                        VLinkState::Attached => 5,
                        VLinkState::IncompleteAttachExchanged => 6,
                        VLinkState::DetachSent => 7,
                        VLinkState::DetachReceived => 8,
                        VLinkState::Detached => 9,
                        VLinkState::CloseSent => 10,
                        VLinkState::CloseReceived => 11,
                        VLinkState::Closed => 12,
                    }
                }
                let mut l = VLink::new(lstate(nums[0]), nums[1] == 1);
                if toks[0] == "link_detach" {
                    let r = l.on_incoming_detach(nums[2] == 1, nums[3] == 1);
                    format!("{{\"ok\":{},\"state\":{},\"has_handle\":{}}}", r.is_ok(), lidx(l.local_state()), l.has_output_handle())
                } else {
                    let out = l.send_detach(nums[2] == 1);
                    format!("{{\"ready\":{},\"ok\":{},\"frames\":{},\"state\":{},\"has_handle\":{}}}", out.ready_ok.is_some(), out.ready_ok == Some(true), out.frames, lidx(l.local_state()), l.has_output_handle())
                }
            }
            // conn_send_open <conn state 0..13> / conn_send_close <conn state> <with_error> / alloc <conn state> <channel_max> <k live sessions>
            "conn_send_open" | "conn_send_close" | "alloc" => {
                use fe2o3_amqp::frames::amqp::{Frame, FrameBody};
                use fe2o3_amqp_types::performatives::{ChannelMax, MaxFrameSize, Open};
                use fe2o3_amqp_types::states::ConnectionState as CS;
                use std::pin::Pin;
                use std::task::{Context, Poll};
                struct RecSink {
                    opens: u32,
                    closes: u32,
                    others: u32,
                    close_err: bool,
                }
                impl futures_util::Sink<Frame> for RecSink {
                    type Error = fe2o3_amqp::transport::Error;
                    fn poll_ready(self: Pin<&mut Self>, _: &mut Context<'_>) -> Poll<Result<(), Self::Error>> {
                        Poll::Ready(Ok(()))
                    }
                    fn start_send(mut self: Pin<&mut Self>, item: Frame) -> Result<(), Self::Error> {
                        match &item.body {
                            FrameBody::Open(_) => self.opens += 1,
                            FrameBody::Close(c) => {
                                self.closes += 1;
                                self.close_err = c.error.is_some();
                            }
                            _ => self.others += 1,
                        }
                        Ok(())
                    }
                    fn poll_flush(self: Pin<&mut Self>, _: &mut Context<'_>) -> Poll<Result<(), Self::Error>> {
                        Poll::Ready(Ok(()))
                    }
                    fn poll_close(self: Pin<&mut Self>, _: &mut Context<'_>) -> Poll<Result<(), Self::Error>> {
                        Poll::Ready(Ok(()))
                    }
                }
                fn cstate(i: u64) -> CS {
                    match i {
                        0 => CS::Start,
                        1 => CS::HeaderReceived,
                        2 => CS::HeaderSent,
                        3 => CS::HeaderExchange,
                        4 => CS::OpenPipe,
                        5 => CS::OpenClosePipe,
                        6 => CS::OpenReceived,
                        7 => CS::OpenSent,
                        8 => CS::ClosePipe,
                        9 => CS::Opened,
                        10 => CS::CloseReceived,
                        11 => CS::CloseSent,
                        12 => CS::Discarding,
                        _ => CS::End,
                    }
                }
                fn cidx(s: &CS) -> u64 {
                    match s {
                        CS::Start => 0,
                        CS::HeaderReceived => 1,
                        CS::HeaderSent => 2,
                        CS::HeaderExchange => 3,
                        CS::OpenPipe => 4,
                        CS::OpenClosePipe => 5,
                        CS::OpenReceived => 6,
                        CS::OpenSent => 7,
                        CS::ClosePipe => 8,
                        CS::Opened => 9,
                        CS::CloseReceived => 10,
                        CS::CloseSent => 11,
                        CS::Discarding => 12,
                        CS::End => 13,
                    }
                }
                let open = Open {
                    container_id: String::new(),
                    hostname: None,
                    max_frame_size: MaxFrameSize(512),
                    channel_max: ChannelMax(u16::MAX),
                    idle_time_out: None,
                    outgoing_locales: None,
                    incoming_locales: None,
                    offered_capabilities: None,
                    desired_capabilities: None,
                    properties: None,
                };
                let mut c = VConnection::new(cstate(nums[0]), open);
                if toks[0] == "alloc" && nums.len() >= 4 && nums[3] >= 1 {
                    // alloc <conn state> <channel_max> <k> <hole+1>: k live sessions, the one on channel <hole> ends,
                    // then a new session begins: the channel it gets must not be held by a live session
                    c.set_local_state(CS::Opened);
                    c.set_agreed_channel_max(u16::MAX);
                    for _ in 0..nums[2] {
                        let _ = c.allocate_session();
                    }
                    c.deallocate_session((nums[3] - 1) as u16);
                    let live: Vec<u16> = (0..=nums[2] as u16).filter(|ch| c.channel_in_use(*ch)).collect();
                    let before = c.sessions();
                    let r = c.allocate_session();
                    let ch = r.map(|x| x as i64).unwrap_or(-1);
                    let dup = ch >= 0 && live.contains(&(ch as u16));
                    format!("{{\"ok\":{},\"channel\":{},\"dup\":{},\"sessions_before\":{},\"sessions_after\":{}}}", r.is_ok(), ch, dup, before, c.sessions())
                } else if toks[0] == "alloc" {
                    c.set_agreed_channel_max(nums[1] as u16);
                    // k live sessions on channels 0..k (allocated while the state allows it)
                    let st = cstate(nums[0]);
                    c.set_local_state(CS::Opened);
                    c.set_agreed_channel_max(u16::MAX);
                    for _ in 0..nums[2] {
                        let _ = c.allocate_session();
                    }
                    c.set_local_state(st);
                    c.set_agreed_channel_max(nums[1] as u16);
                    let before = c.sessions();
                    let r = c.allocate_session();
                    format!("{{\"ok\":{},\"channel\":{},\"max_reached\":{},\"sessions_before\":{},\"sessions_after\":{}}}", r.is_ok(), r.map(|x| x as i64).unwrap_or(-1), r == Err(true), before, c.sessions())
                } else {
                    let mut sink = RecSink { opens: 0, closes: 0, others: 0, close_err: false };
                    let out = if toks[0] == "conn_send_open" {
                        poll(c.send_open(&mut sink))
                    } else {
                        let e = if nums[1] == 1 { Some(fe2o3_amqp_types::definitions::Error::new(fe2o3_amqp_types::definitions::AmqpError::InternalError, None, None)) } else { None };
                        poll(c.send_close(&mut sink, e))
                    };
                    format!("{{\"ready\":{},\"ok\":{},\"state\":{},\"opens\":{},\"closes\":{},\"others\":{},\"close_err\":{}}}", out.is_some(), matches!(out, Some(Ok(()))), cidx(c.local_state()), sink.opens, sink.closes, sink.others, sink.close_err)
                }
            }
            // topup <n> <processed_before> <k> <single 0|1>
            "topup" => {
                let r = receiver_auto_credit_dispose(nums[0] as u32, nums[1] as u32, nums[2] as u32, nums[3] == 1);
                format!("{{\"ok\":{},\"flows\":{},\"processed_after\":{}}}", r.ok, r.flows_with_full_credit, r.processed_after)
            }
            // peer_close <local_first 0|1> <peer_error 0|1>: a real client connection (public API,
            // open_with_stream over an in-memory duplex) against a scripted peer. local_first=1: the
            // client closes first and the peer answers with a close (carrying an error or not);
            // local_first=0: the peer closes first. Reports what ConnectionHandle::close returned.
            "peer_close" => {
                use bytes::{BufMut, BytesMut};
                use fe2o3_amqp::frames::amqp::{Frame, FrameBody, FrameDecoder};
                use fe2o3_amqp_types::performatives::{ChannelMax, Close, MaxFrameSize, Open};
                use tokio::io::{AsyncReadExt, AsyncWriteExt};
                use tokio_util::codec::{Decoder, Encoder};
                let local_first = nums[0] == 1;
                let peer_error = nums[1] == 1;
                let rt = tokio::runtime::Builder::new_current_thread().enable_time().build().unwrap();
                let out = rt.block_on(async move {
                    fn wire(frame: Frame) -> Vec<u8> {
                        let mut enc = frame_encoder(512);
                        let mut body = BytesMut::new();
                        enc.encode(frame, &mut body).unwrap();
                        let mut v = Vec::new();
                        v.put_u32(body.len() as u32 + 4);
                        v.extend_from_slice(&body);
                        v
                    }
                    let (client_io, mut peer_io) = tokio::io::duplex(4096);
                    let peer = tokio::spawn(async move {
                        let mut hdr = [0u8; 8];
                        peer_io.read_exact(&mut hdr).await.unwrap();
                        peer_io.write_all(b"AMQP\x00\x01\x00\x00").await.unwrap();
                        let open = Open {
                            container_id: "peer".to_string(),
                            hostname: None,
                            max_frame_size: MaxFrameSize(512),
                            channel_max: ChannelMax(10),
                            idle_time_out: None,
                            outgoing_locales: None,
                            incoming_locales: None,
                            offered_capabilities: None,
                            desired_capabilities: None,
                            properties: None,
                        };
                        peer_io.write_all(&wire(Frame::new(0u16, FrameBody::Open(open)))).await.unwrap();
                        let close = || Close {
                            error: if peer_error { Some(fe2o3_amqp_types::definitions::Error::new(fe2o3_amqp_types::definitions::AmqpError::InternalError, Some("peer says no".to_string()), None)) } else { None },
                        };
                        if !local_first {
                            peer_io.write_all(&wire(Frame::new(0u16, FrameBody::Close(close())))).await.unwrap();
                        }
                        // read frames until the client's close arrives
                        let mut sent_close = !local_first;
                        loop {
                            let mut len = [0u8; 4];
                            if peer_io.read_exact(&mut len).await.is_err() {
                                break;
                            }
                            let n = u32::from_be_bytes(len) as usize - 4;
                            let mut body = vec![0u8; n];
                            if peer_io.read_exact(&mut body).await.is_err() {
                                break;
                            }
                            let mut src = BytesMut::from(&body[..]);
                            if let Ok(Some(f)) = (FrameDecoder {}).decode(&mut src) {
                                if matches!(f.body, FrameBody::Close(_)) {
                                    if !sent_close {
                                        let _ = peer_io.write_all(&wire(Frame::new(0u16, FrameBody::Close(close())))).await;
                                        sent_close = true;
                                    }
                                    break;
                                }
                            }
                        }
                    });
                    let res = tokio::time::timeout(std::time::Duration::from_secs(5), async {
                        let mut conn = fe2o3_amqp::Connection::builder().container_id("client").open_with_stream(client_io).await.map_err(|e| format!("open: {e:?}"))?;
                        if !local_first {
                            // give the peer's close time to arrive
                            tokio::time::sleep(std::time::Duration::from_millis(50)).await;
                        }
                        let r = conn.close().await;
                        Ok::<_, String>(match r {
                            Ok(()) => "ok",
                            Err(fe2o3_amqp::connection::Error::RemoteClosedWithError(_)) => "remote_closed_with_error",
                            Err(fe2o3_amqp::connection::Error::RemoteClosed) => "remote_closed",
                            Err(_) => "other_error",
                        })
                    })
                    .await;
                    let _ = peer.await;
                    match res {
                        Ok(Ok(s)) => s.to_string(),
                        Ok(Err(e)) => e,
                        Err(_) => "hang".to_string(),
                    }
                });
                format!("{{\"close_result\":\"{}\"}}", out)
            }
            // peer_inject <begin|end|flow|attach> <n>: a real client connection (public API over an in-memory duplex)
            //   against a scripted peer that, once the connection is open, sends one frame the client has no
            //   session for: begin with remote-channel n, or end/flow/attach on channel n. Reports how the
            //   client reacted as seen by the peer (close with error / close / stream died / silence).
            "peer_inject" => {
                use bytes::{BufMut, BytesMut};
                use fe2o3_amqp::frames::amqp::{Frame, FrameBody, FrameDecoder};
                use fe2o3_amqp_types::definitions::{Handle as H2, Role};
                use fe2o3_amqp_types::performatives::{Attach, Begin, ChannelMax, End, Flow, MaxFrameSize, Open};
                use tokio::io::{AsyncReadExt, AsyncWriteExt};
                use tokio_util::codec::{Decoder, Encoder};
                let kind = toks[1].to_string();
                let n = nums[1] as u16;
                let rt = tokio::runtime::Builder::new_current_thread().enable_time().build().unwrap();
                let out = rt.block_on(async move {
                    fn wire(frame: Frame) -> Vec<u8> {
                        let mut enc = frame_encoder(512);
                        let mut body = BytesMut::new();
                        enc.encode(frame, &mut body).unwrap();
                        let mut v = Vec::new();
                        v.put_u32(body.len() as u32 + 4);
                        v.extend_from_slice(&body);
                        v
                    }
                    let (client_io, mut peer_io) = tokio::io::duplex(4096);
                    let peer = tokio::spawn(async move {
                        let mut hdr = [0u8; 8];
                        peer_io.read_exact(&mut hdr).await.unwrap();
                        peer_io.write_all(b"AMQP\x00\x01\x00\x00").await.unwrap();
                        let open = Open {
                            container_id: "peer".to_string(),
                            hostname: None,
                            max_frame_size: MaxFrameSize(512),
                            channel_max: ChannelMax(10),
                            idle_time_out: None,
                            outgoing_locales: None,
                            incoming_locales: None,
                            offered_capabilities: None,
                            desired_capabilities: None,
                            properties: None,
                        };
                        peer_io.write_all(&wire(Frame::new(0u16, FrameBody::Open(open)))).await.unwrap();
                        // wait for the client's open
                        let mut len = [0u8; 4];
                        if peer_io.read_exact(&mut len).await.is_err() {
                            return "died";
                        }
                        let mut body = vec![0u8; u32::from_be_bytes(len) as usize - 4];
                        let _ = peer_io.read_exact(&mut body).await;
                        let frame = match kind.as_str() {
                            "begin" => Frame::new(0u16, FrameBody::Begin(Begin { remote_channel: Some(n), next_outgoing_id: 0, incoming_window: 10, outgoing_window: 10, handle_max: Default::default(), offered_capabilities: None, desired_capabilities: None, properties: None })),
                            "end" => Frame::new(n, FrameBody::End(End { error: None })),
                            "flow" => Frame::new(n, FrameBody::Flow(Flow { next_incoming_id: Some(0), incoming_window: 10, next_outgoing_id: 0, outgoing_window: 10, handle: None, delivery_count: None, link_credit: None, available: None, drain: false, echo: false, properties: None })),
                            _ => Frame::new(n, FrameBody::Attach(Attach { name: "x".to_string(), handle: H2(0), role: Role::Sender, snd_settle_mode: Default::default(), rcv_settle_mode: Default::default(), source: None, target: None, unsettled: None, incomplete_unsettled: false, initial_delivery_count: Some(0), max_message_size: None, offered_capabilities: None, desired_capabilities: None, properties: None })),
                        };
                        peer_io.write_all(&wire(frame)).await.unwrap();
                        // how does the client react?
                        let react = tokio::time::timeout(std::time::Duration::from_millis(1500), async {
                            loop {
                                let mut len = [0u8; 4];
                                if peer_io.read_exact(&mut len).await.is_err() {
                                    return "died";
                                }
                                let nb = u32::from_be_bytes(len) as usize - 4;
                                let mut body = vec![0u8; nb];
                                if peer_io.read_exact(&mut body).await.is_err() {
                                    return "died";
                                }
                                let mut src = BytesMut::from(&body[..]);
                                if let Ok(Some(f)) = (FrameDecoder {}).decode(&mut src) {
                                    if let FrameBody::Close(c) = f.body {
                                        return if c.error.is_some() { "close_err" } else { "close" };
                                    }
                                }
                            }
                        })
                        .await;
                        react.unwrap_or("silence")
                    });
                    let client = tokio::time::timeout(std::time::Duration::from_secs(4), async {
                        let mut conn = match fe2o3_amqp::Connection::builder().container_id("client").open_with_stream(client_io).await {
                            Ok(c) => c,
                            Err(_) => return "open_failed",
                        };
                        match tokio::time::timeout(std::time::Duration::from_millis(2500), conn.on_close()).await {
                            Err(_) => "still_open",
                            Ok(Ok(())) => "closed_ok",
                            Ok(Err(fe2o3_amqp::connection::Error::NotFound(_))) => "not_found",
                            Ok(Err(fe2o3_amqp::connection::Error::IllegalState)) => "illegal_state",
                            Ok(Err(_)) => "other_error",
                        }
                    })
                    .await
                    .unwrap_or("hang");
                    let p = peer.await.unwrap_or("peer_panicked");
                    format!("{{\"peer\":\"{}\",\"client\":\"{}\"}}", p, client)
                });
                out
            }
            // scram_rogue <script>: a real client (Connection::builder().sasl_profile(SCRAM-SHA-256)) against a
            //   scripted server that does NOT know the password. script 0: mechanisms, init, outcome{ok, no
            //   additional-data}; 1: mechanisms, init, outcome{ok, bogus signature}; 2: mechanisms, init, a
            //   plausible challenge, response, outcome{ok, no additional-data}. Reports whether the client left
            //   the SASL layer as if authenticated (it then sends the AMQP header).
            #[cfg(feature = "scram")]
            "scram_rogue" => {
                use bytes::BytesMut;
                use fe2o3_amqp::frames::sasl::{Frame as SFrame, FrameCodec};
                use fe2o3_amqp_types::primitives::{Array, Binary, Symbol};
                use fe2o3_amqp_types::sasl::{SaslChallenge, SaslCode, SaslMechanisms, SaslOutcome};
                use tokio::io::{AsyncReadExt, AsyncWriteExt};
                use tokio_util::codec::{Decoder, Encoder};
                let script = nums[0];
                let rt = tokio::runtime::Builder::new_current_thread().enable_time().build().unwrap();
                let out = rt.block_on(async move {
                    async fn write_frame(io: &mut tokio::io::DuplexStream, f: SFrame) {
                        let mut body = BytesMut::new();
                        FrameCodec {}.encode(f, &mut body).unwrap();
                        let _ = io.write_u32(body.len() as u32 + 4).await;
                        let _ = io.write_all(&body).await;
                    }
                    async fn read_frame(io: &mut tokio::io::DuplexStream) -> Option<SFrame> {
                        let n = io.read_u32().await.ok()? as usize;
                        let mut body = vec![0u8; n.checked_sub(4)?];
                        io.read_exact(&mut body).await.ok()?;
                        let mut src = BytesMut::from(&body[..]);
                        FrameCodec {}.decode(&mut src).ok().flatten()
                    }
                    let (client_io, mut peer_io) = tokio::io::duplex(8192);
                    let peer = tokio::spawn(async move {
                        let mut hdr = [0u8; 8];
                        if peer_io.read_exact(&mut hdr).await.is_err() {
                            return false;
                        }
                        let _ = peer_io.write_all(b"AMQP\x03\x01\x00\x00").await;
                        write_frame(&mut peer_io, SFrame::Mechanisms(SaslMechanisms { sasl_server_mechanisms: Array::from(vec![Symbol::from("SCRAM-SHA-256")]) })).await;
                        let init = read_frame(&mut peer_io).await;
                        if script >= 2 {
                            // server-first built from the client's nonce so that the client accepts it
                            let client_first = match init {
                                Some(SFrame::Init(i)) => i.initial_response.map(|b| b.to_vec()).unwrap_or_default(),
                                _ => Vec::new(),
                            };
                            let text = String::from_utf8_lossy(&client_first).to_string();
                            let nonce = text.split(',').find_map(|p| p.strip_prefix("r=")).unwrap_or("x").to_string();
                            let server_first = format!("r={}ROGUE,s=QSXCR+Q6sek8bf92,i=4096", nonce);
                            write_frame(&mut peer_io, SFrame::Challenge(SaslChallenge { challenge: Binary::from(server_first.into_bytes()) })).await;
                            let _ = read_frame(&mut peer_io).await;
                        }
                        // 3: a full exchange ending in an EMPTY verifier; 4: the same with a trailing extension
                        let data = match script {
                            1 => Some(Binary::from(b"v=AAAAAAAAAAAAAAAAAAAAAAAAAAAAAAAAAAAAAAAAAAA=".to_vec())),
                            3 => Some(Binary::from(b"v=".to_vec())),
                            4 => Some(Binary::from(b"v=,x=y".to_vec())),
                            _ => None,
                        };
                        write_frame(&mut peer_io, SFrame::Outcome(SaslOutcome { code: SaslCode::Ok, additional_data: data })).await;
                        // an authenticated client now starts the AMQP layer
                        let mut hdr2 = [0u8; 8];
                        match tokio::time::timeout(std::time::Duration::from_millis(800), peer_io.read_exact(&mut hdr2)).await {
                            Ok(Ok(_)) => &hdr2 == b"AMQP\x00\x01\x00\x00",
                            _ => false,
                        }
                    });
                    let client = tokio::time::timeout(std::time::Duration::from_millis(1500), async {
                        fe2o3_amqp::Connection::builder()
                            .container_id("client")
                            .sasl_profile(fe2o3_amqp::sasl_profile::SaslScramSha256::new("user", "pencil"))
                            .open_with_stream(client_io)
                            .await
                            .is_ok()
                    })
                    .await;
                    let proceeded = peer.await.unwrap_or(false);
                    format!("{{\"client_proceeded\":{},\"client_open_ok\":{}}}", proceeded, matches!(client, Ok(true)))
                });
                out
            }
            // scram_replay: an honest SCRAM-SHA-256 client authenticates against the crate's listener through a tap that
            //   records what the client sends; then a peer WITHOUT the password connects to the same listener and replays
            //   the recorded sasl header, sasl-init and sasl-response verbatim. The listener must not answer ok.
            #[cfg(feature = "scram")]
            "scram_replay" => {
                use fe2o3_amqp::acceptor::{scram::SingleScramCredential, ConnectionAcceptor};
                use fe2o3_amqp::auth::scram::{ScramAuthenticator, ScramVersion};
                use fe2o3_amqp_types::sasl::{SaslChallenge, SaslCode, SaslOutcome};
                use std::sync::{Arc, Mutex};
                use tokio::io::{AsyncReadExt, AsyncWriteExt};
                let rt = tokio::runtime::Builder::new_current_thread().enable_time().build().unwrap();
                rt.block_on(async move {
                    async fn pump<R: tokio::io::AsyncRead + Unpin, W: tokio::io::AsyncWrite + Unpin>(mut from: R, mut to: W, record: Option<Arc<Mutex<Vec<u8>>>>) {
                        let mut buf = [0u8; 1024];
                        loop {
                            match from.read(&mut buf).await {
                                Ok(0) | Err(_) => break,
                                Ok(n) => {
                                    if let Some(r) = &record {
                                        r.lock().unwrap().extend_from_slice(&buf[..n]);
                                    }
                                    if to.write_all(&buf[..n]).await.is_err() {
                                        break;
                                    }
                                }
                            }
                        }
                        let _ = to.shutdown().await;
                    }
                    async fn read_frame_body(io: &mut tokio::io::DuplexStream) -> Option<Vec<u8>> {
                        let size = io.read_u32().await.ok()? as usize;
                        let mut frame = vec![0u8; size.checked_sub(4)?];
                        io.read_exact(&mut frame).await.ok()?;
                        Some(frame.get(4..)?.to_vec())
                    }
                    let out = tokio::time::timeout(std::time::Duration::from_secs(10), async {
                        let credential = SingleScramCredential::new("user", "pencil", ScramVersion::Sha256).map_err(|_| "credential")?;
                        let acceptor = Arc::new(ConnectionAcceptor::builder().container_id("listener").sasl_acceptor(ScramAuthenticator::new(Arc::new(credential))).build());
                        let (client_io, tap_client_side) = tokio::io::duplex(8192);
                        let (tap_server_side, server_io) = tokio::io::duplex(8192);
                        let recording = Arc::new(Mutex::new(Vec::new()));
                        let (tap_c_rd, tap_c_wr) = tokio::io::split(tap_client_side);
                        let (tap_s_rd, tap_s_wr) = tokio::io::split(tap_server_side);
                        tokio::spawn(pump(tap_c_rd, tap_s_wr, Some(recording.clone())));
                        tokio::spawn(pump(tap_s_rd, tap_c_wr, None));
                        let acc = acceptor.clone();
                        let server = tokio::spawn(async move { acc.accept(server_io).await });
                        let client = tokio::spawn(async move { fe2o3_amqp::Connection::builder().container_id("honest").sasl_profile(fe2o3_amqp::sasl_profile::SaslScramSha256::new("user", "pencil")).open_with_stream(client_io).await });
                        let honest_server = server.await.map_err(|_| "server_task")?;
                        let honest_client = client.await.map_err(|_| "client_task")?;
                        if honest_server.is_err() || honest_client.is_err() {
                            return Err("honest_login_failed");
                        }
                        let recorded = recording.lock().unwrap().clone();
                        if recorded.len() < 16 {
                            return Err("nothing_recorded");
                        }
                        let mut cur = &recorded[..];
                        let take_header = |c: &mut &[u8]| { let (h, r) = c.split_at(8); *c = r; h.to_vec() };
                        let take_frame = |c: &mut &[u8]| { let n = u32::from_be_bytes([c[0], c[1], c[2], c[3]]) as usize; let (f, r) = c.split_at(n.min(c.len())); *c = r; f.to_vec() };
                        let sasl_header = take_header(&mut cur);
                        let sasl_init = take_frame(&mut cur);
                        let sasl_response = take_frame(&mut cur);
                        let _keep = (honest_server, honest_client);
                        let (mut peer, server_io) = tokio::io::duplex(8192);
                        let acc = acceptor.clone();
                        let server = tokio::spawn(async move { acc.accept(server_io).await });
                        peer.write_all(&sasl_header).await.map_err(|_| "write")?;
                        peer.write_all(&sasl_init).await.map_err(|_| "write")?;
                        let mut header = [0u8; 8];
                        peer.read_exact(&mut header).await.map_err(|_| "read_header")?;
                        let _mechs = read_frame_body(&mut peer).await.ok_or("read_mechanisms")?;
                        let mut body = read_frame_body(&mut peer).await.ok_or("read_challenge")?;
                        if serde_amqp::from_slice::<SaslChallenge>(&body).is_ok() {
                            peer.write_all(&sasl_response).await.map_err(|_| "write")?;
                            body = read_frame_body(&mut peer).await.ok_or("read_outcome")?;
                        }
                        let outcome: SaslOutcome = serde_amqp::from_slice(&body).map_err(|_| "outcome")?;
                        let ok = matches!(outcome.code, SaslCode::Ok);
                        drop(peer);
                        let _ = tokio::time::timeout(std::time::Duration::from_secs(2), server).await;
                        Ok::<_, &'static str>(ok)
                    })
                    .await
                    .unwrap_or(Err("hang"));
                    match out {
                        Ok(accepted) => format!("{{\"client\":\"ok\",\"replay_accepted\":{}}}", accepted),
                        Err(e) => format!("{{\"client\":\"{}\",\"replay_accepted\":false}}", e),
                    }
                })
            }
            // sasl_outcome <code 0..4>: a real client with the PLAIN profile against a scripted server that answers
            //   init with sasl-outcome{code}; reports whether the client went on to the AMQP header
            "sasl_outcome" => {
                use bytes::BytesMut;
                use fe2o3_amqp::frames::sasl::{Frame as SFrame, FrameCodec};
                use fe2o3_amqp_types::primitives::{Array, Symbol};
                use fe2o3_amqp_types::sasl::{SaslCode, SaslMechanisms, SaslOutcome};
                use tokio::io::{AsyncReadExt, AsyncWriteExt};
                use tokio_util::codec::Encoder;
                let code = match nums[0] {
                    0 => SaslCode::Ok,
                    1 => SaslCode::Auth,
                    2 => SaslCode::Sys,
                    3 => SaslCode::SysPerm,
                    _ => SaslCode::SysTemp,
                };
                let rt = tokio::runtime::Builder::new_current_thread().enable_time().build().unwrap();
                rt.block_on(async move {
                    async fn write_frame(io: &mut tokio::io::DuplexStream, f: SFrame) {
                        let mut body = BytesMut::new();
                        FrameCodec {}.encode(f, &mut body).unwrap();
                        let _ = io.write_u32(body.len() as u32 + 4).await;
                        let _ = io.write_all(&body).await;
                    }
                    let (client_io, mut peer_io) = tokio::io::duplex(8192);
                    let peer = tokio::spawn(async move {
                        let mut hdr = [0u8; 8];
                        if peer_io.read_exact(&mut hdr).await.is_err() {
                            return false;
                        }
                        let _ = peer_io.write_all(b"AMQP\x03\x01\x00\x00").await;
                        write_frame(&mut peer_io, SFrame::Mechanisms(SaslMechanisms { sasl_server_mechanisms: Array::from(vec![Symbol::from("PLAIN")]) })).await;
                        // the init frame
                        if let Ok(n) = peer_io.read_u32().await {
                            let mut body = vec![0u8; (n as usize).saturating_sub(4)];
                            let _ = peer_io.read_exact(&mut body).await;
                        }
                        write_frame(&mut peer_io, SFrame::Outcome(SaslOutcome { code, additional_data: None })).await;
                        let mut hdr2 = [0u8; 8];
                        match tokio::time::timeout(std::time::Duration::from_millis(800), peer_io.read_exact(&mut hdr2)).await {
                            Ok(Ok(_)) => &hdr2 == b"AMQP\x00\x01\x00\x00",
                            _ => false,
                        }
                    });
                    let client = tokio::time::timeout(std::time::Duration::from_millis(1500), async {
                        fe2o3_amqp::Connection::builder()
                            .container_id("client")
                            .sasl_profile(fe2o3_amqp::sasl_profile::SaslProfile::Plain { username: "user".to_string(), password: "pw".to_string() })
                            .open_with_stream(client_io)
                            .await
                            .is_ok()
                    })
                    .await;
                    let proceeded = peer.await.unwrap_or(false);
                    format!("{{\"client_proceeded\":{},\"client_open_ok\":{}}}", proceeded, matches!(client, Ok(true)))
                })
            }
            // idle <T ms> <gap ms>: a real client configured with idle_time_out(T) against a scripted peer that
            //   advertises no time-out of its own. gap > 0: the peer sends an empty frame every <gap> ms (< T) six
            //   times -- the connection must survive -- and then falls silent -- the client must then report the
            //   time-out. gap = 0: the peer is silent from the start; the time-out must come, and not before T.
            //   Wall-clock based (generous margins); only used to confirm a solver counterexample.
            "idle" => {
                use bytes::{BufMut, BytesMut};
                use fe2o3_amqp::frames::amqp::{Frame, FrameBody};
                use fe2o3_amqp_types::performatives::{ChannelMax, MaxFrameSize, Open};
                use tokio::io::{AsyncReadExt, AsyncWriteExt};
                use tokio_util::codec::Encoder;
                let (t_ms, gap) = (nums[0], nums[1]);
                let rt = tokio::runtime::Builder::new_current_thread().enable_time().build().unwrap();
                rt.block_on(async move {
                    fn wire(frame: Frame) -> Vec<u8> {
                        let mut enc = frame_encoder(512);
                        let mut body = BytesMut::new();
                        enc.encode(frame, &mut body).unwrap();
                        let mut v = Vec::new();
                        v.put_u32(body.len() as u32 + 4);
                        v.extend_from_slice(&body);
                        v
                    }
                    let (client_io, mut peer_io) = tokio::io::duplex(8192);
                    let peer = tokio::spawn(async move {
                        let mut hdr = [0u8; 8];
                        let _ = peer_io.read_exact(&mut hdr).await;
                        let _ = peer_io.write_all(b"AMQP\x00\x01\x00\x00").await;
                        let open = Open { container_id: "peer".to_string(), hostname: None, max_frame_size: MaxFrameSize(512), channel_max: ChannelMax(10), idle_time_out: None, outgoing_locales: None, incoming_locales: None, offered_capabilities: None, desired_capabilities: None, properties: None };
                        let _ = peer_io.write_all(&wire(Frame::new(0u16, FrameBody::Open(open)))).await;
                        if gap > 0 {
                            for _ in 0..6 {
                                tokio::time::sleep(std::time::Duration::from_millis(gap)).await;
                                if peer_io.write_all(&wire(Frame::new(0u16, FrameBody::Empty))).await.is_err() {
                                    break;
                                }
                            }
                        }
                        // keep the stream open and silent
                        tokio::time::sleep(std::time::Duration::from_millis(4 * t_ms + 500)).await;
                        drop(peer_io);
                    });
                    let start = std::time::Instant::now();
                    let r = tokio::time::timeout(std::time::Duration::from_millis(6 * gap + 4 * t_ms + 400), async {
                        let mut conn = match fe2o3_amqp::Connection::builder().container_id("client").idle_time_out(t_ms as u32).open_with_stream(client_io).await {
                            Ok(c) => c,
                            Err(_) => return "open_failed",
                        };
                        match conn.on_close().await {
                            Err(fe2o3_amqp::connection::Error::TransportError(fe2o3_amqp::transport::Error::IdleTimeoutElapsed)) => "idle_timeout",
                            Err(_) => "other_error",
                            Ok(()) => "closed_ok",
                        }
                    })
                    .await
                    .unwrap_or("no_timeout");
                    let elapsed = start.elapsed().as_millis() as u64;
                    peer.abort();
                    // with traffic: must outlive the traffic phase; in any case: not before T of silence, and eventually
                    let earliest = 6 * gap + t_ms - t_ms / 10;
                    let ok = r == "idle_timeout" && elapsed >= earliest;
                    format!("{{\"ok\":{},\"result\":\"{}\",\"elapsed_ms\":{},\"earliest_ms\":{}}}", ok, r, elapsed, earliest)
                })
            }
            // hb_after_close | hb_gap: a real client connection (public API over an in-memory duplex) against a scripted
            //   peer that advertises an idle-time-out T. hb_after_close: T = 100 ms, the client closes, the peer sits on
            //   the close for 700 ms and counts the frames that still arrive (must be none). hb_gap: T = 400 ms, the
            //   client begins a session 100 ms into a heartbeat period and then stays quiet; the peer records the
            //   arrival time of every frame for 1.7 s and reports the longest silence (must not exceed T).
            //   Wall-clock based (generous tolerance); only used to confirm a solver counterexample.
            "hb_after_close" | "hb_gap" => {
                use bytes::{BufMut, BytesMut};
                use fe2o3_amqp::frames::amqp::{Frame, FrameBody, FrameDecoder};
                use fe2o3_amqp_types::performatives::{Begin, ChannelMax, Close, MaxFrameSize, Open};
                use tokio::io::{AsyncReadExt, AsyncWriteExt};
                use tokio_util::codec::{Decoder, Encoder};
                let after_close = toks[0] == "hb_after_close";
                let idle_ms: u64 = if after_close { 100 } else { 400 };
                let rt = tokio::runtime::Builder::new_current_thread().enable_time().build().unwrap();
                rt.block_on(async move {
                    fn wire(frame: Frame) -> Vec<u8> {
                        let mut enc = frame_encoder(512);
                        let mut body = BytesMut::new();
                        enc.encode(frame, &mut body).unwrap();
                        let mut v = Vec::new();
                        v.put_u32(body.len() as u32 + 4);
                        v.extend_from_slice(&body);
                        v
                    }
                    async fn read_frame(io: &mut tokio::io::DuplexStream) -> Option<Frame> {
                        let mut len = [0u8; 4];
                        io.read_exact(&mut len).await.ok()?;
                        let n = (u32::from_be_bytes(len) as usize).checked_sub(4)?;
                        let mut body = vec![0u8; n];
                        io.read_exact(&mut body).await.ok()?;
                        let mut src = BytesMut::from(&body[..]);
                        (FrameDecoder {}).decode(&mut src).ok().flatten()
                    }
                    let (client_io, mut peer_io) = tokio::io::duplex(8192);
                    let peer = tokio::spawn(async move {
                        let mut hdr = [0u8; 8];
                        let _ = peer_io.read_exact(&mut hdr).await;
                        let _ = peer_io.write_all(b"AMQP\x00\x01\x00\x00").await;
                        let open = Open { container_id: "peer".to_string(), hostname: None, max_frame_size: MaxFrameSize(512), channel_max: ChannelMax(10), idle_time_out: Some(idle_ms as u32), outgoing_locales: None, incoming_locales: None, offered_capabilities: None, desired_capabilities: None, properties: None };
                        let _ = peer_io.write_all(&wire(Frame::new(0u16, FrameBody::Open(open)))).await;
                        let mut frames_after_close = 0u64;
                        let mut max_gap = 0u64;
                        let mut last = None::<std::time::Instant>;
                        let window = std::time::Duration::from_millis(if after_close { 5000 } else { 1700 });
                        let t0 = std::time::Instant::now();
                        loop {
                            let left = window.saturating_sub(t0.elapsed());
                            let f = match tokio::time::timeout(left, read_frame(&mut peer_io)).await {
                                Ok(Some(f)) => f,
                                _ => break,
                            };
                            let now = std::time::Instant::now();
                            if let Some(l) = last {
                                max_gap = max_gap.max(now.duration_since(l).as_millis() as u64);
                            }
                            last = Some(now);
                            match f.body {
                                FrameBody::Begin(_) => {
                                    let b = Begin { remote_channel: Some(f.channel), next_outgoing_id: 0, incoming_window: 10, outgoing_window: 10, handle_max: Default::default(), offered_capabilities: None, desired_capabilities: None, properties: None };
                                    let _ = peer_io.write_all(&wire(Frame::new(0u16, FrameBody::Begin(b)))).await;
                                }
                                FrameBody::Close(_) => {
                                    // sit on the close and count what still arrives
                                    let until = std::time::Instant::now() + std::time::Duration::from_millis(700);
                                    loop {
                                        let left = until.saturating_duration_since(std::time::Instant::now());
                                        match tokio::time::timeout(left, read_frame(&mut peer_io)).await {
                                            Ok(Some(_)) => frames_after_close += 1,
                                            _ => break,
                                        }
                                    }
                                    let _ = peer_io.write_all(&wire(Frame::new(0u16, FrameBody::Close(Close { error: None })))).await;
                                    break;
                                }
                                _ => {}
                            }
                        }
                        if let Some(l) = last {
                            if !after_close {
                                max_gap = max_gap.max(std::time::Instant::now().duration_since(l).as_millis() as u64);
                            }
                        }
                        (frames_after_close, max_gap)
                    });
                    let client = tokio::time::timeout(std::time::Duration::from_secs(8), async {
                        let mut conn = match fe2o3_amqp::Connection::builder().container_id("client").open_with_stream(client_io).await {
                            Ok(c) => c,
                            Err(_) => return "open_failed",
                        };
                        if after_close {
                            tokio::time::sleep(std::time::Duration::from_millis(30)).await;
                            match conn.close().await {
                                Ok(()) => "closed_ok",
                                Err(_) => "close_err",
                            }
                        } else {
                            tokio::time::sleep(std::time::Duration::from_millis(100)).await;
                            let session = fe2o3_amqp::Session::begin(&mut conn).await;
                            tokio::time::sleep(std::time::Duration::from_millis(1800)).await;
                            drop(session);
                            "measured"
                        }
                    })
                    .await
                    .unwrap_or("hang");
                    let (fac, gap) = peer.await.unwrap_or((u64::MAX, u64::MAX));
                    format!("{{\"client\":\"{}\",\"frames_after_close\":{},\"max_gap_ms\":{},\"idle_ms\":{},\"tolerance_ms\":150}}", client, fac, gap, idle_ms)
                })
            }
            // reader <dst_len> <l1> <l2> <l3>: one read of the chained-buffer reader over three chunks
            "reader" => {
                use std::io::Read;
                let (d, ls) = (nums[0] as usize, [nums[1] as usize, nums[2] as usize, nums[3] as usize]);
                let mut next = 1u8;
                let mut all = Vec::new();
                let chunks: Vec<Bytes> = ls
                    .iter()
                    .map(|l| {
                        let v: Vec<u8> = (0..*l).map(|_| { let b = next; next = next.wrapping_add(1); b }).collect();
                        all.extend_from_slice(&v);
                        Bytes::from(v)
                    })
                    .collect();
                let mut rd = VByteReader::new(chunks);
                let mut dst = vec![0u8; d];
                let n = rd.read(&mut dst).unwrap();
                let want = d.min(all.len());
                let ok = n == want && dst[..n] == all[..n];
                format!("{{\"n\":{},\"prefix_ok\":{}}}", n, ok)
            }
            // setsize <encoder 1|0> <peer max-frame-size>
            "setsize" => {
                let (a, _b) = tokio::io::duplex(64);
                let mut t = fe2o3_amqp::transport::Transport::<_, fe2o3_amqp::frames::amqp::Frame>::bind(a, 512, None);
                if nums[0] == 1 {
                    t.set_encoder_max_frame_size(nums[1] as usize);
                    let _ = frame_encoder(t.encoder_max_frame_size());
                } else {
                    t.set_decoder_max_frame_size(nums[1] as usize);
                }
                format!("{{\"panic\":false,\"encoder_max\":{}}}", t.encoder_max_frame_size())
            }
            // chunks <target encoded length>: send one Open frame whose encoding is exactly that long
            // through a real Transport (max-frame-size 512) and look at the frames on the wire
            "chunks" => {
                use bytes::BytesMut;
                use fe2o3_amqp::frames::amqp::{Frame, FrameBody};
                use fe2o3_amqp_types::performatives::{ChannelMax, MaxFrameSize, Open};
                use futures_util::SinkExt;
                use tokio::io::AsyncReadExt;
                use tokio_util::codec::Encoder;
                let target = nums[0] as usize;
                let mk = |n: usize| Open {
                    container_id: "x".repeat(n),
                    hostname: None,
                    max_frame_size: MaxFrameSize(512),
                    channel_max: ChannelMax(10),
                    idle_time_out: None,
                    outgoing_locales: None,
                    incoming_locales: None,
                    offered_capabilities: None,
                    desired_capabilities: None,
                    properties: None,
                };
                let mut n_id = None;
                for n in 0..600 {
                    let mut b = BytesMut::new();
                    frame_encoder(508).encode(Frame::new(0u16, FrameBody::Open(mk(n))), &mut b).unwrap();
                    if b.len() == target {
                        n_id = Some(n);
                        break;
                    }
                }
                let n_id = n_id.expect("no container-id length gives the requested encoding length");
                let rt = tokio::runtime::Builder::new_current_thread().build().unwrap();
                rt.block_on(async move {
                    let (a, mut b) = tokio::io::duplex(1 << 16);
                    let mut t = fe2o3_amqp::transport::Transport::<_, Frame>::bind(a, 512, None);
                    t.send(Frame::new(0u16, FrameBody::Open(mk(n_id)))).await.unwrap();
                    drop(t);
                    let mut wire = Vec::new();
                    b.read_to_end(&mut wire).await.unwrap();
                    let (mut off, mut empty, mut over, mut total, mut frames) = (0usize, 0, 0, 0usize, 0);
                    while off + 4 <= wire.len() {
                        let sz = u32::from_be_bytes([wire[off], wire[off + 1], wire[off + 2], wire[off + 3]]) as usize;
                        frames += 1;
                        if sz <= 4 {
                            empty += 1;
                        }
                        if sz > 512 {
                            over += 1;
                        }
                        total += sz.saturating_sub(4);
                        off += sz.max(4);
                    }
                    format!("{{\"frames\":{},\"empty_chunks\":{},\"oversized\":{},\"total\":{},\"encoded\":{}}}", frames, empty, over, total, target)
                })
            }
            // handles <peer handle for A> <peer handle for B>: links A and B attached (our handles 0 and 1),
            // A detached in both directions, then C attached: which handle does C get, and is the
            // name "B" still refused?
            "handles" => {
                let mut s = VSession::new(SessionState::Mapped, 0, 100, 100);
                let a = s.allocate_receiver_link("A").unwrap();
                let b = s.allocate_receiver_link("B").unwrap();
                let ra = s.on_incoming_attach("B", nums[1] as u32);
                let rb = s.on_incoming_attach("A", nums[0] as u32);
                s.on_outgoing_detach(a);
                let rd = s.on_incoming_detach(nums[0] as u32);
                let c = s.allocate_receiver_link("C");
                let b_again = s.allocate_receiver_link("B");
                format!("{{\"a\":{},\"b\":{},\"attach_ok\":{},\"detach_ok\":{},\"c\":{},\"b_name_reused\":{}}}", a, b, ra == Some(true) && rb == Some(true), rd == Some(true), c.map(|x| x as i64).unwrap_or(-1), b_again.is_ok())
            }
            // split <frame size> <payload len> <tag len> [more 0|1]: FrameEncoder::encode of a transfer; the frames written
            "split" => {
                use bytes::BytesMut;
                use fe2o3_amqp::frames::amqp::{Frame, FrameBody, FrameDecoder};
                use tokio_util::codec::{Decoder, Encoder};
                let (fs, plen, tlen) = (nums[0] as usize, nums[1] as usize, nums[2] as usize);
                let more = nums.get(3).copied().unwrap_or(0) == 1;
                // fifth argument: the transfer carries a delivery state (which every frame has to keep)
                let with_state = nums.get(4).copied().unwrap_or(0) == 1;
                let payload: Vec<u8> = (0..plen).map(|i| (i % 251) as u8 + 1).collect();
                let t = Transfer {
                    handle: Handle(1),
                    delivery_id: Some(7),
                    delivery_tag: Some(ByteBuf::from(vec![0x2a; tlen])),
                    message_format: Some(0),
                    settled: None,
                    more,
                    rcv_settle_mode: None,
                    state: if with_state { Some(fe2o3_amqp_types::messaging::DeliveryState::Accepted(fe2o3_amqp_types::messaging::Accepted {})) } else { None },
                    resume: false,
                    aborted: false,
                    batchable: false,
                };
                let mut dst = BytesMut::new();
                frame_encoder(fs).encode(Frame::new(3u16, FrameBody::Transfer { performative: t, payload: Bytes::from(payload.clone()) }), &mut dst).unwrap();
                let mut off = 0;
                let mut frames = Vec::new();
                let mut got = Vec::new();
                while off < dst.len() {
                    let end = (off + fs).min(dst.len());
                    let mut src = BytesMut::from(&dst[off..end]);
                    match (FrameDecoder {}).decode(&mut src) {
                        Ok(Some(Frame { body: FrameBody::Transfer { performative, payload }, .. })) => {
                            frames.push(format!("{{\"len\":{},\"more\":{},\"has_id\":{},\"has_tag\":{},\"has_fmt\":{},\"has_state\":{}}}", end - off, performative.more, performative.delivery_id.is_some(), performative.delivery_tag.is_some(), performative.message_format.is_some(), performative.state.is_some() == with_state));
                            got.extend_from_slice(&payload);
                        }
                        _ => frames.push(format!("{{\"len\":{},\"more\":false,\"has_id\":false,\"has_tag\":false,\"has_fmt\":false,\"undecodable\":true}}", end - off)),
                    }
                    off = end;
                }
                format!("{{\"frames\":[{}],\"payload_ok\":{}}}", frames.join(","), got == payload)
            }
            // iofill <performative|stronly|bytesonly> <claimed len> <bytes present>: from_reader over an input
            //   whose 32-bit size field claims <claimed> bytes with <present> bytes following; reports the
            //   largest single allocation request made while decoding
            "iofill" => {
                let claimed = (nums[1] as u32).to_be_bytes();
                let present = nums[2] as usize;
                let mut input: Vec<u8> = match toks[1] {
                    "performative" => vec![0x00, 0xb3],
                    "stronly" => vec![0xb1],
                    _ => vec![0xb0],
                };
                input.extend_from_slice(&claimed);
                input.extend((0..present).map(|i| b'a' + (i % 26) as u8));
                track::MAX.store(0, std::sync::atomic::Ordering::SeqCst);
                let ok = match toks[1] {
                    "performative" => serde_amqp::from_reader::<fe2o3_amqp_types::performatives::Performative>(&input[..]).is_ok(),
                    "stronly" => serde_amqp::from_reader::<StrOnly>(&input[..]).is_ok(),
                    _ => serde_amqp::from_reader::<BytesOnly>(&input[..]).is_ok(),
                };
                let max = track::MAX.load(std::sync::atomic::Ordering::SeqCst);
                format!("{{\"input_len\":{},\"ok\":{},\"max_alloc\":{}}}", input.len(), ok, max)
            }
            // framedec <amqp|sasl> <doff> <type> <len>: the real frame decoder on a frame of <len> bytes (size field
            //   already stripped) starting with doff, type, two channel bytes and then a described-list prefix
            // noncompact_transfer: transfer frames whose performative is encoded in spec-valid but non-compact forms
            //   (explicit trailing more=false; uint as 0x70, vbin32 tag, 0x56 booleans in a list32), followed by a
            //   known payload, through the real FrameDecoder: the payload must come back byte for byte.
            "noncompact_transfer" => {
                use bytes::BytesMut;
                use fe2o3_amqp::frames::amqp::FrameBody;
                use tokio_util::codec::Decoder;
                let payload: Vec<u8> = (0u8..23).map(|i| i.wrapping_mul(7).wrapping_add(3)).collect();
                let perfs: Vec<Vec<u8>> = vec![
                    // compact: list8 { handle=0 (0x43), id=0 (0x43), tag=a0 01 09, format=0 (0x43) }
                    vec![0x00, 0x53, 0x14, 0xc0, 0x07, 0x04, 0x43, 0x43, 0xa0, 0x01, 0x09, 0x43],
                    // + settled=false, more=false written out
                    vec![0x00, 0x53, 0x14, 0xc0, 0x09, 0x06, 0x43, 0x43, 0xa0, 0x01, 0x09, 0x43, 0x42, 0x42],
                    // list32, uint as 0x70, vbin32 tag, 0x56 booleans
                    vec![0x00, 0x53, 0x14, 0xd0, 0x00, 0x00, 0x00, 0x1d, 0x00, 0x00, 0x00, 0x06, 0x70, 0, 0, 0, 0, 0x70, 0, 0, 0, 0, 0xb0, 0, 0, 0, 1, 9, 0x70, 0, 0, 0, 0, 0x56, 0, 0x56, 0],
                    // descriptor as symbol
                    {
                        let mut v = vec![0x00, 0xa3, 18];
                        v.extend_from_slice(b"amqp:transfer:list");
                        v.extend_from_slice(&[0xc0, 0x07, 0x04, 0x43, 0x43, 0xa0, 0x01, 0x09, 0x43]);
                        v
                    },
                ];
                let mut intact = true;
                let mut which = Vec::new();
                for (k, perf) in perfs.iter().enumerate() {
                    let mut bytes: Vec<u8> = vec![2, 0, 0, 1];
                    bytes.extend_from_slice(perf);
                    bytes.extend_from_slice(&payload);
                    let mut src = BytesMut::from(&bytes[..]);
                    let mut dec = fe2o3_amqp::frames::amqp::FrameDecoder {};
                    let ok = match dec.decode(&mut src) {
                        Ok(Some(f)) => matches!(&f.body, FrameBody::Transfer { payload: p, .. } if p[..] == payload[..]),
                        _ => false,
                    };
                    if !ok {
                        intact = false;
                        which.push(k);
                    }
                }
                format!("{{\"payload_intact\":{},\"failed_encodings\":{:?}}}", intact, which)
            }
            // sasl_repeated_init <max>: for k = 1..=max a peer sends k sasl-init frames (SCRAM, known user, never a
            //   response) to the crate's listener and then the AMQP header and an open: the listener must never open a
            //   connection for it.
            #[cfg(feature = "scram")]
            "sasl_repeated_init" => {
                let max = nums.first().copied().unwrap_or(32).max(1) as usize;
                let rt = tokio::runtime::Builder::new_current_thread().enable_time().build().unwrap();
                let opened: (Vec<usize>, String) = rt.block_on(async move {
                    let credential = intruder::credential();
                    let mut opened = Vec::new();
                    let mut last = String::new();
                    for inits in 1..=max {
                        let (client_io, server_io) = tokio::io::duplex(16 * 1024);
                        let acceptor = intruder::acceptor(credential.clone());
                        let server = tokio::spawn(async move { tokio::time::timeout(std::time::Duration::from_secs(5), acceptor.accept(server_io)).await });
                        let client = tokio::spawn(intruder::intruder(client_io, inits));
                        let accepted = server.await;
                        let observed = client.await.unwrap_or_default();
                        if matches!(accepted, Ok(Ok(Ok(_)))) || observed.contains("AMQP header") {
                            opened.push(inits);
                        }
                        last = observed;
                    }
                    (opened, last)
                });
                let (opened, last) = opened;
                format!("{{\"never_opened\":{},\"opened_after_inits\":{:?},\"last_observed\":{:?}}}", opened.is_empty(), opened, last)
            }
            // lazy_reader: a LazyValue (the raw bytes of the next value, undecoded) decoded from a slice and from a stream
            //   must give the same result for the same input
            "lazy_reader" => {
                use serde_amqp::lazy::LazyValue;
                let inputs: Vec<Vec<u8>> = vec![
                    serde_amqp::to_vec(&"hello".to_string()).unwrap(),
                    serde_amqp::to_vec(&42u64).unwrap(),
                    serde_amqp::to_vec(&vec![1u32, 2, 3]).unwrap(),
                    serde_amqp::to_vec(&fe2o3_amqp_types::messaging::Accepted {}).unwrap(),
                ];
                let mut agree = true;
                let mut detail = Vec::new();
                for (k, bytes) in inputs.iter().enumerate() {
                    let a = serde_amqp::from_slice::<LazyValue>(bytes).map(|l| l.as_slice().to_vec());
                    let b = serde_amqp::from_reader::<LazyValue>(&bytes[..]).map(|l| l.as_slice().to_vec());
                    let same = match (&a, &b) {
                        (Ok(x), Ok(y)) => x == y,
                        (Err(_), Err(_)) => true,
                        _ => false,
                    };
                    if !same {
                        agree = false;
                        detail.push(format!("input{}: slice {} / stream {}", k, if a.is_ok() { "ok" } else { "err" }, if b.is_ok() { "ok" } else { "err" }));
                    }
                }
                format!("{{\"agree\":{},\"detail\":{:?}}}", agree, detail)
            }
            // typed_hostile: symbols / strings a peer may put into typed protocol items, with multi-byte characters at every
            //   byte offset: error conditions inside close / end / detach / rejected, decoded by both readers under
            //   catch_unwind. Any panic is a failure (an error is fine).
            "typed_hostile" => {
                use fe2o3_amqp_types::performatives::{Close, Detach, End};
                fn sym(s: &str) -> Vec<u8> {
                    let mut v = vec![0xa3, s.len() as u8];
                    v.extend_from_slice(s.as_bytes());
                    v
                }
                fn error_list(cond: &str) -> Vec<u8> {
                    // described list: amqp:error:list (0x1d) { condition }
                    let c = sym(cond);
                    let mut v = vec![0x00, 0x53, 0x1d, 0xc0, (c.len() + 1) as u8, 0x01];
                    v.extend_from_slice(&c);
                    v
                }
                fn perf(code: u8, fields_before: &[u8], err: &[u8]) -> Vec<u8> {
                    let n = fields_before.iter().filter(|_| true).count();
                    let _ = n;
                    let mut body = Vec::new();
                    body.extend_from_slice(fields_before);
                    body.extend_from_slice(err);
                    let count = (if fields_before.is_empty() { 0 } else { 2 }) + 1;
                    let mut v = vec![0x00, 0x53, code, 0xc0, (body.len() + 1) as u8, count as u8];
                    v.extend_from_slice(&body);
                    v
                }
                let mut panics = 0usize;
                let mut cases = 0usize;
                let prefixes = ["", "a", "am", "amq", "amqp", "amqp:", "amqp:i", "amqp:link:", "amqp:session:w", "amqp:connection:"];
                for pre in prefixes.iter() {
                    for wide in ["\u{e9}", "\u{20ac}", "\u{1f600}"] {
                        let cond = format!("{}{}:fault", pre, wide);
                        let e = error_list(&cond);
                        let inputs = vec![
                            perf(0x18, &[], &e),                 // close { error }
                            perf(0x17, &[], &e),                 // end { error }
                            perf(0x16, &[0x43, 0x41], &e),       // detach { handle 0, closed true, error }
                        ];
                        for (k, bytes) in inputs.iter().enumerate() {
                            cases += 1;
                            let b2 = bytes.clone();
                            let r = std::panic::catch_unwind(move || {
                                match k {
                                    0 => { let _ = serde_amqp::from_slice::<Close>(&b2); let _ = serde_amqp::from_reader::<Close>(&b2[..]); }
                                    1 => { let _ = serde_amqp::from_slice::<End>(&b2); let _ = serde_amqp::from_reader::<End>(&b2[..]); }
                                    _ => { let _ = serde_amqp::from_slice::<Detach>(&b2); let _ = serde_amqp::from_reader::<Detach>(&b2[..]); }
                                }
                            });
                            if r.is_err() {
                                panics += 1;
                            }
                        }
                    }
                }
                format!("{{\"cases\":{},\"panics\":{}}}", cases, panics)
            }
            // enum_after_array: an attach whose source carries `outcomes` / `capabilities` (AMQP arrays, decoded through
            //   deserialize_enum) FOLLOWED by a target (a descriptor-selected enum): encode, decode with both readers, compare
            "enum_after_array" => {
                use fe2o3_amqp_types::definitions::{Handle, ReceiverSettleMode, Role, SenderSettleMode};
                use fe2o3_amqp_types::messaging::{Source, Target, TargetArchetype};
                use fe2o3_amqp_types::performatives::Attach;
                use fe2o3_amqp_types::primitives::{Array, Symbol};
                let symbols = |items: &[&str]| -> Array<Symbol> { Array::from(items.iter().map(|s| Symbol::from(*s)).collect::<Vec<_>>()) };
                let source = Source::builder().address("q1").outcomes(symbols(&["amqp:accepted:list", "amqp:rejected:list"])).capabilities(symbols(&["queue"])).build();
                let target = Target::builder().address("q1").build();
                let attach = Attach { name: "l".to_string(), handle: Handle(0), role: Role::Sender, snd_settle_mode: SenderSettleMode::Mixed, rcv_settle_mode: ReceiverSettleMode::First, source: Some(Box::new(source)), target: Some(Box::new(TargetArchetype::Target(target))), unsettled: None, incomplete_unsettled: false, initial_delivery_count: Some(0), max_message_size: None, offered_capabilities: None, desired_capabilities: None, properties: None };
                let bytes = serde_amqp::to_vec(&attach).unwrap();
                let a = serde_amqp::from_slice::<Attach>(&bytes).map(|x| format!("{:?}", x));
                let b = serde_amqp::from_reader::<Attach>(&bytes[..]).map(|x| format!("{:?}", x));
                let want = format!("{:?}", attach);
                let ok = matches!((&a, &b), (Ok(x), Ok(y)) if *x == want && *y == want);
                format!("{{\"roundtrips\":{},\"slice_ok\":{},\"stream_ok\":{}}}", ok, a.is_ok(), b.is_ok())
            }
            // spec_defaults: bytes written by hand from the specification: a header whose priority is elided decodes to 4, a
            //   header with priority 0 is written with an explicit 0; an open without max-frame-size / channel-max decodes to
            //   4294967295 / 65535
            "spec_defaults" => {
                use fe2o3_amqp_types::messaging::{Header, Priority};
                use fe2o3_amqp_types::performatives::Open;
                // header { durable = true } : list8 size 2 count 1 { true }
                let h: Result<Header, _> = serde_amqp::from_slice(&[0x00, 0x53, 0x70, 0xc0, 0x02, 0x01, 0x41]);
                let elided_is_4 = matches!(&h, Ok(x) if x.priority == Priority(4));
                let mut hdr = Header::default();
                hdr.priority = Priority(0);
                let bytes = serde_amqp::to_vec(&hdr).unwrap_or_default();
                // the priority field (second) must be present and 0: ... 0x42|0x40 (durable false or null), 0x50 0x00
                let zero_written = bytes.windows(2).any(|w| w == [0x50, 0x00]);
                // open { container-id "c" } : list8 size 4 count 1 { str8 "c" }
                let o: Result<Open, _> = serde_amqp::from_slice(&[0x00, 0x53, 0x10, 0xc0, 0x04, 0x01, 0xa1, 0x01, b'c']);
                let open_defaults = matches!(&o, Ok(x) if x.max_frame_size.0 == u32::MAX && x.channel_max.0 == u16::MAX);
                format!("{{\"as_specified\":{},\"elided_priority_is_4\":{},\"priority_0_is_written\":{},\"open_defaults\":{}}}", elided_is_4 && zero_written && open_defaults, elided_is_4, zero_written, open_defaults)
            }
            "framedec" => {
                use bytes::BytesMut;
                use tokio_util::codec::Decoder;
                let (doff, ftype, len) = (nums[1] as u8, nums[2] as u8, nums[3] as usize);
                let filler = [0x00u8, 0x53, 0x10, 0xc0, 0x02, 0x01, 0x40, 0x00, 0x53, 0x11, 0x45];
                let mut bytes: Vec<u8> = vec![doff, ftype, 0, 1];
                bytes.extend((0..len.saturating_sub(4)).map(|i| filler[i % filler.len()]));
                bytes.truncate(len);
                let mut src = BytesMut::from(&bytes[..]);
                let ok = if toks[1] == "sasl" {
                    fe2o3_amqp::frames::sasl::FrameCodec {}.decode(&mut src).is_ok()
                } else {
                    fe2o3_amqp::frames::amqp::FrameDecoder {}.decode(&mut src).is_ok()
                };
                format!("{{\"ok\":{}}}", ok)
            }
            // msgid <code> / annkey <code>: a minimal value whose constructor is <code>, decoded as MessageId /
            //   as an annotation key; reports the index of the variant it became (-1: rejected)
            "msgid" | "annkey" => {
                let code = nums[0] as u8;
                let mut bytes = vec![code];
                match code {
                    0x53 | 0x50 | 0x51 | 0x52 | 0x54 | 0x55 | 0x56 => bytes.push(7),
                    0x60 | 0x61 => bytes.extend_from_slice(&[0, 7]),
                    0x70 | 0x71 | 0x72 | 0x73 | 0x74 => bytes.extend_from_slice(&[0, 0, 0, 7]),
                    0x80 | 0x81 | 0x82 | 0x83 | 0x84 => bytes.extend_from_slice(&[0, 0, 0, 0, 0, 0, 0, 7]),
                    0x94 | 0x98 => bytes.extend_from_slice(&[7u8; 16]),
                    0xa0 | 0xa1 | 0xa3 => bytes.extend_from_slice(&[1, b'x']),
                    0xb0 | 0xb1 | 0xb3 => bytes.extend_from_slice(&[0, 0, 0, 1, b'x']),
                    0xc0 | 0xc1 | 0xe0 => bytes.extend_from_slice(&[1, 0]),
                    0xd0 | 0xd1 | 0xf0 => bytes.extend_from_slice(&[0, 0, 0, 4, 0, 0, 0, 0]),
                    _ => {}
                }
                let variant: i64 = if toks[0] == "msgid" {
                    use fe2o3_amqp_types::messaging::MessageId;
                    match serde_amqp::from_slice::<MessageId>(&bytes) {
                        Ok(MessageId::Ulong(_)) => 0,
                        Ok(MessageId::Uuid(_)) => 1,
                        Ok(MessageId::Binary(_)) => 2,
                        Ok(MessageId::String(_)) => 3,
                        Err(_) => -1,
                    }
                } else {
                    use fe2o3_amqp_types::messaging::annotations::OwnedKey;
                    match serde_amqp::from_slice::<OwnedKey>(&bytes) {
                        Ok(OwnedKey::Symbol(_)) => 0,
                        Ok(OwnedKey::Ulong(_)) => 1,
                        Err(_) => -1,
                    }
                };
                format!("{{\"variant\":{}}}", variant)
            }
            // nnt_map <uuid|dec32|symbol|timestamp>: a one-entry map whose KEY is that restricted type, with an i64, a
            //   string and a binary as the value: to_vec -> from_slice gives the map back, and serialized_size is the
            //   encoded length. nnt_value <..>: the same maps through the value tree: to_value(m) == from_slice::<Value>(to_vec(m))
            "nnt_map" | "nnt_value" => {
                use serde_amqp::primitives::{Dec32, OrderedMap, Symbol, Timestamp, Uuid};
                use serde_amqp::Value;
                fn one<K, V>(k: K, v: V, tree: bool) -> bool
                where
                    K: serde::Serialize + serde::de::DeserializeOwned + std::hash::Hash + Eq + std::fmt::Debug + Clone,
                    V: serde::Serialize + serde::de::DeserializeOwned + PartialEq + std::fmt::Debug + Clone,
                {
                    let mut m: OrderedMap<K, V> = OrderedMap::new();
                    m.insert(k, v);
                    let bytes = match serde_amqp::to_vec(&m) {
                        Ok(b) => b,
                        Err(_) => return false,
                    };
                    if tree {
                        let via_tree = serde_amqp::to_value(&m);
                        let via_bytes = serde_amqp::from_slice::<Value>(&bytes);
                        matches!((via_tree, via_bytes), (Ok(a), Ok(b)) if a == b)
                    } else {
                        let size_ok = serde_amqp::serialized_size(&m).map(|n| n == bytes.len()).unwrap_or(false);
                        let back = serde_amqp::from_slice::<OrderedMap<K, V>>(&bytes);
                        size_ok && matches!(back, Ok(b) if b == m)
                    }
                }
                fn three<K>(k: K, tree: bool) -> bool
                where
                    K: serde::Serialize + serde::de::DeserializeOwned + std::hash::Hash + Eq + std::fmt::Debug + Clone,
                {
                    one(k.clone(), 5i64, tree) && one(k.clone(), "txt".to_string(), tree) && one(k, serde_bytes::ByteBuf::from(vec![1u8, 2, 3]), tree)
                }
                let tree = toks[0] == "nnt_value";
                let agree = match toks.get(1).copied().unwrap_or("") {
                    "uuid" => three(Uuid::from([7u8; 16]), tree),
                    "dec32" => three(Dec32::from([1u8, 2, 3, 4]), tree),
                    "symbol" => three(Symbol::from("key"), tree),
                    _ => three(Timestamp::from_milliseconds(12), tree),
                };
                format!("{{\"agree\":{}}}", agree)
            }
            // ioread_big <n>: a binary of n bytes (and a string of n bytes) followed by a trailing value, decoded from a
            //   reader and from a slice: both must give the value back
            "ioread_big" => {
                let n = nums[0] as usize;
                let data: Vec<u8> = (0..n).map(|i| (i % 251) as u8).collect();
                let bin = serde_bytes::ByteBuf::from(data.clone());
                let text: String = (0..n).map(|i| (b'a' + (i % 26) as u8) as char).collect();
                let mut a = serde_amqp::to_vec(&bin).unwrap();
                a.extend_from_slice(&[0x50, 0x07]);
                let mut b = serde_amqp::to_vec(&text).unwrap();
                b.extend_from_slice(&[0x50, 0x07]);
                let ra = serde_amqp::from_reader::<serde_bytes::ByteBuf>(&a[..]);
                let sa = serde_amqp::from_slice::<serde_bytes::ByteBuf>(&a[..a.len() - 2]);
                let rb = serde_amqp::from_reader::<String>(&b[..]);
                let agree = matches!((&ra, &sa), (Ok(x), Ok(y)) if x == y && x.as_ref() == &data[..]) && matches!(&rb, Ok(t) if *t == text);
                format!("{{\"agree\":{}}}", agree)
            }
            // hdrsize <map|list> <L>: a map / list whose entries take exactly L bytes (where that is possible):
            //   serialized_size == to_vec(..).len(), and the bytes decode back
            "hdrsize" => {
                use serde_amqp::primitives::OrderedMap;
                let l = nums[1] as usize;
                let agree = if toks.get(1).copied() == Some("list") {
                    if l == 0 {
                        let x: Vec<u8> = vec![];
                        serde_amqp::serialized_size(&x).ok() == serde_amqp::to_vec(&x).ok().map(|v| v.len())
                    } else if l < 2 {
                        true
                    } else {
                        // one binary element: vbin8 (2 + n) up to n = 255, vbin32 (5 + n) beyond
                        let n = if l - 2 <= 255 { Some(l - 2) } else if l >= 5 + 256 { Some(l - 5) } else { None };
                        match n {
                            None => true,
                            Some(n) => {
                                let x = (serde_bytes::ByteBuf::from(vec![7u8; n]),);
                                let bytes = serde_amqp::to_vec(&x).unwrap();
                                let back = serde_amqp::from_slice::<(serde_bytes::ByteBuf,)>(&bytes);
                                serde_amqp::serialized_size(&x).unwrap() == bytes.len() && matches!(back, Ok(y) if y.0.len() == n)
                            }
                        }
                    }
                } else if l == 0 {
                    let x: OrderedMap<u8, u8> = OrderedMap::new();
                    serde_amqp::serialized_size(&x).ok() == serde_amqp::to_vec(&x).ok().map(|v| v.len())
                } else if l < 4 {
                    true
                } else {
                    // ubyte key (2) + one binary value
                    let n = if l - 4 <= 255 { Some(l - 4) } else if l >= 7 + 256 { Some(l - 7) } else { None };
                    match n {
                        None => true,
                        Some(n) => {
                            let mut x: OrderedMap<u8, serde_bytes::ByteBuf> = OrderedMap::new();
                            x.insert(7u8, serde_bytes::ByteBuf::from(vec![9u8; n]));
                            let bytes = serde_amqp::to_vec(&x).unwrap();
                            let back = serde_amqp::from_slice::<OrderedMap<u8, serde_bytes::ByteBuf>>(&bytes);
                            serde_amqp::serialized_size(&x).unwrap() == bytes.len() && matches!(back, Ok(y) if y == x)
                        }
                    }
                };
                format!("{{\"agree\":{}}}", agree)
            }
            // xfer <scenario> <split>: transfer frames through a real ReceiverInner::on_incoming_transfer.
            //   The message is an amqp-value section holding a 12-byte binary, cut after <split> payload bytes.
            //   scenario 0: two frames (more, then final; the second omits id and tag)            -> one delivery
            //   scenario 1: first frame (more), abort frame REPEATING the tag, then a whole next delivery
            //   scenario 2: first frame (more), abort frame OMITTING the tag,  then a whole next delivery
            //   scenario 3: three frames, continuation frames repeat id and tag
            "xfer" => {
                let split = (nums[1] as usize).min(16);
                let data: Vec<u8> = (1..=12u8).collect();
                let mut msg = vec![0x00u8, 0x53, 0x77, 0xa0, 12];
                msg.extend_from_slice(&data);
                let fr = |id: Option<u32>, tag: Option<u8>, more: bool, aborted: bool, payload: &[u8]| VTransferFrame { delivery_id: id, delivery_tag: tag.map(|t| vec![t]), more, aborted, settled: None, payload: payload.to_vec() };
                let (a, b) = msg.split_at(split.min(msg.len()));
                let frames: Vec<VTransferFrame> = match nums[0] {
                    0 => vec![fr(Some(0), Some(1), true, false, a), fr(None, None, false, false, b)],
                    1 => vec![fr(Some(0), Some(1), true, false, a), fr(Some(0), Some(1), false, true, &[]), fr(Some(1), Some(2), false, false, &msg)],
                    2 => vec![fr(Some(0), Some(1), true, false, a), fr(None, None, false, true, &[]), fr(Some(1), Some(2), false, false, &msg)],
                    _ => {
                        let (b1, b2) = b.split_at(b.len() / 2);
                        vec![fr(Some(0), Some(1), true, false, a), fr(Some(0), Some(1), true, false, b1), fr(Some(0), Some(1), false, false, b2)]
                    }
                };
                let outs = receiver_transfer_sequence(&frames);
                let last = outs.last().unwrap();
                let items: Vec<String> = outs.iter().map(|o| format!("{{\"kind\":{},\"buffered\":{}}}", o.kind, o.buffered)).collect();
                let deliveries = outs.iter().filter(|o| o.kind == 1).count();
                let want_id = if nums[0] == 1 || nums[0] == 2 { 1 } else { 0 };
                format!("{{\"outs\":[{}],\"deliveries\":{},\"last_is_delivery\":{},\"last_body_ok\":{},\"last_id_ok\":{},\"buffered_at_end\":{}}}", items.join(","), deliveries, last.kind == 1, last.body == data, last.delivery_id == want_id, last.buffered)
            }
            // iochunk <k>: values that go through the io reader's peek buffer, decoded from a reader that
            //   delivers at most <k> bytes per read() call, compared with the slice reader
            "iochunk" => {
                struct Chunked<'a>(&'a [u8], usize);
                impl std::io::Read for Chunked<'_> {
                    fn read(&mut self, buf: &mut [u8]) -> std::io::Result<usize> {
                        let n = buf.len().min(self.1).min(self.0.len());
                        buf[..n].copy_from_slice(&self.0[..n]);
                        self.0 = &self.0[n..];
                        Ok(n)
                    }
                }
                use fe2o3_amqp_types::messaging::DeliveryState;
                use serde_amqp::primitives::{Dec32, Dec64, Symbol, Uuid};
                let k = (nums[0] as usize).max(1);
                let mut agree = true;
                fn both<T: serde::de::DeserializeOwned + std::fmt::Debug>(bytes: &[u8], k: usize) -> bool {
                    let a = serde_amqp::from_slice::<T>(bytes).map(|v| format!("{:?}", v)).map_err(|_| ());
                    let b = serde_amqp::from_reader::<T>(Chunked(bytes, k)).map(|v| format!("{:?}", v)).map_err(|_| ());
                    a.is_ok() && a == b
                }
                let uuid = serde_amqp::to_vec(&Uuid::from([1u8, 2, 3, 4, 5, 6, 7, 8, 9, 10, 11, 12, 13, 14, 15, 16])).unwrap();
                agree &= both::<Uuid>(&uuid, k);
                agree &= both::<Dec32>(&serde_amqp::to_vec(&Dec32::from([9u8, 8, 7, 6])).unwrap(), k);
                agree &= both::<Dec64>(&serde_amqp::to_vec(&Dec64::from([9u8, 8, 7, 6, 5, 4, 3, 2])).unwrap(), k);
                agree &= both::<Symbol>(&serde_amqp::to_vec(&Symbol::from("amqp:accepted:list")).unwrap(), k);
                let mut described = vec![0x00u8, 0xa3, 18];
                described.extend_from_slice(b"amqp:accepted:list");
                described.push(0x45);
                agree &= both::<DeliveryState>(&described, k);
                let mut described32 = vec![0x00u8, 0xb3, 0, 0, 0, 18];
                described32.extend_from_slice(b"amqp:released:list");
                described32.push(0x45);
                agree &= both::<DeliveryState>(&described32, k);
                let mut s8 = vec![0xa1u8, 11];
                s8.extend_from_slice(b"hello world");
                let sa = serde_amqp::from_slice::<String>(&s8).is_ok();
                let sb = serde_amqp::from_reader::<StrOnly>(Chunked(&s8, k)).is_ok();
                agree &= sa && sb;
                format!("{{\"agree\":{}}}", agree)
            }
            // wakeup <pos> <credit>: one waiter with no credit, one grant of <credit> placed
            //   pos 0: before the first poll, 1: at the cfg schedule point (between the failed credit
            //   check and the creation of the wait future), 2: after the first poll returned Pending;
            // then the waiter is polled again. Real Consumer/Producer/tokio::Notify.
            "wakeup" => {
                use std::sync::atomic::{AtomicBool, AtomicU32, Ordering};
                static IN_WINDOW: AtomicBool = AtomicBool::new(false);
                static CREDIT: AtomicU32 = AtomicU32::new(0);
                static mut PRODUCER: Option<VCreditProducer> = None;
                fn grant() {
                    #[allow(static_mut_refs)]
                    unsafe {
                        if let Some(p) = PRODUCER.as_mut() {
                            let flow = VLinkFlow { handle: 0, delivery_count: None, link_credit: Some(CREDIT.load(Ordering::SeqCst)), available: None, drain: false, echo: false };
                            let mut cx = std::task::Context::from_waker(std::task::Waker::noop());
                            let mut f = Box::pin(p.produce(flow, 0));
                            let _ = f.as_mut().poll(&mut cx);
                        }
                    }
                }
                fn hook() {
                    if IN_WINDOW.swap(false, Ordering::SeqCst) {
                        grant();
                    }
                }
                let pos = nums[0];
                CREDIT.store(nums[1] as u32, Ordering::SeqCst);
                if pos == 3 {
                    // the woken waiter is polled IMMEDIATELY (as another worker thread would do): the waker
                    // itself polls the waiting future, i.e. right inside notify_waiters(). After the grant has
                    // completed and every wake-up has been served, the waiter must have its credit.
                    use std::task::{RawWaker, RawWakerVTable, Waker};
                    type Fut = std::pin::Pin<Box<dyn Future<Output = [u8; 4]>>>;
                    static mut FUT: Option<Fut> = None;
                    static DONE: AtomicBool = AtomicBool::new(false);
                    static WAKES: AtomicU32 = AtomicU32::new(0);
                    fn poll_waiter() {
                        #[allow(static_mut_refs)]
                        unsafe {
                            if DONE.load(Ordering::SeqCst) {
                                return;
                            }
                            if let Some(f) = FUT.as_mut() {
                                let w = mk_waker();
                                let mut cx = std::task::Context::from_waker(&w);
                                if f.as_mut().poll(&mut cx).is_ready() {
                                    DONE.store(true, Ordering::SeqCst);
                                }
                            }
                        }
                    }
                    fn v_clone(_: *const ()) -> RawWaker {
                        RawWaker::new(std::ptr::null(), &VT)
                    }
                    fn v_wake(_: *const ()) {
                        WAKES.fetch_add(1, Ordering::SeqCst);
                        poll_waiter();
                    }
                    fn v_drop(_: *const ()) {}
                    static VT: RawWakerVTable = RawWakerVTable::new(v_clone, v_wake, v_wake, v_drop);
                    fn mk_waker() -> Waker {
                        unsafe { Waker::from_raw(RawWaker::new(std::ptr::null(), &VT)) }
                    }
                    let st: &'static VSenderFlow = Box::leak(Box::new(VSenderFlow::new(VFlowInner { initial_delivery_count: 7, delivery_count: 7, link_credit: 0, available: 0, drain: false })));
                    let (consumer, producer) = st.split(std::sync::Arc::new(tokio::sync::Notify::new()));
                    let consumer: &'static VCreditConsumer = Box::leak(Box::new(consumer));
                    unsafe {
                        PRODUCER = Some(producer);
                        FUT = Some(Box::pin(consumer.consume(1)));
                    }
                    DONE.store(false, Ordering::SeqCst);
                    WAKES.store(0, Ordering::SeqCst);
                    set_schedule_hook(None);
                    poll_waiter(); // parks: no credit yet
                    let first = DONE.load(Ordering::SeqCst);
                    grant(); // produce(): the waker polls the waiter from inside notify_waiters()
                    let second = DONE.load(Ordering::SeqCst);
                    let c = st.snapshot().link_credit;
                    unsafe {
                        std::mem::forget(FUT.take());
                    }
                    return format!("{{\"first_ready\":{},\"second_ready\":{},\"credit_left\":{},\"wakes\":{}}}", first, second, c, WAKES.load(Ordering::SeqCst));
                }
                let st = VSenderFlow::new(VFlowInner { initial_delivery_count: 7, delivery_count: 7, link_credit: 0, available: 0, drain: false });
                let (consumer, producer) = st.split(std::sync::Arc::new(tokio::sync::Notify::new()));
                unsafe {
                    PRODUCER = Some(producer);
                }
                IN_WINDOW.store(pos == 1, Ordering::SeqCst);
                set_schedule_hook(Some(hook));
                if pos == 0 {
                    grant();
                }
                let mut fut = Box::pin(consumer.consume(1));
                let mut cx = std::task::Context::from_waker(std::task::Waker::noop());
                let first = fut.as_mut().poll(&mut cx).is_ready();
                // a waiter that is still pending must not be holding credit: dropping it there would lose the credit
                let granted_by_now = if pos == 0 || (pos == 1 && !IN_WINDOW.load(Ordering::SeqCst)) { CREDIT.load(Ordering::SeqCst) } else { 0 };
                let mut held_while_pending = !first && st.snapshot().link_credit < granted_by_now;
                let mut second = first;
                if !first {
                    if pos == 2 {
                        grant();
                    }
                    second = fut.as_mut().poll(&mut cx).is_ready();
                    if !second && pos == 2 && st.snapshot().link_credit < CREDIT.load(Ordering::SeqCst) {
                        held_while_pending = true;
                    }
                }
                set_schedule_hook(None);
                let c = st.snapshot().link_credit;
                format!("{{\"first_ready\":{},\"second_ready\":{},\"credit_left\":{},\"held_while_pending\":{}}}", first, second, c, held_while_pending)
            }
            // scn <name> <args..>: named scenarios of a real client against the scripted peer (mod sp)
            "scn" => {
                use fe2o3_amqp::frames::amqp::{Frame, FrameBody};
                use fe2o3_amqp_types::definitions::{self as defs};
                use fe2o3_amqp_types::performatives::Detach;
                use std::time::Duration;
                let name = toks.get(1).copied().unwrap_or("").to_string();
                let arg: Vec<u64> = toks.iter().skip(2).map(|t| t.parse::<u64>().unwrap_or(0)).collect();
                let rt = tokio::runtime::Builder::new_current_thread().enable_time().build().unwrap();
                rt.block_on(async move {
                    let (client_io, peer_io) = tokio::io::duplex(64 * 1024);
                    match name.as_str() {
                        // detach_kind <with_error>: the client detaches (closed=false); the peer answers with a CLOSING
                        //   detach (carrying an error or not). The client must re-attach and send a closing detach.
                        "detach_kind" => {
                            let with_error = arg.first().copied().unwrap_or(0) == 1;
                            let mut first = true;
                            let peer = tokio::spawn(sp::run(peer_io, sp::PeerCfg::default(), move |f: &Frame, _log: &[String]| {
                                let mut act = sp::Act::default();
                                if let FrameBody::Detach(d) = &f.body {
                                    if !d.closed && first {
                                        first = false;
                                        let error = if with_error { Some(defs::Error::new(defs::LinkError::DetachForced, Some("node deleted".to_string()), None)) } else { None };
                                        act.replies.push(Frame::new(f.channel, FrameBody::Detach(Detach { handle: d.handle.clone(), closed: true, error })));
                                        act.handled = true;
                                    }
                                }
                                act
                            }));
                            let client = tokio::time::timeout(Duration::from_secs(6), async {
                                let mut conn = fe2o3_amqp::Connection::builder().container_id("client").open_with_stream(client_io).await.map_err(|_| "open_failed")?;
                                let mut session = fe2o3_amqp::Session::begin(&mut conn).await.map_err(|_| "begin_failed")?;
                                let sender = fe2o3_amqp::Sender::attach(&mut session, "link-1", "q1").await.map_err(|_| "attach_failed")?;
                                let r = tokio::time::timeout(Duration::from_secs(3), sender.detach()).await;
                                let res = match &r {
                                    Err(_) => "detach_hang",
                                    Ok(Ok(_)) => "detach_ok",
                                    Ok(Err(_)) => "detach_err",
                                };
                                // keep the handle alive so that nothing below comes from a Drop impl
                                tokio::time::sleep(Duration::from_millis(300)).await;
                                drop(r);
                                let _ = tokio::time::timeout(Duration::from_secs(1), session.end()).await;
                                let _ = tokio::time::timeout(Duration::from_secs(1), conn.close()).await;
                                Ok::<_, &'static str>(res)
                            })
                            .await
                            .unwrap_or(Err("hang"));
                            let log = tokio::time::timeout(Duration::from_secs(2), peer).await.ok().and_then(|r| r.ok()).unwrap_or_default();
                            // after the client's first detach: an attach and then a closing detach, before the end
                            let i_det = log.iter().position(|l| l.starts_with("detach:") && l.contains(":false:"));
                            let i_end = log.iter().position(|l| l.starts_with("end@")).unwrap_or(log.len());
                            let answered = match i_det {
                                Some(i) => {
                                    let tail = &log[i + 1..i_end.max(i + 1)];
                                    let i_att = tail.iter().position(|l| l.starts_with("attach:"));
                                    matches!(i_att, Some(j) if tail[j..].iter().any(|l| l.starts_with("detach:") && l.contains(":true:")))
                                }
                                None => false,
                            };
                            format!("{{\"client\":\"{}\",\"answered_in_kind\":{},\"log\":{}}}", client.unwrap_or_else(|e| e), answered, sp::json_list(&log))
                        }
                        // pipelined_open: the peer writes its protocol header AND its open in ONE write before it reads
                        //   anything (legal pipelining); pipelined_sasl: the peer writes the SASL header + mechanisms in one
                        //   write, and after the client's init it writes outcome + AMQP header + open in one write. The
                        //   client must open the connection (the frames behind the header must not be lost).
                        "pipelined_open" | "pipelined_sasl" => {
                            use bytes::{BufMut, BytesMut};
                            use fe2o3_amqp::frames::sasl::{Frame as SFrame, FrameCodec};
                            use fe2o3_amqp_types::performatives::{ChannelMax, MaxFrameSize, Open};
                            use fe2o3_amqp_types::primitives::{Array, Symbol};
                            use fe2o3_amqp_types::sasl::{SaslCode, SaslMechanisms, SaslOutcome};
                            use tokio::io::{AsyncReadExt, AsyncWriteExt};
                            use tokio_util::codec::Encoder;
                            let sasl = name == "pipelined_sasl";
                            fn wire(frame: Frame) -> Vec<u8> {
                                let mut enc = frame_encoder(512);
                                let mut body = BytesMut::new();
                                enc.encode(frame, &mut body).unwrap();
                                let mut v = Vec::new();
                                v.put_u32(body.len() as u32 + 4);
                                v.extend_from_slice(&body);
                                v
                            }
                            fn swire(f: SFrame) -> Vec<u8> {
                                let mut body = BytesMut::new();
                                FrameCodec {}.encode(f, &mut body).unwrap();
                                let mut v = Vec::new();
                                v.put_u32(body.len() as u32 + 4);
                                v.extend_from_slice(&body);
                                v
                            }
                            let mut peer_io = peer_io;
                            let peer = tokio::spawn(async move {
                                let open = Open { container_id: "peer".to_string(), hostname: None, max_frame_size: MaxFrameSize(512), channel_max: ChannelMax(10), idle_time_out: None, outgoing_locales: None, incoming_locales: None, offered_capabilities: None, desired_capabilities: None, properties: None };
                                let mut amqp_part = b"AMQP\x00\x01\x00\x00".to_vec();
                                amqp_part.extend_from_slice(&wire(Frame::new(0u16, FrameBody::Open(open))));
                                if sasl {
                                    let mut first = b"AMQP\x03\x01\x00\x00".to_vec();
                                    first.extend_from_slice(&swire(SFrame::Mechanisms(SaslMechanisms { sasl_server_mechanisms: Array::from(vec![Symbol::from("PLAIN")]) })));
                                    let _ = peer_io.write_all(&first).await;
                                    let mut hdr = [0u8; 8];
                                    let _ = peer_io.read_exact(&mut hdr).await;
                                    if let Ok(n) = peer_io.read_u32().await {
                                        let mut body = vec![0u8; (n as usize).saturating_sub(4)];
                                        let _ = peer_io.read_exact(&mut body).await;
                                    }
                                    let mut second = swire(SFrame::Outcome(SaslOutcome { code: SaslCode::Ok, additional_data: None }));
                                    second.extend_from_slice(&amqp_part);
                                    let _ = peer_io.write_all(&second).await;
                                } else {
                                    let _ = peer_io.write_all(&amqp_part).await;
                                }
                                // swallow whatever the client sends until it goes away
                                let mut sink = [0u8; 256];
                                loop {
                                    match tokio::time::timeout(Duration::from_millis(1500), peer_io.read(&mut sink)).await {
                                        Ok(Ok(n)) if n > 0 => continue,
                                        _ => break,
                                    }
                                }
                            });
                            let client = tokio::time::timeout(Duration::from_millis(2500), async {
                                let b = fe2o3_amqp::Connection::builder().container_id("client");
                                let b = if sasl { b.sasl_profile(fe2o3_amqp::sasl_profile::SaslProfile::Plain { username: "user".to_string(), password: "pw".to_string() }) } else { b };
                                match b.open_with_stream(client_io).await {
                                    Ok(conn) => {
                                        drop(conn);
                                        "opened"
                                    }
                                    Err(_) => "open_failed",
                                }
                            })
                            .await
                            .unwrap_or("hang");
                            peer.abort();
                            format!("{{\"client\":\"{}\"}}", client)
                        }
                        // shifted_channels <k>: the peer numbers its channels independently of ours (its channel = ours + k).
                        //   begin / attach / detach / end / close must all work.
                        "shifted_channels" => {
                            let shift = arg.first().copied().unwrap_or(7) as u16;
                            let cfg = sp::PeerCfg { channel_shift: shift, ..Default::default() };
                            let peer = tokio::spawn(sp::run(peer_io, cfg, |_f: &Frame, _log: &[String]| sp::Act::default()));
                            let client = tokio::time::timeout(Duration::from_secs(6), async {
                                let mut conn = fe2o3_amqp::Connection::builder().container_id("client").open_with_stream(client_io).await.map_err(|_| "open_failed")?;
                                let mut s1 = fe2o3_amqp::Session::begin(&mut conn).await.map_err(|_| "begin1_failed")?;
                                let mut s2 = fe2o3_amqp::Session::begin(&mut conn).await.map_err(|_| "begin2_failed")?;
                                let a = fe2o3_amqp::Sender::attach(&mut s1, "link-a", "q1").await.map_err(|_| "attach1_failed")?;
                                let b = fe2o3_amqp::Sender::attach(&mut s2, "link-b", "q2").await.map_err(|_| "attach2_failed")?;
                                a.close().await.map_err(|_| "close_link1_failed")?;
                                b.close().await.map_err(|_| "close_link2_failed")?;
                                s1.end().await.map_err(|_| "end1_failed")?;
                                s2.end().await.map_err(|_| "end2_failed")?;
                                conn.close().await.map_err(|_| "close_failed")?;
                                Ok::<_, &'static str>("ok")
                            })
                            .await
                            .unwrap_or(Err("hang"));
                            let log = tokio::time::timeout(Duration::from_secs(2), peer).await.ok().and_then(|r| r.ok()).unwrap_or_default();
                            format!("{{\"client\":\"{}\",\"log\":{}}}", client.unwrap_or_else(|e| e), sp::json_list(&log))
                        }
                        // silent_after_error_close: the client (idle_time_out 300 ms) is sent a flow on a channel it never
                        //   began, closes with an error, and the peer then neither answers nor hangs up. The client's engine
                        //   must stop (its own idle time-out ends the wait) and report; it must not spin. The client runs on
                        //   its own thread so that a spinning engine cannot starve the watchdog.
                        "silent_after_error_close" => {
                            use fe2o3_amqp_types::performatives::Flow;
                            let cfg = sp::PeerCfg::default();
                            let peer = tokio::spawn(sp::run(peer_io, sp::PeerCfg::default(), move |f: &Frame, _log: &[String]| {
                                let mut act = sp::Act::default();
                                match &f.body {
                                    FrameBody::Open(_) => {
                                        act.replies = sp::default_answers(f, &cfg).0;
                                        act.replies.push(Frame::new(5u16, FrameBody::Flow(Flow { next_incoming_id: Some(0), incoming_window: 10, next_outgoing_id: 0, outgoing_window: 10, handle: None, delivery_count: None, link_credit: None, available: None, drain: false, echo: false, properties: None })));
                                        act.handled = true;
                                    }
                                    // stay silent, keep the stream open
                                    FrameBody::Close(_) => act.handled = true,
                                    _ => {}
                                }
                                act
                            }));
                            let (tx, rx) = std::sync::mpsc::channel::<&'static str>();
                            std::thread::spawn(move || {
                                let rt = tokio::runtime::Builder::new_current_thread().enable_time().build().unwrap();
                                let r = rt.block_on(async move {
                                    let mut conn = match fe2o3_amqp::Connection::builder().container_id("client").idle_time_out(300u32).open_with_stream(client_io).await {
                                        Ok(c) => c,
                                        Err(_) => return "open_failed",
                                    };
                                    match conn.on_close().await {
                                        Ok(()) => "stopped_ok",
                                        Err(_) => "stopped_err",
                                    }
                                });
                                let _ = tx.send(r);
                            });
                            let mut waited = 0;
                            let client = loop {
                                if let Ok(r) = rx.try_recv() {
                                    break r;
                                }
                                if waited >= 4000 {
                                    break "still_running";
                                }
                                tokio::time::sleep(Duration::from_millis(50)).await;
                                waited += 50;
                            };
                            peer.abort();
                            let out = format!("{{\"client\":\"{}\",\"waited_ms\":{}}}", client, waited);
                            if client == "still_running" {
                                // the stuck thread cannot be joined: report and leave
                                println!("{}", out);
                                std::process::exit(0);
                            }
                            out
                        }
                        // drain_reply <echo>: the peer grants a client-side sender 5 credits with drain=true (echo as given);
                        //   the sender has nothing to send: it must answer with a flow showing link-credit 0
                        "drain_reply" => {
                            use fe2o3_amqp_types::performatives::Flow;
                            let echo = arg.first().copied().unwrap_or(0) == 1;
                            let cfg = sp::PeerCfg { credit: None, ..Default::default() };
                            let peer = tokio::spawn(sp::run(peer_io, sp::PeerCfg { credit: None, ..Default::default() }, move |f: &Frame, _log: &[String]| {
                                let mut act = sp::Act::default();
                                if let FrameBody::Attach(a) = &f.body {
                                    act.replies = sp::default_answers(f, &cfg).0;
                                    act.replies.push(Frame::new(f.channel, FrameBody::Flow(Flow { next_incoming_id: Some(0), incoming_window: 2048, next_outgoing_id: 0, outgoing_window: 2048, handle: Some(a.handle.clone()), delivery_count: Some(0), link_credit: Some(5), available: None, drain: true, echo, properties: None })));
                                    act.handled = true;
                                }
                                act
                            }));
                            let client = tokio::time::timeout(Duration::from_secs(6), async {
                                let mut conn = fe2o3_amqp::Connection::builder().container_id("client").open_with_stream(client_io).await.map_err(|_| "open_failed")?;
                                let mut session = fe2o3_amqp::Session::begin(&mut conn).await.map_err(|_| "begin_failed")?;
                                let sender = fe2o3_amqp::Sender::attach(&mut session, "link-1", "q1").await.map_err(|_| "attach_failed")?;
                                tokio::time::sleep(Duration::from_millis(400)).await;
                                let _ = tokio::time::timeout(Duration::from_secs(1), sender.close()).await;
                                let _ = tokio::time::timeout(Duration::from_secs(1), session.end()).await;
                                let _ = tokio::time::timeout(Duration::from_secs(1), conn.close()).await;
                                Ok::<_, &'static str>("ok")
                            })
                            .await
                            .unwrap_or(Err("hang"));
                            let log = tokio::time::timeout(Duration::from_secs(2), peer).await.ok().and_then(|r| r.ok()).unwrap_or_default();
                            let answered = log.iter().any(|l| l.starts_with("flow:hSome(") && l.contains(":creditSome(0):"));
                            format!("{{\"client\":\"{}\",\"answered_with_zero_credit\":{},\"log\":{}}}", client.unwrap_or_else(|e| e), answered, sp::json_list(&log))
                        }
                        // undecodable_delivery: a client-side receiver in manual credit mode issues 2 credits; the peer sends
                        //   delivery 0 (a string body; the client asks for u32: decode error), delivery 1 (u32) and delivery 2
                        //   (beyond the credit). Then: the next flow must report delivery-count 2 ... unless the overrun was
                        //   (correctly) refused first; reports whether the third delivery was handed to the application.
                        "undecodable_delivery" => {
                            use fe2o3_amqp_types::definitions::Handle;
                            use fe2o3_amqp_types::performatives::Transfer;
                            use fe2o3_amqp_types::primitives::Binary;
                            let mode = arg.first().copied().unwrap_or(0);
                            fn xfer(ch: u16, handle: Handle, id: u32, body: &'static [u8]) -> Frame {
                                let performative = Transfer { handle, delivery_id: Some(id), delivery_tag: Some(Binary::from(id.to_be_bytes().to_vec())), message_format: Some(0), settled: Some(true), more: false, rcv_settle_mode: None, state: None, resume: false, aborted: false, batchable: false };
                                Frame::new(ch, FrameBody::Transfer { performative, payload: Bytes::from_static(body) })
                            }
                            const GOOD: &[u8] = &[0x00, 0x53, 0x77, 0x52, 0x07];
                            const BAD: &[u8] = &[0x00, 0x53, 0x77, 0xa1, 0x03, b'b', b'a', b'd'];
                            let mut sent = false;
                            let peer = tokio::spawn(sp::run(peer_io, sp::PeerCfg::default(), move |f: &Frame, _log: &[String]| {
                                let mut act = sp::Act::default();
                                if let FrameBody::Flow(fl) = &f.body {
                                    if let (Some(h), Some(2), false) = (fl.handle.clone(), fl.link_credit, sent) {
                                        sent = true;
                                        act.replies.push(xfer(f.channel, h.clone(), 0, BAD));
                                        act.replies.push(xfer(f.channel, h.clone(), 1, GOOD));
                                        if mode == 1 {
                                            act.replies.push(xfer(f.channel, h, 2, GOOD));
                                        }
                                    }
                                }
                                act
                            }));
                            let client = tokio::time::timeout(Duration::from_secs(8), async {
                                let mut conn = fe2o3_amqp::Connection::builder().container_id("client").open_with_stream(client_io).await.map_err(|_| "open_failed".to_string())?;
                                let mut session = fe2o3_amqp::Session::begin(&mut conn).await.map_err(|_| "begin_failed".to_string())?;
                                let mut receiver = fe2o3_amqp::Receiver::builder().name("r-1").source("q1").credit_mode(fe2o3_amqp::link::receiver::CreditMode::Manual).attach(&mut session).await.map_err(|_| "attach_failed".to_string())?;
                                receiver.set_credit(2).await.map_err(|_| "set_credit_failed".to_string())?;
                                let first = tokio::time::timeout(Duration::from_secs(2), receiver.recv::<u32>()).await;
                                let second = tokio::time::timeout(Duration::from_secs(2), receiver.recv::<u32>()).await;
                                let mut third_accepted = false;
                                if mode == 1 {
                                    let third = tokio::time::timeout(Duration::from_millis(800), receiver.recv::<u32>()).await;
                                    third_accepted = matches!(third, Ok(Ok(_)));
                                } else {
                                    let _ = receiver.set_credit(5).await;
                                    tokio::time::sleep(Duration::from_millis(200)).await;
                                }
                                let summary = format!("{}/{}", match &first { Ok(Ok(_)) => "ok", Ok(Err(_)) => "err", Err(_) => "timeout" }, match &second { Ok(Ok(_)) => "ok", Ok(Err(_)) => "err", Err(_) => "timeout" });
                                let _ = tokio::time::timeout(Duration::from_secs(1), receiver.close()).await;
                                let _ = tokio::time::timeout(Duration::from_secs(1), session.end()).await;
                                let _ = tokio::time::timeout(Duration::from_secs(1), conn.close()).await;
                                Ok::<_, String>((summary, third_accepted))
                            })
                            .await
                            .unwrap_or(Err("hang".to_string()));
                            let log = tokio::time::timeout(Duration::from_secs(2), peer).await.ok().and_then(|r| r.ok()).unwrap_or_default();
                            // the delivery-count of the flow that grants 5 credits
                            let dc = log.iter().find(|l| l.starts_with("flow:hSome(") && l.contains(":creditSome(5):")).and_then(|l| l.split(":dcSome(").nth(1)).and_then(|t| t.split(')').next()).and_then(|t| t.parse::<i64>().ok());
                            let (summary, third) = client.clone().unwrap_or_else(|e| (e, false));
                            let dc_out = if mode == 1 { 2 } else { dc.unwrap_or(-1) };
                            format!("{{\"client\":\"{}\",\"flow_delivery_count\":{},\"third_accepted\":{},\"log\":{}}}", summary, dc_out, third, sp::json_list(&log))
                        }
                        // stop_reason <close_err|close|end_err|end>: with a session and a sender attached, the peer closes the
                        //   connection (with / without an error) or ends the session (with / without an error). A pre-settled
                        //   send on the link must then fail with SessionStopped(<why>), carrying the peer's error condition when
                        //   the peer supplied one, and the connection / session handle must report the same cause.
                        "stop_reason" => {
                            use fe2o3_amqp::connection::ConnectionStopReason as CSR;
                            use fe2o3_amqp::link::{LinkStateError, SendError, SessionStopReason as SSR};
                            use fe2o3_amqp_types::performatives::{Close, End};
                            let kind = toks.get(2).copied().unwrap_or("close_err").to_string();
                            let kind2 = kind.clone();
                            let cfg = sp::PeerCfg::default();
                            let peer = tokio::spawn(sp::run(peer_io, sp::PeerCfg::default(), move |f: &Frame, _log: &[String]| {
                                let mut act = sp::Act::default();
                                if let FrameBody::Attach(_) = &f.body {
                                    act.replies = sp::default_answers(f, &cfg).0;
                                    let error = if kind2.contains("_err") { Some(defs::Error::new(defs::AmqpError::InternalError, Some("peer says no".to_string()), None)) } else { None };
                                    if kind2.starts_with("close") {
                                        act.replies.push(Frame::new(0u16, FrameBody::Close(Close { error })));
                                    } else {
                                        act.replies.push(Frame::new(f.channel, FrameBody::End(End { error })));
                                        if kind2 == "end_err_close" {
                                            // the peer's close follows its end back-to-back: the connection engine may stop (and
                                            // publish its reason) before the session engine has looked at the end
                                            act.replies.push(Frame::new(0u16, FrameBody::Close(Close { error: None })));
                                        }
                                    }
                                    act.handled = true;
                                }
                                // our own close/end answers are swallowed: the peer already said its piece
                                if matches!(&f.body, FrameBody::Close(_)) {
                                    act.stop = true;
                                }
                                if matches!(&f.body, FrameBody::End(_)) && kind2.starts_with("end") {
                                    act.handled = true;
                                }
                                act
                            }));
                            let client = tokio::time::timeout(Duration::from_secs(8), async {
                                let mut conn = fe2o3_amqp::Connection::builder().container_id("client").open_with_stream(client_io).await.map_err(|_| "open_failed".to_string())?;
                                let mut session = fe2o3_amqp::Session::begin(&mut conn).await.map_err(|_| "begin_failed".to_string())?;
                                let mut sender = match fe2o3_amqp::Sender::attach(&mut session, "link-1", "q1").await {
                                    Ok(s) => s,
                                    Err(e) => return Err(format!("attach_failed:{:?}", e).chars().take(80).collect()),
                                };
                                let deadline = std::time::Instant::now() + Duration::from_secs(3);
                                let link = loop {
                                    let r = sender.send(fe2o3_amqp::Sendable::builder().message("hello").settled(true).build()).await;
                                    match r {
                                        Ok(_) if std::time::Instant::now() < deadline => tokio::time::sleep(Duration::from_millis(10)).await,
                                        Ok(_) => break "send_keeps_succeeding".to_string(),
                                        Err(SendError::LinkStateError(LinkStateError::SessionStopped(reason))) => {
                                            break match reason {
                                                SSR::ConnectionStopped(CSR::RemoteClosedWithError(e)) => format!("conn_remote_closed_with_error:{}", matches!(e.condition, defs::ErrorCondition::AmqpError(defs::AmqpError::InternalError))),
                                                SSR::ConnectionStopped(CSR::RemoteClosed) => "conn_remote_closed".to_string(),
                                                SSR::ConnectionStopped(_) => "conn_other".to_string(),
                                                SSR::RemoteEndedWithError(e) => format!("session_remote_ended_with_error:{}", matches!(e.condition, defs::ErrorCondition::AmqpError(defs::AmqpError::InternalError))),
                                                SSR::RemoteEnded => "session_remote_ended".to_string(),
                                                _ => "session_other".to_string(),
                                            }
                                        }
                                        Err(_) => break "other_send_error".to_string(),
                                    }
                                };
                                let sess = match tokio::time::timeout(Duration::from_secs(2), session.on_end()).await {
                                    Err(_) => "session_still_running".to_string(),
                                    Ok(Ok(())) => "session_ok".to_string(),
                                    Ok(Err(fe2o3_amqp::session::Error::RemoteEndedWithError(_))) => "session_remote_ended_with_error".to_string(),
                                    Ok(Err(fe2o3_amqp::session::Error::RemoteEnded)) => "session_remote_ended".to_string(),
                                    Ok(Err(_)) => "session_other_error".to_string(),
                                };
                                let c = if kind.starts_with("close") {
                                    // `close_err_then_close`: the application calls close() only after the engine has stopped
                                    let fut: std::pin::Pin<Box<dyn std::future::Future<Output = Result<(), fe2o3_amqp::connection::Error>> + '_>> = if kind == "close_err_then_close" {
                                        tokio::time::sleep(Duration::from_millis(200)).await;
                                        Box::pin(conn.close())
                                    } else {
                                        Box::pin(conn.on_close())
                                    };
                                    match tokio::time::timeout(Duration::from_secs(2), fut).await {
                                        Err(_) => "conn_still_running",
                                        Ok(Ok(())) => "conn_ok",
                                        Ok(Err(fe2o3_amqp::connection::Error::RemoteClosedWithError(_))) => "conn_remote_closed_with_error",
                                        Ok(Err(fe2o3_amqp::connection::Error::RemoteClosed)) => "conn_remote_closed",
                                        Ok(Err(_)) => "conn_other_error",
                                    }
                                } else {
                                    let _ = tokio::time::timeout(Duration::from_secs(1), conn.close()).await;
                                    "conn_not_asked"
                                };
                                Ok::<_, String>((link, sess, c.to_string()))
                            })
                            .await
                            .unwrap_or(Err("hang".to_string()));
                            peer.abort();
                            let (link, sess, c) = client.unwrap_or_else(|e| (e, String::new(), String::new()));
                            let kind = toks.get(2).copied().unwrap_or("close_err");
                            let as_expected = match kind {
                                "close_err" | "close_err_then_close" => link == "conn_remote_closed_with_error:true" && c == "conn_remote_closed_with_error" && sess == "session_ok",
                                "close" => link == "conn_remote_closed" && c == "conn_remote_closed" && sess == "session_ok",
                                "end_err" => link == "session_remote_ended_with_error:true" && sess == "session_remote_ended_with_error",
                                "end_err_close" => link == "session_remote_ended_with_error:true",
                                _ => link == "session_remote_ended" && sess == "session_remote_ended",
                            };
                            format!("{{\"link\":\"{}\",\"session\":\"{}\",\"connection\":\"{}\",\"as_expected\":{}}}", link, sess, c, as_expected)
                        }
                        // txn_late_post: a real controller (client) against the crate's own listener (acceptor + control-link
                        //   acceptor), in process. (1) two posts under a transaction are seen by the listener's application only
                        //   after the commit, in order; (2) a post under a rolled-back transaction is never seen; (3) a post that
                        //   arrives after the discharge, still naming the finished id, is neither delivered nor accepted.
                        // e2e <max_frame> <link_max_message_size> <session_window> <len0> <count> <step> [settled]:
                        //   END TO END on the real code of both sides: a client Sender against the crate's own listener
                        //   (in-memory duplex). The client sends <count> messages with Binary bodies of len0, len0+step, ...
                        //   bytes (contents derived from the index); the listener's Receiver hands back what it got.
                        //   Every message must arrive exactly once, byte for byte, in order.
                        "e2e" => {
                            use fe2o3_amqp::acceptor::{ConnectionAcceptor, LinkAcceptor, LinkEndpoint, SessionAcceptor};
                            use fe2o3_amqp_types::primitives::Binary;
                            let _ = (client_io, peer_io);
                            let g = |i: usize, d: u64| arg.get(i).copied().unwrap_or(d);
                            let (max_frame, mms, window, len0, count, step, settled) = (g(0, 512) as u32, g(1, 0), g(2, 2048) as u32, g(3, 10) as usize, g(4, 3) as usize, g(5, 1) as usize, g(6, 1) == 1);
                            let body = move |i: usize| -> Vec<u8> { (0..len0 + i * step).map(|j| ((i * 31 + j * 7 + (j >> 8)) & 0xff) as u8).collect() };
                            let (client_io, server_io) = tokio::io::duplex(256);
                            let (seen_tx, mut seen) = tokio::sync::mpsc::unbounded_channel::<Result<Vec<u8>, String>>();
                            let listener = tokio::spawn(async move {
                                let acceptor = ConnectionAcceptor::builder().container_id("listener").max_frame_size(max_frame).build();
                                let mut connection = match acceptor.accept(server_io).await {
                                    Ok(c) => c,
                                    Err(_) => return,
                                };
                                let session_acceptor = SessionAcceptor::builder().incoming_window(window).build();
                                let mut session = match session_acceptor.accept(&mut connection).await {
                                    Ok(s) => s,
                                    Err(_) => return,
                                };
                                let mut lb = LinkAcceptor::builder();
                                if mms > 0 {
                                    lb = lb.max_message_size(mms);
                                }
                                let link_acceptor = lb.build();
                                let mut receiver = match link_acceptor.accept(&mut session).await {
                                    Ok(LinkEndpoint::Receiver(r)) => r,
                                    _ => return,
                                };
                                loop {
                                    match receiver.recv::<Binary>().await {
                                        Ok(delivery) => {
                                            let _ = seen_tx.send(Ok(delivery.body().to_vec()));
                                            if receiver.accept(&delivery).await.is_err() {
                                                break;
                                            }
                                        }
                                        Err(e) => {
                                            let _ = seen_tx.send(Err(format!("{:?}", e).chars().take(80).collect()));
                                            break;
                                        }
                                    }
                                }
                                drop(seen_tx);
                                tokio::time::sleep(Duration::from_secs(2)).await;
                                drop(receiver);
                                drop(session);
                                drop(connection);
                            });
                            let res = tokio::time::timeout(Duration::from_secs(20), async {
                                let mut connection = fe2o3_amqp::Connection::builder().container_id("client").max_frame_size(max_frame).open_with_stream(client_io).await.map_err(|_| "open_failed")?;
                                let mut session = fe2o3_amqp::Session::begin(&mut connection).await.map_err(|_| "begin_failed")?;
                                let mut sender = fe2o3_amqp::Sender::attach(&mut session, "sender", "q1").await.map_err(|_| "sender_failed")?;
                                let mut send_errors = 0usize;
                                for i in 0..count {
                                    let m = fe2o3_amqp::Sendable::builder().message(Binary::from(body(i))).settled(settled).build();
                                    match tokio::time::timeout(Duration::from_secs(4), sender.send(m)).await {
                                        Ok(Ok(_)) => {}
                                        _ => send_errors += 1,
                                    }
                                }
                                let mut got: Vec<Result<Vec<u8>, String>> = Vec::new();
                                while got.len() < count {
                                    match tokio::time::timeout(Duration::from_millis(1500), seen.recv()).await {
                                        Ok(Some(x)) => {
                                            let stop = x.is_err();
                                            got.push(x);
                                            if stop {
                                                break;
                                            }
                                        }
                                        _ => break,
                                    }
                                }
                                // nothing more may arrive
                                let extra = matches!(tokio::time::timeout(Duration::from_millis(200), seen.recv()).await, Ok(Some(_)));
                                let _ = tokio::time::timeout(Duration::from_secs(1), sender.close()).await;
                                let _ = tokio::time::timeout(Duration::from_secs(1), session.end()).await;
                                let _ = tokio::time::timeout(Duration::from_secs(1), connection.close()).await;
                                Ok::<_, &'static str>((got, extra, send_errors))
                            })
                            .await
                            .unwrap_or(Err("hang"));
                            listener.abort();
                            match res {
                                Ok((got, extra, send_errors)) => {
                                    let mut first_bad: i64 = -1;
                                    for i in 0..count {
                                        let ok = matches!(got.get(i), Some(Ok(b)) if *b == body(i));
                                        if !ok {
                                            first_bad = i as i64;
                                            break;
                                        }
                                    }
                                    let err = got.iter().find_map(|x| x.as_ref().err().cloned()).unwrap_or_default();
                                    format!("{{\"client\":\"ok\",\"intact\":{},\"received\":{},\"first_bad\":{},\"extra\":{},\"send_errors\":{},\"recv_error\":{:?}}}", first_bad < 0 && !extra && got.len() == count, got.len(), first_bad, extra, send_errors, err)
                                }
                                Err(e) => format!("{{\"client\":\"{}\",\"intact\":false,\"received\":0,\"first_bad\":0,\"extra\":false,\"send_errors\":0,\"recv_error\":\"\"}}", e),
                            }
                        }
                        // abort_then_next <second>: the peer (sender) starts a two-frame delivery, aborts it (aborted=true; with
                        //   <second>=1 the abort frame also keeps more=true) and then sends a complete delivery "hello". The
                        //   client's recv must return "hello". With <second>=1 the link settles second: the client accepts, the
                        //   peer settles, the client detaches and resumes -- the resuming attach must list nothing as unsettled.
                        "abort_then_next" => {
                            use fe2o3_amqp_types::definitions::{ReceiverSettleMode, Role};
                            use fe2o3_amqp_types::messaging::{Accepted, DeliveryState};
                            use fe2o3_amqp_types::performatives::{Disposition, Transfer};
                            use fe2o3_amqp_types::primitives::Binary;
                            let second = arg.first().copied().unwrap_or(0) == 1;
                            fn xfer(ch: u16, handle: defs::Handle, id: Option<u32>, tag: Option<u8>, more: bool, aborted: bool, body: &[u8]) -> Frame {
                                let performative = Transfer { handle, delivery_id: id, delivery_tag: tag.map(|t| Binary::from(vec![t])), message_format: id.map(|_| 0), settled: id.map(|_| false), more, rcv_settle_mode: None, state: None, resume: false, aborted, batchable: false };
                                Frame::new(ch, FrameBody::Transfer { performative, payload: Bytes::from(body.to_vec()) })
                            }
                            let mut sent = false;
                            let peer = tokio::spawn(sp::run(peer_io, sp::PeerCfg::default(), move |f: &Frame, _log: &[String]| {
                                let mut act = sp::Act::default();
                                match &f.body {
                                    FrameBody::Flow(fl) => {
                                        if let (Some(h), false) = (fl.handle.clone(), sent) {
                                            sent = true;
                                            act.replies.push(xfer(f.channel, h.clone(), Some(0), Some(7), true, false, &[0x00, 0x53, 0x77, 0xa1, 0x0a, b'p', b'a', b'r']));
                                            act.replies.push(xfer(f.channel, h.clone(), None, None, second, true, &[]));
                                            act.replies.push(xfer(f.channel, h, Some(1), Some(9), false, false, &[0x00, 0x53, 0x77, 0xa1, 0x05, b'h', b'e', b'l', b'l', b'o']));
                                        }
                                    }
                                    FrameBody::Disposition(d) if matches!(d.role, Role::Receiver) && !d.settled => {
                                        act.replies.push(Frame::new(f.channel, FrameBody::Disposition(Disposition { role: Role::Sender, first: d.first, last: d.last, settled: true, state: Some(DeliveryState::Accepted(Accepted {})), batchable: false })));
                                    }
                                    _ => {}
                                }
                                act
                            }));
                            let client = tokio::time::timeout(Duration::from_secs(8), async {
                                let mut conn = fe2o3_amqp::Connection::builder().container_id("client").open_with_stream(client_io).await.map_err(|_| "open_failed".to_string())?;
                                let mut session = fe2o3_amqp::Session::begin(&mut conn).await.map_err(|_| "begin_failed".to_string())?;
                                let mut b = fe2o3_amqp::Receiver::builder().name("r-1").source("q1");
                                if second {
                                    b = b.receiver_settle_mode(ReceiverSettleMode::Second);
                                }
                                let mut receiver = b.attach(&mut session).await.map_err(|_| "attach_failed".to_string())?;
                                let got = match tokio::time::timeout(Duration::from_secs(2), receiver.recv::<String>()).await {
                                    Err(_) => "recv_hang".to_string(),
                                    Ok(Err(e)) => format!("recv_err:{:?}", e).chars().take(60).collect(),
                                    Ok(Ok(d)) => {
                                        let body = d.body().clone();
                                        let _ = tokio::time::timeout(Duration::from_secs(1), receiver.accept(&d)).await;
                                        body
                                    }
                                };
                                tokio::time::sleep(Duration::from_millis(300)).await;
                                if second {
                                    if let Ok(Ok(detached)) = tokio::time::timeout(Duration::from_secs(2), receiver.detach()).await {
                                        let _ = tokio::time::timeout(Duration::from_secs(2), detached.resume()).await;
                                    }
                                } else {
                                    let _ = tokio::time::timeout(Duration::from_secs(1), receiver.close()).await;
                                }
                                let _ = tokio::time::timeout(Duration::from_secs(1), session.end()).await;
                                let _ = tokio::time::timeout(Duration::from_secs(1), conn.close()).await;
                                Ok::<_, String>(got)
                            })
                            .await
                            .unwrap_or(Err("hang".to_string()));
                            let log = tokio::time::timeout(Duration::from_secs(2), peer).await.ok().and_then(|r| r.ok()).unwrap_or_default();
                            let attaches: Vec<&String> = log.iter().filter(|l| l.starts_with("attach:")).collect();
                            // tag 9 is the delivery that was accepted and settled (tag 7, the aborted one, is not judged here)
                            let left: u32 = attaches.iter().skip(1).filter(|l| l.contains(":unsettled") && l.contains("+9+")).count() as u32;
                            let got = client.unwrap_or_else(|e| e);
                            format!("{{\"client\":{:?},\"next_delivery_intact\":{},\"resumed\":{},\"left_unsettled\":{},\"log\":{}}}", got, got == "hello", attaches.len() > 1, left, sp::json_list(&log))
                        }
                        // txn_discharge <fail: 0 = false, 1 = true, 2 = unset>: a scripted controller declares, posts "first" and
                        //   "second", and discharges with the given fail field against the crate's own listener. fail=true: nothing
                        //   is ever delivered; otherwise (also unset) both posts are delivered after the discharge, in order.
                        "txn_discharge" => {
                            let _ = (client_io, peer_io);
                            let f = arg.first().copied().unwrap_or(0);
                            let fail = match f { 0 => Some(false), 1 => Some(true), _ => None };
                            let (before, after) = txc::scenario(fail).await;
                            let want: Vec<String> = if f == 1 { vec![] } else { vec!["first".to_string(), "second".to_string()] };
                            format!("{{\"before\":{:?},\"after\":{:?},\"as_expected\":{}}}", before, after, before.is_empty() && after == want)
                        }
                        // cancel_send_no_credit: the peer never grants credit; the client starts three sends under a 40 ms time-out
                        //   (each send future is dropped while it waits for credit) and then a fourth one under 300 ms. No transfer
                        //   may ever reach the peer: cancelling a send that holds no credit must not create credit.
                        "cancel_send_no_credit" => {
                            let peer = tokio::spawn(sp::run(peer_io, sp::PeerCfg { credit: None, ..Default::default() }, move |_f: &Frame, _log: &[String]| sp::Act::default()));
                            let client = tokio::time::timeout(Duration::from_secs(8), async {
                                let mut conn = fe2o3_amqp::Connection::builder().container_id("client").open_with_stream(client_io).await.map_err(|_| "open_failed")?;
                                let mut session = fe2o3_amqp::Session::begin(&mut conn).await.map_err(|_| "begin_failed")?;
                                let mut sender = fe2o3_amqp::Sender::attach(&mut session, "s-1", "q1").await.map_err(|_| "attach_failed")?;
                                let mut completed = 0u32;
                                for k in 0..4 {
                                    let m = fe2o3_amqp::Sendable::builder().message(format!("m{}", k)).settled(true).build();
                                    let ms = if k < 3 { 40 } else { 300 };
                                    if let Ok(Ok(_)) = tokio::time::timeout(Duration::from_millis(ms), sender.send(m)).await {
                                        completed += 1;
                                    }
                                }
                                tokio::time::sleep(Duration::from_millis(200)).await;
                                let _ = tokio::time::timeout(Duration::from_secs(1), sender.close()).await;
                                let _ = tokio::time::timeout(Duration::from_secs(1), session.end()).await;
                                let _ = tokio::time::timeout(Duration::from_secs(1), conn.close()).await;
                                Ok::<_, &'static str>(completed)
                            })
                            .await
                            .unwrap_or(Err("hang"));
                            let log = tokio::time::timeout(Duration::from_secs(2), peer).await.ok().and_then(|r| r.ok()).unwrap_or_default();
                            let n = log.iter().filter(|l| l.starts_with("transfer:")).count();
                            match client {
                                Ok(c) => format!("{{\"client\":\"ok\",\"sends_completed\":{},\"transfers_without_credit\":{},\"log\":{}}}", c, n, sp::json_list(&log)),
                                Err(e) => format!("{{\"client\":\"{}\",\"sends_completed\":0,\"transfers_without_credit\":{},\"log\":{}}}", e, n, sp::json_list(&log)),
                            }
                        }
                        // window_backlog: the peer begins with incoming-window 2; the client (connection buffer_size 4) sends ten
                        //   pre-settled messages, eight of which are held back; after the second transfer the peer reopens its window
                        //   to 100 in one flow, so that the whole backlog is released at once into a queue that cannot hold it. All
                        //   ten transfers must arrive, in order.
                        "window_backlog" => {
                            use fe2o3_amqp_types::performatives::Flow;
                            let mut seen = 0u32;
                            let cfg = sp::PeerCfg { credit: None, ..Default::default() };
                            let peer = tokio::spawn(sp::run(peer_io, sp::PeerCfg { credit: None, ..Default::default() }, move |f: &Frame, _log: &[String]| {
                                let mut act = sp::Act::default();
                                match &f.body {
                                    FrameBody::Attach(a) => {
                                        act.replies = sp::default_answers(f, &cfg).0;
                                        act.replies.push(Frame::new(f.channel, FrameBody::Flow(Flow { next_incoming_id: Some(0), incoming_window: 2, next_outgoing_id: 0, outgoing_window: 2048, handle: Some(a.handle.clone()), delivery_count: Some(0), link_credit: Some(100), available: None, drain: false, echo: false, properties: None })));
                                        act.handled = true;
                                    }
                                    FrameBody::Begin(b) => {
                                        let mut b = b.clone();
                                        b.remote_channel = Some(f.channel);
                                        b.incoming_window = 2;
                                        act.replies.push(Frame::new(f.channel, FrameBody::Begin(b)));
                                        act.handled = true;
                                    }
                                    FrameBody::Transfer { .. } => {
                                        seen += 1;
                                        if seen == 2 {
                                            // give the client time to queue the other eight behind the closed window
                                            act.pause_ms = 300;
                                            act.late_replies.push(Frame::new(f.channel, FrameBody::Flow(Flow { next_incoming_id: Some(2), incoming_window: 100, next_outgoing_id: 0, outgoing_window: 2048, handle: None, delivery_count: None, link_credit: None, available: None, drain: false, echo: false, properties: None })));
                                        }
                                    }
                                    _ => {}
                                }
                                act
                            }));
                            let client = tokio::time::timeout(Duration::from_secs(10), async {
                                let mut conn = fe2o3_amqp::Connection::builder().container_id("client").buffer_size(4).open_with_stream(client_io).await.map_err(|_| "open_failed")?;
                                let mut session = fe2o3_amqp::Session::begin(&mut conn).await.map_err(|_| "begin_failed")?;
                                let mut sender = fe2o3_amqp::Sender::attach(&mut session, "s-1", "q1").await.map_err(|_| "attach_failed")?;
                                for k in 0..10 {
                                    let m = fe2o3_amqp::Sendable::builder().message(format!("m{}", k)).settled(true).build();
                                    let _ = tokio::time::timeout(Duration::from_secs(2), sender.send(m)).await.map_err(|_| "send_timeout")?;
                                }
                                tokio::time::sleep(Duration::from_millis(900)).await;
                                let _ = tokio::time::timeout(Duration::from_secs(1), sender.close()).await;
                                let _ = tokio::time::timeout(Duration::from_secs(1), session.end()).await;
                                let _ = tokio::time::timeout(Duration::from_secs(1), conn.close()).await;
                                Ok::<_, &'static str>("ok")
                            })
                            .await
                            .unwrap_or(Err("hang"));
                            let log = tokio::time::timeout(Duration::from_secs(2), peer).await.ok().and_then(|r| r.ok()).unwrap_or_default();
                            let i_det = log.iter().position(|l| l.starts_with("detach:")).unwrap_or(log.len());
                            let tails: Vec<String> = log[..i_det].iter().filter(|l| l.starts_with("transfer:")).filter_map(|l| l.rsplit(":tail").next().map(|x| x.to_string())).collect();
                            let want: Vec<String> = (0..10u8).map(|k| format!("{}", b'0' + k)).collect();
                            format!("{{\"client\":\"{}\",\"transfers_seen\":{},\"all_in_order\":{},\"log\":{}}}", client.unwrap_or_else(|e| e), tails.len(), tails == want, sp::json_list(&log))
                        }
                        // presettled_stream <n> <count>: the client is a Receiver with CreditMode::Auto(n) and auto_accept; the peer
                        //   (sender) transfers <count> PRE-SETTLED single-frame deliveries, never beyond delivery-count + link-credit of
                        //   the client's latest flow. All of them must arrive: the credit has to be re-issued as deliveries are processed.
                        "presettled_stream" => {
                            use fe2o3_amqp_types::performatives::Transfer;
                            use fe2o3_amqp_types::primitives::Binary;
                            let n = arg.first().copied().unwrap_or(4) as u32;
                            let count = arg.get(1).copied().unwrap_or(14) as u32;
                            let mut sent = 0u32;
                            let peer = tokio::spawn(sp::run(peer_io, sp::PeerCfg::default(), move |f: &Frame, _log: &[String]| {
                                let mut act = sp::Act::default();
                                if let FrameBody::Flow(fl) = &f.body {
                                    if let Some(h) = fl.handle.clone() {
                                        let limit = fl.delivery_count.unwrap_or(0).wrapping_add(fl.link_credit.unwrap_or(0));
                                        while sent < count && sent < limit {
                                            let performative = Transfer { handle: h.clone(), delivery_id: Some(sent), delivery_tag: Some(Binary::from(sent.to_be_bytes().to_vec())), message_format: Some(0), settled: Some(true), more: false, rcv_settle_mode: None, state: None, resume: false, aborted: false, batchable: false };
                                            act.replies.push(Frame::new(f.channel, FrameBody::Transfer { performative, payload: Bytes::from(vec![0x00, 0x53, 0x77, 0xa1, 0x02, b'm', b'0' + (sent % 10) as u8]) }));
                                            sent += 1;
                                        }
                                    }
                                }
                                act
                            }));
                            let client = tokio::time::timeout(Duration::from_secs(12), async {
                                let mut conn = fe2o3_amqp::Connection::builder().container_id("client").open_with_stream(client_io).await.map_err(|_| "open_failed")?;
                                let mut session = fe2o3_amqp::Session::begin(&mut conn).await.map_err(|_| "begin_failed")?;
                                let mut receiver = fe2o3_amqp::Receiver::builder().name("r-1").source("q1").credit_mode(fe2o3_amqp::link::receiver::CreditMode::Auto(n)).auto_accept(true).attach(&mut session).await.map_err(|_| "attach_failed")?;
                                let mut delivered = 0u32;
                                while delivered < count {
                                    match tokio::time::timeout(Duration::from_millis(700), receiver.recv::<String>()).await {
                                        Ok(Ok(_)) => delivered += 1,
                                        _ => break,
                                    }
                                }
                                let _ = tokio::time::timeout(Duration::from_secs(1), receiver.close()).await;
                                let _ = tokio::time::timeout(Duration::from_secs(1), session.end()).await;
                                let _ = tokio::time::timeout(Duration::from_secs(1), conn.close()).await;
                                Ok::<_, &'static str>(delivered)
                            })
                            .await
                            .unwrap_or(Err("hang"));
                            let log = tokio::time::timeout(Duration::from_secs(2), peer).await.ok().and_then(|r| r.ok()).unwrap_or_default();
                            match client {
                                Ok(d) => format!("{{\"client\":\"ok\",\"delivered\":{},\"log\":{}}}", d, sp::json_list(&log)),
                                Err(e) => format!("{{\"client\":\"{}\",\"delivered\":0,\"log\":{}}}", e, sp::json_list(&log)),
                            }
                        }
                        // resume_with_new_handle: the peer numbers ITS handles by itself: sender "a" attaches (peer handle 5) and
                        //   detaches without closing; sender "c" attaches and the peer reuses 5 for it; "a" resumes and the peer answers
                        //   with handle 6. An unsettled message sent on the resumed "a" is accepted and settled by the peer: that send
                        //   must resolve (the disposition has to be routed to "a", which now answers to 6, not to whoever holds 5).
                        "resume_with_new_handle" => {
                            use fe2o3_amqp_types::definitions::{Handle, Role};
                            use fe2o3_amqp_types::messaging::{Accepted, DeliveryState};
                            use fe2o3_amqp_types::performatives::{Detach, Disposition, Flow};
                            let mut attaches = 0usize;
                            let mut peer_handle_of: std::collections::HashMap<u32, u32> = Default::default();
                            let peer = tokio::spawn(sp::run(peer_io, sp::PeerCfg { credit: None, ..Default::default() }, move |f: &Frame, _log: &[String]| {
                                let mut act = sp::Act::default();
                                match &f.body {
                                    FrameBody::Attach(a) => {
                                        let ph = [5u32, 5, 6, 7, 8][attaches.min(4)];
                                        attaches += 1;
                                        peer_handle_of.insert(a.handle.0, ph);
                                        let mut answer = a.clone();
                                        answer.role = Role::Receiver;
                                        answer.initial_delivery_count = None;
                                        answer.unsettled = None;
                                        answer.handle = Handle(ph);
                                        act.replies.push(Frame::new(f.channel, FrameBody::Attach(answer)));
                                        act.replies.push(Frame::new(f.channel, FrameBody::Flow(Flow { next_incoming_id: Some(0), incoming_window: 2048, next_outgoing_id: 0, outgoing_window: 2048, handle: Some(Handle(ph)), delivery_count: Some(0), link_credit: Some(100), available: None, drain: false, echo: false, properties: None })));
                                        act.handled = true;
                                    }
                                    FrameBody::Detach(d) => {
                                        let ph = peer_handle_of.get(&d.handle.0).copied().unwrap_or(d.handle.0);
                                        act.replies.push(Frame::new(f.channel, FrameBody::Detach(Detach { handle: Handle(ph), closed: d.closed, error: None })));
                                        act.handled = true;
                                    }
                                    FrameBody::Transfer { performative, .. } => {
                                        if let Some(id) = performative.delivery_id {
                                            act.replies.push(Frame::new(f.channel, FrameBody::Disposition(Disposition { role: Role::Receiver, first: id, last: None, settled: true, state: Some(DeliveryState::Accepted(Accepted {})), batchable: false })));
                                        }
                                    }
                                    _ => {}
                                }
                                act
                            }));
                            let client = tokio::time::timeout(Duration::from_secs(12), async {
                                let mut conn = fe2o3_amqp::Connection::builder().container_id("client").open_with_stream(client_io).await.map_err(|_| "open_failed")?;
                                let mut session = fe2o3_amqp::Session::begin(&mut conn).await.map_err(|_| "begin_failed")?;
                                let mut a = fe2o3_amqp::Sender::attach(&mut session, "a", "q1").await.map_err(|_| "attach_a_failed")?;
                                let first = matches!(tokio::time::timeout(Duration::from_millis(1500), a.send("before")).await, Ok(Ok(_)));
                                let detached = tokio::time::timeout(Duration::from_secs(2), a.detach()).await.map_err(|_| "detach_timeout")?.map_err(|_| "detach_failed")?;
                                let mut c = fe2o3_amqp::Sender::attach(&mut session, "c", "q2").await.map_err(|_| "attach_c_failed")?;
                                let mut a = tokio::time::timeout(Duration::from_secs(2), detached.resume()).await.map_err(|_| "resume_timeout")?.map_err(|_| "resume_failed")?;
                                let after = matches!(tokio::time::timeout(Duration::from_millis(1500), a.send("after")).await, Ok(Ok(_)));
                                let other = matches!(tokio::time::timeout(Duration::from_millis(1500), c.send("other")).await, Ok(Ok(_)));
                                let _ = tokio::time::timeout(Duration::from_secs(1), a.close()).await;
                                let _ = tokio::time::timeout(Duration::from_secs(1), c.close()).await;
                                let _ = tokio::time::timeout(Duration::from_secs(1), session.end()).await;
                                let _ = tokio::time::timeout(Duration::from_secs(1), conn.close()).await;
                                Ok::<_, &'static str>((first, after, other))
                            })
                            .await
                            .unwrap_or(Err("hang"));
                            let log = tokio::time::timeout(Duration::from_secs(2), peer).await.ok().and_then(|r| r.ok()).unwrap_or_default();
                            match client {
                                Ok((first, after, other)) => format!("{{\"client\":\"ok\",\"send_before_detach_settled\":{},\"send_after_resume_settled\":{},\"send_on_the_other_link_settled\":{},\"log\":{}}}", first, after, other, sp::json_list(&log)),
                                Err(e) => format!("{{\"client\":\"{}\",\"send_before_detach_settled\":false,\"send_after_resume_settled\":false,\"send_on_the_other_link_settled\":false,\"log\":{}}}", e, sp::json_list(&log)),
                            }
                        }
                        // end_with_error_waits: the client ends its session WITH an error; the peer answers the end only 400 ms
                        //   later. The call must not return before the peer's end has arrived, and the connection must stay usable
                        //   (a second session can be begun and ended).
                        "end_with_error_waits" => {
                            use fe2o3_amqp_types::performatives::End;
                            let mut first_end = true;
                            let peer = tokio::spawn(sp::run(peer_io, sp::PeerCfg::default(), move |f: &Frame, _log: &[String]| {
                                let mut act = sp::Act::default();
                                if let (FrameBody::End(_), true) = (&f.body, first_end) {
                                    first_end = false;
                                    act.handled = true;
                                    act.pause_ms = 400;
                                    act.late_replies.push(Frame::new(f.channel, FrameBody::End(End { error: None })));
                                }
                                act
                            }));
                            let client = tokio::time::timeout(Duration::from_secs(8), async {
                                let mut conn = fe2o3_amqp::Connection::builder().container_id("client").open_with_stream(client_io).await.map_err(|_| "open_failed")?;
                                let mut session = fe2o3_amqp::Session::begin(&mut conn).await.map_err(|_| "begin_failed")?;
                                let err = defs::Error::new(defs::AmqpError::InternalError, Some("local trouble".to_string()), None);
                                let t0 = std::time::Instant::now();
                                let r = tokio::time::timeout(Duration::from_secs(3), session.end_with_error(err)).await;
                                let ms = t0.elapsed().as_millis() as u64;
                                let ended = matches!(r, Ok(Ok(_)));
                                tokio::time::sleep(Duration::from_millis(500)).await;
                                let second = match tokio::time::timeout(Duration::from_secs(2), fe2o3_amqp::Session::begin(&mut conn)).await {
                                    Ok(Ok(mut s2)) => matches!(tokio::time::timeout(Duration::from_secs(2), s2.end()).await, Ok(Ok(_))),
                                    _ => false,
                                };
                                let _ = tokio::time::timeout(Duration::from_secs(1), conn.close()).await;
                                Ok::<_, &'static str>((ended, ms, second))
                            })
                            .await
                            .unwrap_or(Err("hang"));
                            peer.abort();
                            match client {
                                Ok((ended, ms, second)) => format!("{{\"client\":\"ok\",\"end_ok\":{},\"returned_after_ms\":{},\"returned_after_the_peers_end\":{},\"connection_still_usable\":{}}}", ended, ms, ended && ms >= 350 && second, second),
                                Err(e) => format!("{{\"client\":\"{}\",\"end_ok\":false,\"returned_after_ms\":0,\"returned_after_the_peers_end\":false,\"connection_still_usable\":false}}", e),
                            }
                        }
                        // slow_settlement <w>: session outgoing-window <w>. The client sends "first" unsettled (batchable: the outcome
                        //   future is kept); the peer holds its disposition back, accepts the next <w> deliveries at once and only then
                        //   accepts "first". The kept future must resolve: a delivery stays routable however many transfers follow it.
                        "slow_settlement" => {
                            use fe2o3_amqp_types::definitions::Role;
                            use fe2o3_amqp_types::messaging::{Accepted, DeliveryState};
                            use fe2o3_amqp_types::performatives::Disposition;
                            let w = arg.first().copied().unwrap_or(4).max(1) as u32;
                            let peer = tokio::spawn(sp::run(peer_io, sp::PeerCfg::default(), move |f: &Frame, _log: &[String]| {
                                let mut act = sp::Act::default();
                                if let FrameBody::Transfer { performative, .. } = &f.body {
                                    if let Some(id) = performative.delivery_id {
                                        let disp = |first: u32| Frame::new(f.channel, FrameBody::Disposition(Disposition { role: Role::Receiver, first, last: None, settled: true, state: Some(DeliveryState::Accepted(Accepted {})), batchable: false }));
                                        if id > 0 {
                                            act.replies.push(disp(id));
                                        }
                                        if id == w {
                                            act.replies.push(disp(0));
                                        }
                                    }
                                }
                                act
                            }));
                            let client = tokio::time::timeout(Duration::from_secs(10), async {
                                let mut conn = fe2o3_amqp::Connection::builder().container_id("client").open_with_stream(client_io).await.map_err(|_| "open_failed")?;
                                let mut session = fe2o3_amqp::Session::builder().outgoing_window(w).begin(&mut conn).await.map_err(|_| "begin_failed")?;
                                let mut sender = fe2o3_amqp::Sender::attach(&mut session, "s-1", "q1").await.map_err(|_| "attach_failed")?;
                                let first = sender.send_batchable("first").await.map_err(|_| "first_send_failed")?;
                                let mut others = 0u32;
                                for k in 0..w {
                                    if let Ok(Ok(_)) = tokio::time::timeout(Duration::from_millis(1500), sender.send(format!("m{}", k))).await {
                                        others += 1;
                                    }
                                }
                                let resolved = matches!(tokio::time::timeout(Duration::from_millis(1500), first).await, Ok(Ok(_)));
                                let _ = tokio::time::timeout(Duration::from_secs(1), sender.close()).await;
                                let _ = tokio::time::timeout(Duration::from_secs(1), session.end()).await;
                                let _ = tokio::time::timeout(Duration::from_secs(1), conn.close()).await;
                                Ok::<_, &'static str>((resolved, others))
                            })
                            .await
                            .unwrap_or(Err("hang"));
                            peer.abort();
                            match client {
                                Ok((resolved, others)) => format!("{{\"client\":\"ok\",\"first_send_resolved\":{},\"others_resolved\":{}}}", resolved, others),
                                Err(e) => format!("{{\"client\":\"{}\",\"first_send_resolved\":false,\"others_resolved\":0}}", e),
                            }
                        }
                        // refused_attach_then_close: the peer answers the client's sender attach with an attach WITHOUT a target (a
                        //   refusal); the client sends its closing detach; instead of answering it the peer closes the connection with
                        //   an error. The attach must fail with SessionStopped(..) (which carries the peer's reason), not with the local
                        //   refusal.
                        "refused_attach_then_close" => {
                            use fe2o3_amqp_types::performatives::Close;
                            let cfg = sp::PeerCfg { credit: None, ..Default::default() };
                            let peer = tokio::spawn(sp::run(peer_io, sp::PeerCfg { credit: None, ..Default::default() }, move |f: &Frame, _log: &[String]| {
                                let mut act = sp::Act::default();
                                match &f.body {
                                    FrameBody::Attach(_) => {
                                        let mut answers = sp::default_answers(f, &cfg).0;
                                        for fr in answers.iter_mut() {
                                            if let FrameBody::Attach(at) = &mut fr.body {
                                                at.target = None;
                                            }
                                        }
                                        act.replies = answers;
                                        act.handled = true;
                                    }
                                    FrameBody::Detach(_) => {
                                        let error = Some(defs::Error::new(defs::AmqpError::InternalError, Some("peer goes away".to_string()), None));
                                        act.replies.push(Frame::new(0u16, FrameBody::Close(Close { error })));
                                        act.handled = true;
                                    }
                                    FrameBody::Close(_) => {
                                        act.stop = true;
                                        act.handled = true;
                                    }
                                    _ => {}
                                }
                                act
                            }));
                            let client = tokio::time::timeout(Duration::from_secs(8), async {
                                let mut conn = fe2o3_amqp::Connection::builder().container_id("client").open_with_stream(client_io).await.map_err(|_| "open_failed".to_string())?;
                                let mut session = fe2o3_amqp::Session::begin(&mut conn).await.map_err(|_| "begin_failed".to_string())?;
                                let r = tokio::time::timeout(Duration::from_secs(3), fe2o3_amqp::Sender::attach(&mut session, "s-1", "q1")).await;
                                let what = match r {
                                    Err(_) => "attach_hang".to_string(),
                                    Ok(Ok(_)) => "attach_ok".to_string(),
                                    Ok(Err(e)) => format!("{:?}", e).chars().take(70).collect(),
                                };
                                let _ = tokio::time::timeout(Duration::from_secs(1), conn.on_close()).await;
                                Ok::<_, String>(what)
                            })
                            .await
                            .unwrap_or(Err("hang".to_string()));
                            peer.abort();
                            let what = client.unwrap_or_else(|e| e);
                            format!("{{\"attach_result\":{:?},\"reports_the_stop\":{}}}", what, what.starts_with("SessionStopped"))
                        }
                        // link_split <pieces>: the peer's attach carries max-message-size 16; the client sends ONE message
                        //   whose payload is cut into <pieces> transfers by the link. All frames of the delivery must carry
                        //   the first frame's delivery-id or none, `more` on all but the last, and add up to the payload.
                        "link_split" => {
                            use fe2o3_amqp_types::performatives::Flow;
                            let pieces = arg.first().copied().unwrap_or(2).max(2) as usize;
                            // second argument: the link credit the peer grants (default 100); one delivery needs one credit
                            let credit = arg.get(1).copied().unwrap_or(100) as u32;
                            let cfg = sp::PeerCfg { credit: None, ..Default::default() };
                            let peer = tokio::spawn(sp::run(peer_io, sp::PeerCfg { credit: None, ..Default::default() }, move |f: &Frame, _log: &[String]| {
                                let mut act = sp::Act::default();
                                if let FrameBody::Attach(a) = &f.body {
                                    let mut answers = sp::default_answers(f, &cfg).0;
                                    for fr in answers.iter_mut() {
                                        if let FrameBody::Attach(at) = &mut fr.body {
                                            at.max_message_size = Some(16);
                                        }
                                    }
                                    act.replies = answers;
                                    act.replies.push(Frame::new(f.channel, FrameBody::Flow(Flow { next_incoming_id: Some(0), incoming_window: 2048, next_outgoing_id: 0, outgoing_window: 2048, handle: Some(a.handle.clone()), delivery_count: Some(0), link_credit: Some(credit), available: None, drain: false, echo: false, properties: None })));
                                    act.handled = true;
                                }
                                act
                            }));
                            // payload = 00 53 77 a1 <len> <text>: text of 16*(pieces-1)+8-5 bytes gives a payload of 16*(pieces-1)+8
                            let total = 16 * (pieces - 1) + 8;
                            let client = tokio::time::timeout(Duration::from_secs(8), async {
                                let mut conn = fe2o3_amqp::Connection::builder().container_id("client").open_with_stream(client_io).await.map_err(|_| "open_failed")?;
                                let mut session = fe2o3_amqp::Session::begin(&mut conn).await.map_err(|_| "begin_failed")?;
                                let mut sender = fe2o3_amqp::Sender::attach(&mut session, "s-1", "q1").await.map_err(|_| "attach_failed")?;
                                let m = fe2o3_amqp::Sendable::builder().message("x".repeat(total - 5)).settled(true).build();
                                let _ = tokio::time::timeout(Duration::from_secs(2), sender.send(m)).await.map_err(|_| "send_timeout")?;
                                tokio::time::sleep(Duration::from_millis(300)).await;
                                let _ = tokio::time::timeout(Duration::from_secs(1), sender.close()).await;
                                let _ = tokio::time::timeout(Duration::from_secs(1), session.end()).await;
                                let _ = tokio::time::timeout(Duration::from_secs(1), conn.close()).await;
                                Ok::<_, &'static str>("ok")
                            })
                            .await
                            .unwrap_or(Err("hang"));
                            let log = tokio::time::timeout(Duration::from_secs(2), peer).await.ok().and_then(|r| r.ok()).unwrap_or_default();
                            let xs: Vec<&String> = log.iter().filter(|l| l.starts_with("transfer:")).collect();
                            let field = |l: &str, k: &str| -> String { l.split(':').find_map(|t| t.strip_prefix(k).map(|x| x.to_string())).unwrap_or_default() };
                            let first_id = xs.first().map(|l| field(l, "id")).unwrap_or_default();
                            let one_id = first_id.starts_with("Some") && xs.iter().skip(1).all(|l| { let i = field(l, "id"); i == "None" || i == first_id });
                            let more_ok = !xs.is_empty() && xs.iter().enumerate().all(|(k, l)| field(l, "more") == if k + 1 == xs.len() { "false" } else { "true" });
                            let sum: usize = xs.iter().map(|l| field(l, "len").parse::<usize>().unwrap_or(0)).sum();
                            format!("{{\"client\":\"{}\",\"frames\":{},\"one_delivery_id\":{},\"received_intact\":{},\"log\":{}}}", client.unwrap_or_else(|e| e), xs.len(), one_id, more_ok && sum == total && xs.len() == pieces, sp::json_list(&log))
                        }
                        "txn_late_post" => {
                            use fe2o3_amqp::acceptor::{ConnectionAcceptor, LinkAcceptor, LinkEndpoint, SessionAcceptor};
                            use fe2o3_amqp::transaction::{coordinator::ControlLinkAcceptor, Controller, Transaction, TransactionDischarge, TransactionPosting};
                            use fe2o3_amqp_types::messaging::Outcome;
                            let _ = peer_io;
                            let (client_io, server_io) = tokio::io::duplex(64 * 1024);
                            let (seen_tx, mut seen) = tokio::sync::mpsc::unbounded_channel::<String>();
                            let listener = tokio::spawn(async move {
                                let acceptor = ConnectionAcceptor::builder().container_id("listener").build();
                                let mut connection = match acceptor.accept(server_io).await {
                                    Ok(c) => c,
                                    Err(_) => return,
                                };
                                let session_acceptor = SessionAcceptor::builder().control_link_acceptor(ControlLinkAcceptor::default()).build();
                                let mut session = match session_acceptor.accept(&mut connection).await {
                                    Ok(s) => s,
                                    Err(_) => return,
                                };
                                let link_acceptor = LinkAcceptor::builder().build();
                                let mut receiver = match link_acceptor.accept(&mut session).await {
                                    Ok(LinkEndpoint::Receiver(r)) => r,
                                    _ => return,
                                };
                                while let Ok(delivery) = receiver.recv::<String>().await {
                                    let _ = seen_tx.send(delivery.body().clone());
                                    if receiver.accept(&delivery).await.is_err() {
                                        break;
                                    }
                                }
                                drop(seen_tx);
                                tokio::time::sleep(Duration::from_secs(2)).await;
                                drop(receiver);
                                drop(session);
                                drop(connection);
                            });
                            async fn quiet(seen: &mut tokio::sync::mpsc::UnboundedReceiver<String>) -> bool {
                                !matches!(tokio::time::timeout(Duration::from_millis(400), seen.recv()).await, Ok(Some(_)))
                            }
                            let step = Duration::from_secs(5);
                            let res = tokio::time::timeout(Duration::from_secs(30), async {
                                let mut connection = fe2o3_amqp::Connection::builder().container_id("client").open_with_stream(client_io).await.map_err(|_| "open_failed")?;
                                let mut session = fe2o3_amqp::Session::begin(&mut connection).await.map_err(|_| "begin_failed")?;
                                let controller = Controller::attach(&mut session, "controller").await.map_err(|_| "controller_failed")?;
                                let mut sender = fe2o3_amqp::Sender::attach(&mut session, "sender", "q1").await.map_err(|_| "sender_failed")?;
                                let txn = tokio::time::timeout(step, Transaction::declare(&controller, None)).await.map_err(|_| "declare_timeout")?.map_err(|_| "declare_failed")?;
                                tokio::time::timeout(step, txn.post(&mut sender, "c1")).await.map_err(|_| "post_timeout")?.map_err(|_| "post_failed")?;
                                tokio::time::timeout(step, txn.post(&mut sender, "c2")).await.map_err(|_| "post_timeout")?.map_err(|_| "post_failed")?;
                                let before_commit_quiet = quiet(&mut seen).await;
                                tokio::time::timeout(step, txn.commit()).await.map_err(|_| "commit_timeout")?.map_err(|_| "commit_failed")?;
                                let first = tokio::time::timeout(step, seen.recv()).await.ok().flatten();
                                let second = tokio::time::timeout(step, seen.recv()).await.ok().flatten();
                                let in_order = first.as_deref() == Some("c1") && second.as_deref() == Some("c2");
                                let mut txn = tokio::time::timeout(step, Transaction::declare(&controller, None)).await.map_err(|_| "declare_timeout")?.map_err(|_| "declare_failed")?;
                                tokio::time::timeout(step, txn.post(&mut sender, "r1")).await.map_err(|_| "post_timeout")?.map_err(|_| "post_failed")?;
                                tokio::time::timeout(step, txn.discharge(true)).await.map_err(|_| "rollback_timeout")?.map_err(|_| "rollback_failed")?;
                                let rolled_back_quiet = quiet(&mut seen).await;
                                let late = tokio::time::timeout(Duration::from_secs(3), txn.post(&mut sender, "late")).await;
                                let late_quiet = quiet(&mut seen).await;
                                let late_accepted = matches!(late, Ok(Ok(Outcome::Accepted(_))));
                                drop(txn);
                                let _ = tokio::time::timeout(Duration::from_secs(1), sender.close()).await;
                                let _ = tokio::time::timeout(Duration::from_secs(1), controller.close()).await;
                                let _ = tokio::time::timeout(Duration::from_secs(1), session.end()).await;
                                let _ = tokio::time::timeout(Duration::from_secs(1), connection.close()).await;
                                Ok::<_, &'static str>((before_commit_quiet, in_order, rolled_back_quiet, late_quiet, late_accepted))
                            })
                            .await
                            .unwrap_or(Err("hang"));
                            listener.abort();
                            match res {
                                Ok((bq, io, rq, lq, la)) => format!("{{\"client\":\"ok\",\"delivered_before_commit\":{},\"commit_delivered_in_order\":{},\"rolled_back_delivered\":{},\"late_delivered\":{},\"late_accepted\":{}}}", !bq, io, !rq, !lq, la),
                                Err(e) => format!("{{\"client\":\"{}\",\"delivered_before_commit\":false,\"commit_delivered_in_order\":false,\"rolled_back_delivered\":false,\"late_delivered\":false,\"late_accepted\":false}}", e),
                            }
                        }
                        // settle_second <n>: a client-side sender on a link with rcv-settle-mode=second sends n unsettled
                        //   messages; the peer (receiver) reports the outcome `accepted` for all of them in ONE non-settling
                        //   disposition (first=0,last=n-1). The sender must answer with settling dispositions covering every one
                        //   of the n deliveries, and each send must resolve as accepted.
                        "settle_second" => {
                            use fe2o3_amqp_types::definitions::{ReceiverSettleMode, Role};
                            use fe2o3_amqp_types::messaging::{Accepted, DeliveryState};
                            use fe2o3_amqp_types::performatives::Disposition;
                            let n = arg.first().copied().unwrap_or(1).max(1) as u32;
                            let mut seen = 0u32;
                            let peer = tokio::spawn(sp::run(peer_io, sp::PeerCfg::default(), move |f: &Frame, _log: &[String]| {
                                let mut act = sp::Act::default();
                                if let FrameBody::Transfer { .. } = &f.body {
                                    seen += 1;
                                    if seen == n {
                                        let d = Disposition { role: Role::Receiver, first: 0, last: Some(n - 1), settled: false, state: Some(DeliveryState::Accepted(Accepted {})), batchable: false };
                                        act.replies.push(Frame::new(f.channel, FrameBody::Disposition(d)));
                                    }
                                }
                                act
                            }));
                            let client = tokio::time::timeout(Duration::from_secs(8), async {
                                let mut conn = fe2o3_amqp::Connection::builder().container_id("client").open_with_stream(client_io).await.map_err(|_| "open_failed".to_string())?;
                                let mut session = fe2o3_amqp::Session::begin(&mut conn).await.map_err(|_| "begin_failed".to_string())?;
                                let mut sender = fe2o3_amqp::Sender::builder().name("s-1").target("q1").receiver_settle_mode(ReceiverSettleMode::Second).attach(&mut session).await.map_err(|_| "attach_failed".to_string())?;
                                let mut futs = Vec::new();
                                for k in 0..n {
                                    futs.push(sender.send_batchable(format!("m{}", k)).await.map_err(|_| "send_failed".to_string())?);
                                }
                                let mut accepted = 0;
                                for fut in futs {
                                    if let Ok(Ok(o)) = tokio::time::timeout(Duration::from_secs(2), fut).await {
                                        if o.is_accepted() {
                                            accepted += 1;
                                        }
                                    }
                                }
                                tokio::time::sleep(Duration::from_millis(300)).await;
                                let _ = tokio::time::timeout(Duration::from_secs(1), sender.close()).await;
                                let _ = tokio::time::timeout(Duration::from_secs(1), session.end()).await;
                                let _ = tokio::time::timeout(Duration::from_secs(1), conn.close()).await;
                                Ok::<_, String>(accepted)
                            })
                            .await
                            .unwrap_or(Err("hang".to_string()));
                            let log = tokio::time::timeout(Duration::from_secs(2), peer).await.ok().and_then(|r| r.ok()).unwrap_or_default();
                            // which delivery ids were settled by the sender's dispositions
                            let mut settled = vec![false; n as usize];
                            for l in log.iter().filter(|l| l.starts_with("disposition:Sender:") && l.contains(":settledtrue:")) {
                                let range = l.split(':').nth(2).unwrap_or("");
                                let mut it = range.split('-');
                                let first = it.next().and_then(|t| t.parse::<u32>().ok());
                                let last = it.next().and_then(|t| t.trim_start_matches("Some(").trim_end_matches(')').parse::<u32>().ok()).or(first);
                                if let (Some(a), Some(b)) = (first, last) {
                                    for id in a..=b.min(n - 1) {
                                        settled[id as usize] = true;
                                    }
                                }
                            }
                            let all = settled.iter().all(|x| *x);
                            let (acc, c) = match &client { Ok(a) => (*a as i64, "ok".to_string()), Err(e) => (-1, e.clone()) };
                            format!("{{\"client\":\"{}\",\"accepted\":{},\"n\":{},\"all_settled_by_sender\":{},\"log\":{}}}", c, acc, n, all, sp::json_list(&log))
                        }
                        // mixed_settle_modes: a client-side receiver on a link with rcv-settle-mode=second gets delivery 0 with
                        //   the per-transfer override rcv-settle-mode=first and delivery 1 without (so: second), and accepts both in
                        //   one accept_all. Delivery 1 must not be settled by the receiver on its own.
                        "mixed_settle_modes" => {
                            use fe2o3_amqp_types::definitions::{Handle, ReceiverSettleMode};
                            use fe2o3_amqp_types::performatives::Transfer;
                            use fe2o3_amqp_types::primitives::Binary;
                            fn xfer(ch: u16, handle: Handle, id: u32, mode: Option<ReceiverSettleMode>) -> Frame {
                                let performative = Transfer { handle, delivery_id: Some(id), delivery_tag: Some(Binary::from(id.to_be_bytes().to_vec())), message_format: Some(0), settled: Some(false), more: false, rcv_settle_mode: mode, state: None, resume: false, aborted: false, batchable: false };
                                Frame::new(ch, FrameBody::Transfer { performative, payload: Bytes::from_static(&[0x00, 0x53, 0x77, 0xa1, 0x01, b'x']) })
                            }
                            let mut sent = false;
                            let peer = tokio::spawn(sp::run(peer_io, sp::PeerCfg::default(), move |f: &Frame, _log: &[String]| {
                                let mut act = sp::Act::default();
                                if let FrameBody::Flow(fl) = &f.body {
                                    if let (Some(h), false) = (fl.handle.clone(), sent) {
                                        if fl.link_credit.unwrap_or(0) >= 2 {
                                            sent = true;
                                            act.replies.push(xfer(f.channel, h.clone(), 0, Some(ReceiverSettleMode::First)));
                                            act.replies.push(xfer(f.channel, h, 1, None));
                                        }
                                    }
                                }
                                act
                            }));
                            let client = tokio::time::timeout(Duration::from_secs(8), async {
                                let mut conn = fe2o3_amqp::Connection::builder().container_id("client").open_with_stream(client_io).await.map_err(|_| "open_failed")?;
                                let mut session = fe2o3_amqp::Session::begin(&mut conn).await.map_err(|_| "begin_failed")?;
                                let mut receiver = fe2o3_amqp::Receiver::builder().name("r-1").source("q1").receiver_settle_mode(ReceiverSettleMode::Second).auto_accept(false).attach(&mut session).await.map_err(|_| "attach_failed")?;
                                let d0 = tokio::time::timeout(Duration::from_secs(2), receiver.recv::<String>()).await.map_err(|_| "recv0_timeout")?.map_err(|_| "recv0_failed")?;
                                let d1 = tokio::time::timeout(Duration::from_secs(2), receiver.recv::<String>()).await.map_err(|_| "recv1_timeout")?.map_err(|_| "recv1_failed")?;
                                receiver.accept_all(vec![&d0, &d1]).await.map_err(|_| "accept_all_failed")?;
                                tokio::time::sleep(Duration::from_millis(300)).await;
                                let _ = tokio::time::timeout(Duration::from_secs(1), receiver.close()).await;
                                let _ = tokio::time::timeout(Duration::from_secs(1), session.end()).await;
                                let _ = tokio::time::timeout(Duration::from_secs(1), conn.close()).await;
                                Ok::<_, &'static str>("ok")
                            })
                            .await
                            .unwrap_or(Err("hang"));
                            let log = tokio::time::timeout(Duration::from_secs(2), peer).await.ok().and_then(|r| r.ok()).unwrap_or_default();
                            // does a SETTLING disposition of the receiver cover delivery 1 ?
                            let mut one_settled = false;
                            let mut zero_settled = false;
                            for l in log.iter().filter(|l| l.starts_with("disposition:Receiver:") && l.contains(":settledtrue:")) {
                                let range = l.split(':').nth(2).unwrap_or("");
                                let mut it = range.split('-');
                                let first = it.next().and_then(|t| t.parse::<u32>().ok());
                                let last = it.next().and_then(|t| t.trim_start_matches("Some(").trim_end_matches(')').parse::<u32>().ok()).or(first);
                                if let (Some(a), Some(b)) = (first, last) {
                                    one_settled |= a <= 1 && 1 <= b;
                                    zero_settled |= a == 0;
                                }
                            }
                            format!("{{\"client\":\"{}\",\"second_mode_delivery_left_unsettled\":{},\"first_mode_delivery_settled\":{},\"log\":{}}}", client.unwrap_or_else(|e| e), !one_settled, zero_settled, sp::json_list(&log))
                        }
                        // cancel_recv_auto_accept: a client-side receiver with auto-accept (the default) over a connection whose
                        //   outgoing path is back-pressured (tiny duplex, channel buffers of 1, a peer that stops reading for a
                        //   while after sending 10 deliveries). The application polls recv() under a short time-out -- i.e. it
                        //   drops pending recv futures -- and later keeps receiving. Every delivery sent must be returned by some
                        //   recv() exactly once.
                        "cancel_recv_auto_accept" => {
                            use fe2o3_amqp_types::definitions::Handle;
                            use fe2o3_amqp_types::performatives::Transfer;
                            use fe2o3_amqp_types::primitives::Binary;
                            let _ = (client_io, peer_io);
                            let (client_io, peer_io) = tokio::io::duplex(48);
                            const N: u32 = 10;
                            fn xfer(ch: u16, handle: Handle, id: u32) -> Frame {
                                let performative = Transfer { handle, delivery_id: Some(id), delivery_tag: Some(Binary::from(id.to_be_bytes().to_vec())), message_format: Some(0), settled: Some(false), more: false, rcv_settle_mode: None, state: None, resume: false, aborted: false, batchable: false };
                                Frame::new(ch, FrameBody::Transfer { performative, payload: Bytes::from(vec![0x00, 0x53, 0x77, 0x52, id as u8]) })
                            }
                            let mut sent = false;
                            let peer = tokio::spawn(sp::run(peer_io, sp::PeerCfg::default(), move |f: &Frame, _log: &[String]| {
                                let mut act = sp::Act::default();
                                if let FrameBody::Flow(fl) = &f.body {
                                    if let (Some(h), false) = (fl.handle.clone(), sent) {
                                        if fl.link_credit.unwrap_or(0) >= N {
                                            sent = true;
                                            for id in 0..N {
                                                act.replies.push(xfer(f.channel, h.clone(), id));
                                            }
                                            act.pause_ms = 1500;
                                        }
                                    }
                                }
                                act
                            }));
                            let client = tokio::time::timeout(Duration::from_secs(12), async {
                                let mut conn = fe2o3_amqp::Connection::builder().container_id("client").buffer_size(1).open_with_stream(client_io).await.map_err(|_| "open_failed".to_string())?;
                                let mut session = fe2o3_amqp::Session::builder().buffer_size(1).begin(&mut conn).await.map_err(|_| "begin_failed".to_string())?;
                                let mut receiver = fe2o3_amqp::Receiver::builder().name("r-1").source("q1").receiver_settle_mode(fe2o3_amqp_types::definitions::ReceiverSettleMode::Second).auto_accept(true).credit_mode(fe2o3_amqp::link::receiver::CreditMode::Manual).attach(&mut session).await.map_err(|_| "attach_failed".to_string())?;
                                receiver.set_credit(N).await.map_err(|_| "set_credit_failed".to_string())?;
                                // let all deliveries arrive; by then the peer has stopped reading
                                tokio::time::sleep(Duration::from_millis(300)).await;
                                let mut got: Vec<u32> = Vec::new();
                                let mut cancelled = 0u32;
                                // phase 1: impatient polling while the peer does not read
                                let t0 = std::time::Instant::now();
                                while t0.elapsed() < Duration::from_millis(800) {
                                    match tokio::time::timeout(Duration::from_millis(40), receiver.recv::<u32>()).await {
                                        Ok(Ok(d)) => got.push(*d.body()),
                                        Ok(Err(e)) => {
                                            if std::env::var("SCN_DEBUG").is_ok() {
                                                eprintln!("phase1 recv error: {:?}", e);
                                            }
                                            break;
                                        }
                                        Err(_) => cancelled += 1,
                                    }
                                    if std::env::var("SCN_DEBUG").is_ok() {
                                        eprintln!("phase1 t={}ms got={:?} cancelled={}", t0.elapsed().as_millis(), got, cancelled);
                                    }
                                }
                                // phase 2: patient
                                loop {
                                    match tokio::time::timeout(Duration::from_millis(1500), receiver.recv::<u32>()).await {
                                        Ok(Ok(d)) => got.push(*d.body()),
                                        _ => break,
                                    }
                                    if got.len() as u32 >= N {
                                        break;
                                    }
                                }
                                Ok::<_, String>((got, cancelled))
                            })
                            .await
                            .unwrap_or(Err("hang".to_string()));
                            if std::env::var("SCN_DEBUG").is_ok() {
                                let log = tokio::time::timeout(Duration::from_secs(3), peer).await.ok().and_then(|r| r.ok()).unwrap_or_default();
                                eprintln!("peer log: {:?}", log);
                            } else {
                                peer.abort();
                            }
                            match client {
                                Ok((got, cancelled)) => {
                                    let mut dup = 0;
                                    let mut seen = std::collections::BTreeSet::new();
                                    for g in &got {
                                        if !seen.insert(*g) {
                                            dup += 1;
                                        }
                                    }
                                    let lost = N as usize - seen.len();
                                    format!("{{\"client\":\"ok\",\"sent\":{},\"received\":{},\"lost\":{},\"duplicated\":{},\"recv_futures_dropped\":{},\"in_order\":{}}}", N, got.len(), lost, dup, cancelled, got.windows(2).all(|w| w[0] < w[1]))
                                }
                                Err(e) => format!("{{\"client\":\"{}\",\"lost\":0}}", e),
                            }
                        }
                        // cut_after_our_close: the client closes; the peer hangs up without answering the close
                        "cut_after_our_close" => {
                            let peer = tokio::spawn(sp::run(peer_io, sp::PeerCfg::default(), |f: &Frame, _log: &[String]| {
                                let mut act = sp::Act::default();
                                if matches!(&f.body, FrameBody::Close(_)) {
                                    act.handled = true;
                                    act.stop = true;
                                }
                                act
                            }));
                            let r = tokio::time::timeout(Duration::from_secs(5), async {
                                let mut conn = match fe2o3_amqp::Connection::builder().container_id("client").open_with_stream(client_io).await {
                                    Ok(c) => c,
                                    Err(_) => return "open_failed",
                                };
                                match conn.close().await {
                                    Ok(()) => "ok",
                                    Err(fe2o3_amqp::connection::Error::TransportError(_)) => "transport_error",
                                    Err(_) => "other_error",
                                }
                            })
                            .await
                            .unwrap_or("hang");
                            let _ = tokio::time::timeout(Duration::from_secs(1), peer).await;
                            format!("{{\"close_result\":\"{}\"}}", r)
                        }
                        // discarding_ignores: the peer sends a begin naming a channel the client never began (the client closes
                        //   with amqp:not-found and is DISCARDING), then two session flows, and answers the client's close only
                        //   300 ms later. The client must sit through the flows and wait for the peer's close.
                        "discarding_ignores" => {
                            use fe2o3_amqp_types::performatives::{Begin, Close, Flow};
                            let cfg = sp::PeerCfg::default();
                            let peer = tokio::spawn(sp::run(peer_io, sp::PeerCfg::default(), move |f: &Frame, _log: &[String]| {
                                let mut act = sp::Act::default();
                                match &f.body {
                                    FrameBody::Open(_) => {
                                        act.replies = sp::default_answers(f, &cfg).0;
                                        act.replies.push(Frame::new(0u16, FrameBody::Begin(Begin { remote_channel: Some(7), next_outgoing_id: 0, incoming_window: 10, outgoing_window: 10, handle_max: Default::default(), offered_capabilities: None, desired_capabilities: None, properties: None })));
                                        for _ in 0..2 {
                                            act.replies.push(Frame::new(0u16, FrameBody::Flow(Flow { next_incoming_id: Some(0), incoming_window: 10, next_outgoing_id: 0, outgoing_window: 10, handle: None, delivery_count: None, link_credit: None, available: None, drain: false, echo: false, properties: None })));
                                        }
                                        act.handled = true;
                                    }
                                    FrameBody::Close(_) => {
                                        act.handled = true;
                                        act.pause_ms = 300;
                                        act.late_replies.push(Frame::new(0u16, FrameBody::Close(Close { error: None })));
                                        act.stop = true;
                                    }
                                    _ => {}
                                }
                                act
                            }));
                            let t0 = std::time::Instant::now();
                            let (handle, took) = tokio::time::timeout(Duration::from_secs(5), async {
                                let mut conn = match fe2o3_amqp::Connection::builder().container_id("client").open_with_stream(client_io).await {
                                    Ok(c) => c,
                                    Err(_) => return ("open_failed", 0u128),
                                };
                                let r = match conn.on_close().await {
                                    Ok(()) => "ok",
                                    Err(fe2o3_amqp::connection::Error::NotFound(_)) => "not_found",
                                    Err(fe2o3_amqp::connection::Error::IllegalState) => "illegal_state",
                                    Err(_) => "other_error",
                                };
                                (r, t0.elapsed().as_millis())
                            })
                            .await
                            .unwrap_or(("hang", 0));
                            let log = tokio::time::timeout(Duration::from_secs(2), peer).await.ok().and_then(|r| r.ok()).unwrap_or_default();
                            let saw_close_err = log.iter().any(|l| l == "close:err");
                            let waited = saw_close_err && !log.iter().any(|l| l == "send-failed") && took >= 250;
                            format!("{{\"handle\":\"{}\",\"waited_for_peer_close\":{},\"took_ms\":{},\"log\":{}}}", handle, waited, took, sp::json_list(&log))
                        }
                        // peer_detaches_receiver <with_error>: the peer closes a link whose local end is a Receiver (with / without
                        //   an error) while the application is in recv(). recv must return the failure AND the closing detach must
                        //   have been answered while the Receiver handle is still alive (nothing may be left to Drop).
                        "peer_detaches_receiver" => {
                            use fe2o3_amqp_types::performatives::Detach;
                            let with_error = arg.first().copied().unwrap_or(0) == 1;
                            let mut sent = false;
                            let peer = tokio::spawn(sp::run(peer_io, sp::PeerCfg::default(), move |f: &Frame, _log: &[String]| {
                                let mut act = sp::Act::default();
                                if let FrameBody::Flow(fl) = &f.body {
                                    if let (Some(h), false) = (fl.handle.clone(), sent) {
                                        sent = true;
                                        let error = if with_error { Some(defs::Error::new(defs::LinkError::DetachForced, Some("node deleted".to_string()), None)) } else { None };
                                        act.replies.push(Frame::new(f.channel, FrameBody::Detach(Detach { handle: h, closed: true, error })));
                                    }
                                }
                                // the client's answering detach needs no answer
                                if matches!(&f.body, FrameBody::Detach(_)) {
                                    act.handled = true;
                                }
                                act
                            }));
                            let client = tokio::time::timeout(Duration::from_secs(6), async {
                                let mut conn = fe2o3_amqp::Connection::builder().container_id("client").open_with_stream(client_io).await.map_err(|_| "open_failed")?;
                                let mut session = fe2o3_amqp::Session::begin(&mut conn).await.map_err(|_| "begin_failed")?;
                                let mut receiver = fe2o3_amqp::Receiver::attach(&mut session, "r-1", "q1").await.map_err(|_| "attach_failed")?;
                                let r = tokio::time::timeout(Duration::from_secs(2), receiver.recv::<String>()).await;
                                let res = match &r {
                                    Err(_) => "recv_hang",
                                    Ok(Ok(_)) => "recv_ok",
                                    Ok(Err(_)) => "recv_err",
                                };
                                tokio::time::sleep(Duration::from_millis(400)).await;
                                // nothing may be left to the Drop impl
                                std::mem::forget(receiver);
                                let _ = tokio::time::timeout(Duration::from_secs(1), session.end()).await;
                                let _ = tokio::time::timeout(Duration::from_secs(1), conn.close()).await;
                                Ok::<_, &'static str>(res)
                            })
                            .await
                            .unwrap_or(Err("hang"));
                            let log = tokio::time::timeout(Duration::from_secs(2), peer).await.ok().and_then(|r| r.ok()).unwrap_or_default();
                            let i_end = log.iter().position(|l| l.starts_with("end@") || l.starts_with("close")).unwrap_or(log.len());
                            let answered = log[..i_end].iter().any(|l| l.starts_with("detach:") && l.contains(":true:"));
                            format!("{{\"client\":\"{}\",\"answered_while_handle_alive\":{},\"log\":{}}}", client.unwrap_or_else(|e| e), answered, sp::json_list(&log))
                        }
                        // settle_second_progress: as settle_second with 3 deliveries, but the receiver first reports progress
                        //   (`received`, not settled) for the range 0..=2 and only then the terminal outcome of each delivery.
                        "settle_second_progress" => {
                            use fe2o3_amqp_types::definitions::{ReceiverSettleMode, Role};
                            use fe2o3_amqp_types::messaging::{Accepted, DeliveryState, Received};
                            use fe2o3_amqp_types::performatives::Disposition;
                            let n = 3u32;
                            let mut seen = 0u32;
                            let peer = tokio::spawn(sp::run(peer_io, sp::PeerCfg::default(), move |f: &Frame, _log: &[String]| {
                                let mut act = sp::Act::default();
                                if let FrameBody::Transfer { .. } = &f.body {
                                    seen += 1;
                                    if seen == n {
                                        let progress = Disposition { role: Role::Receiver, first: 0, last: Some(n - 1), settled: false, state: Some(DeliveryState::Received(Received { section_number: 0, section_offset: 0 })), batchable: false };
                                        act.replies.push(Frame::new(f.channel, FrameBody::Disposition(progress)));
                                        for id in 0..n {
                                            let d = Disposition { role: Role::Receiver, first: id, last: None, settled: false, state: Some(DeliveryState::Accepted(Accepted {})), batchable: false };
                                            act.replies.push(Frame::new(f.channel, FrameBody::Disposition(d)));
                                        }
                                    }
                                }
                                act
                            }));
                            let client = tokio::time::timeout(Duration::from_secs(8), async {
                                let mut conn = fe2o3_amqp::Connection::builder().container_id("client").open_with_stream(client_io).await.map_err(|_| "open_failed".to_string())?;
                                let mut session = fe2o3_amqp::Session::begin(&mut conn).await.map_err(|_| "begin_failed".to_string())?;
                                let mut sender = fe2o3_amqp::Sender::builder().name("s-1").target("q1").receiver_settle_mode(ReceiverSettleMode::Second).attach(&mut session).await.map_err(|_| "attach_failed".to_string())?;
                                let mut futs = Vec::new();
                                for k in 0..n {
                                    futs.push(sender.send_batchable(format!("m{}", k)).await.map_err(|_| "send_failed".to_string())?);
                                }
                                let mut resolved = 0;
                                for fut in futs {
                                    if let Ok(Ok(o)) = tokio::time::timeout(Duration::from_secs(2), fut).await {
                                        if o.is_accepted() {
                                            resolved += 1;
                                        }
                                    }
                                }
                                tokio::time::sleep(Duration::from_millis(300)).await;
                                let _ = tokio::time::timeout(Duration::from_secs(1), sender.close()).await;
                                let _ = tokio::time::timeout(Duration::from_secs(1), session.end()).await;
                                let _ = tokio::time::timeout(Duration::from_secs(1), conn.close()).await;
                                Ok::<_, String>(resolved)
                            })
                            .await
                            .unwrap_or(Err("hang".to_string()));
                            let log = tokio::time::timeout(Duration::from_secs(2), peer).await.ok().and_then(|r| r.ok()).unwrap_or_default();
                            let mut settled = vec![false; n as usize];
                            for l in log.iter().filter(|l| l.starts_with("disposition:Sender:") && l.contains(":settledtrue:Accepted")) {
                                let range = l.split(':').nth(2).unwrap_or("");
                                let mut it = range.split('-');
                                let first = it.next().and_then(|t| t.parse::<u32>().ok());
                                let last = it.next().and_then(|t| t.trim_start_matches("Some(").trim_end_matches(')').parse::<u32>().ok()).or(first);
                                if let (Some(a), Some(b)) = (first, last) {
                                    for id in a..=b.min(n - 1) {
                                        settled[id as usize] = true;
                                    }
                                }
                            }
                            let (res, c) = match &client { Ok(a) => (*a as i64, "ok".to_string()), Err(e) => (-1, e.clone()) };
                            format!("{{\"client\":\"{}\",\"resolved\":{},\"n\":{},\"all_settled_by_sender\":{},\"log\":{}}}", c, res, n, settled.iter().all(|x| *x), sp::json_list(&log))
                        }
                        // txn_settled_posts: real controller against the crate's own listener: under one transaction the posts
                        //   m1 (unsettled), m2 (pre-settled), m3 (unsettled), m4 (pre-settled); nothing is visible before the
                        //   commit; after it the listener's application receives m1..m4 in order.
                        "txn_settled_posts" => {
                            use fe2o3_amqp::acceptor::{ConnectionAcceptor, LinkAcceptor, LinkEndpoint, SessionAcceptor};
                            use fe2o3_amqp::transaction::{coordinator::ControlLinkAcceptor, Controller, Transaction, TransactionDischarge, TransactionPosting};
                            let _ = peer_io;
                            let (client_io, server_io) = tokio::io::duplex(64 * 1024);
                            let (seen_tx, mut seen) = tokio::sync::mpsc::unbounded_channel::<String>();
                            let listener = tokio::spawn(async move {
                                let acceptor = ConnectionAcceptor::builder().container_id("listener").build();
                                let mut connection = match acceptor.accept(server_io).await {
                                    Ok(c) => c,
                                    Err(_) => return,
                                };
                                let session_acceptor = SessionAcceptor::builder().control_link_acceptor(ControlLinkAcceptor::default()).build();
                                let mut session = match session_acceptor.accept(&mut connection).await {
                                    Ok(s) => s,
                                    Err(_) => return,
                                };
                                let link_acceptor = LinkAcceptor::builder().build();
                                let mut receiver = match link_acceptor.accept(&mut session).await {
                                    Ok(LinkEndpoint::Receiver(r)) => r,
                                    _ => return,
                                };
                                while let Ok(delivery) = receiver.recv::<String>().await {
                                    let _ = seen_tx.send(delivery.body().clone());
                                    if receiver.accept(&delivery).await.is_err() {
                                        break;
                                    }
                                }
                                drop(seen_tx);
                                tokio::time::sleep(Duration::from_secs(2)).await;
                                drop(receiver);
                                drop(session);
                                drop(connection);
                            });
                            let step = Duration::from_secs(5);
                            let res = tokio::time::timeout(Duration::from_secs(30), async {
                                let mut connection = fe2o3_amqp::Connection::builder().container_id("client").open_with_stream(client_io).await.map_err(|_| "open_failed")?;
                                let mut session = fe2o3_amqp::Session::begin(&mut connection).await.map_err(|_| "begin_failed")?;
                                let controller = Controller::attach(&mut session, "controller").await.map_err(|_| "controller_failed")?;
                                let mut sender = fe2o3_amqp::Sender::attach(&mut session, "sender", "q1").await.map_err(|_| "sender_failed")?;
                                let txn = tokio::time::timeout(step, Transaction::declare(&controller, None)).await.map_err(|_| "declare_timeout")?.map_err(|_| "declare_failed")?;
                                for (k, body) in ["m1", "m2", "m3", "m4"].iter().enumerate() {
                                    let sendable = fe2o3_amqp::Sendable::builder().message(body.to_string()).settled(k % 2 == 1).build();
                                    tokio::time::timeout(step, txn.post(&mut sender, sendable)).await.map_err(|_| "post_timeout")?.map_err(|_| "post_failed")?;
                                }
                                let visible_before = matches!(tokio::time::timeout(Duration::from_millis(400), seen.recv()).await, Ok(Some(_)));
                                tokio::time::timeout(step, txn.commit()).await.map_err(|_| "commit_timeout")?.map_err(|_| "commit_failed")?;
                                let mut got = Vec::new();
                                while got.len() < 4 {
                                    match tokio::time::timeout(Duration::from_millis(1500), seen.recv()).await {
                                        Ok(Some(b)) => got.push(b),
                                        _ => break,
                                    }
                                }
                                let _ = tokio::time::timeout(Duration::from_secs(1), sender.close()).await;
                                let _ = tokio::time::timeout(Duration::from_secs(1), controller.close()).await;
                                let _ = tokio::time::timeout(Duration::from_secs(1), session.end()).await;
                                let _ = tokio::time::timeout(Duration::from_secs(1), connection.close()).await;
                                Ok::<_, &'static str>((visible_before, got))
                            })
                            .await
                            .unwrap_or(Err("hang"));
                            listener.abort();
                            match res {
                                Ok((vb, got)) => format!("{{\"client\":\"ok\",\"visible_before_commit\":{},\"delivered\":{}}}", vb, sp::json_list(&got)),
                                Err(e) => format!("{{\"client\":\"{}\",\"visible_before_commit\":false,\"delivered\":[]}}", e),
                            }
                        }
                        // window_reopen_with_echo: the peer begins with incoming-window 1; the client sends three pre-settled
                        //   messages (two are held back); after the first transfer the peer reopens its window with a LINK flow
                        //   carrying echo=true. All three transfers must arrive.
                        "window_reopen_with_echo" => {
                            use fe2o3_amqp_types::performatives::Flow;
                            let mut reopened = false;
                            let cfg = sp::PeerCfg { credit: None, ..Default::default() };
                            let peer = tokio::spawn(sp::run(peer_io, sp::PeerCfg { credit: None, ..Default::default() }, move |f: &Frame, _log: &[String]| {
                                let mut act = sp::Act::default();
                                match &f.body {
                                    FrameBody::Attach(a) => {
                                        // link credit 100, but a session window of ONE frame
                                        act.replies = sp::default_answers(f, &cfg).0;
                                        act.replies.push(Frame::new(f.channel, FrameBody::Flow(Flow { next_incoming_id: Some(0), incoming_window: 1, next_outgoing_id: 0, outgoing_window: 2048, handle: Some(a.handle.clone()), delivery_count: Some(0), link_credit: Some(100), available: None, drain: false, echo: false, properties: None })));
                                        act.handled = true;
                                    }
                                    FrameBody::Begin(b) => {
                                        let mut b = b.clone();
                                        b.remote_channel = Some(f.channel);
                                        b.incoming_window = 1;
                                        act.replies.push(Frame::new(f.channel, FrameBody::Begin(b)));
                                        act.handled = true;
                                    }
                                    FrameBody::Transfer { performative, .. } if !reopened => {
                                        reopened = true;
                                        // give the client time to queue the other two behind the closed window
                                        act.pause_ms = 300;
                                        act.late_replies.push(Frame::new(f.channel, FrameBody::Flow(Flow { next_incoming_id: Some(1), incoming_window: 10, next_outgoing_id: 0, outgoing_window: 2048, handle: Some(performative.handle.clone()), delivery_count: Some(1), link_credit: Some(100), available: None, drain: false, echo: true, properties: None })));
                                    }
                                    _ => {}
                                }
                                act
                            }));
                            let client = tokio::time::timeout(Duration::from_secs(8), async {
                                let mut conn = fe2o3_amqp::Connection::builder().container_id("client").open_with_stream(client_io).await.map_err(|_| "open_failed")?;
                                let mut session = fe2o3_amqp::Session::begin(&mut conn).await.map_err(|_| "begin_failed")?;
                                let mut sender = fe2o3_amqp::Sender::attach(&mut session, "s-1", "q1").await.map_err(|_| "attach_failed")?;
                                for k in 0..3 {
                                    let m = fe2o3_amqp::Sendable::builder().message(format!("m{}", k)).settled(true).build();
                                    let _ = tokio::time::timeout(Duration::from_secs(2), sender.send(m)).await.map_err(|_| "send_timeout")?;
                                }
                                tokio::time::sleep(Duration::from_millis(500)).await;
                                let _ = tokio::time::timeout(Duration::from_secs(1), sender.close()).await;
                                let _ = tokio::time::timeout(Duration::from_secs(1), session.end()).await;
                                let _ = tokio::time::timeout(Duration::from_secs(1), conn.close()).await;
                                Ok::<_, &'static str>("ok")
                            })
                            .await
                            .unwrap_or(Err("hang"));
                            let log = tokio::time::timeout(Duration::from_secs(2), peer).await.ok().and_then(|r| r.ok()).unwrap_or_default();
                            let i_det = log.iter().position(|l| l.starts_with("detach:")).unwrap_or(log.len());
                            let n = log[..i_det].iter().filter(|l| l.starts_with("transfer:")).count();
                            // the messages are "m0", "m1", "m2": the last payload byte tells them apart
                            let tails: Vec<String> = log[..i_det].iter().filter(|l| l.starts_with("transfer:")).filter_map(|l| l.rsplit(":tail").next().map(|x| x.to_string())).collect();
                            let in_order = tails == vec![format!("{}", b'0'), format!("{}", b'1'), format!("{}", b'2')];
                            format!("{{\"client\":\"{}\",\"transfers_seen\":{},\"in_order\":{},\"log\":{}}}", client.unwrap_or_else(|e| e), n, in_order, sp::json_list(&log))
                        }
                        // cancel_recv_multi_frame: the peer sends one delivery in two transfer frames, 250 ms apart; the
                        //   application polls recv() under a 20 ms time-out (dropping the pending future each time) and must in
                        //   the end receive the delivery, whole, once, with no error.
                        "cancel_recv_multi_frame" => {
                            use fe2o3_amqp_types::definitions::Handle;
                            use fe2o3_amqp_types::performatives::Transfer;
                            use fe2o3_amqp_types::primitives::Binary;
                            fn xfer(ch: u16, handle: Handle, first: bool, body: Vec<u8>) -> Frame {
                                let performative = Transfer { handle, delivery_id: if first { Some(0) } else { None }, delivery_tag: if first { Some(Binary::from(vec![0u8, 0, 0, 0])) } else { None }, message_format: if first { Some(0) } else { None }, settled: if first { Some(true) } else { None }, more: first, rcv_settle_mode: None, state: None, resume: false, aborted: false, batchable: false };
                                Frame::new(ch, FrameBody::Transfer { performative, payload: Bytes::from(body) })
                            }
                            let mut sent = false;
                            let peer = tokio::spawn(sp::run(peer_io, sp::PeerCfg::default(), move |f: &Frame, _log: &[String]| {
                                let mut act = sp::Act::default();
                                if let FrameBody::Flow(fl) = &f.body {
                                    if let (Some(h), false) = (fl.handle.clone(), sent) {
                                        sent = true;
                                        // amqp-value section holding the 8-byte binary 01..08, cut in the middle
                                        act.replies.push(xfer(f.channel, h.clone(), true, vec![0x00, 0x53, 0x77, 0xa0, 0x08, 1, 2, 3]));
                                        act.pause_ms = 250;
                                        act.late_replies.push(xfer(f.channel, h, false, vec![4, 5, 6, 7, 8]));
                                    }
                                }
                                act
                            }));
                            let client = tokio::time::timeout(Duration::from_secs(8), async {
                                let mut conn = fe2o3_amqp::Connection::builder().container_id("client").open_with_stream(client_io).await.map_err(|_| "open_failed".to_string())?;
                                let mut session = fe2o3_amqp::Session::begin(&mut conn).await.map_err(|_| "begin_failed".to_string())?;
                                let mut receiver = fe2o3_amqp::Receiver::attach(&mut session, "r-1", "q1").await.map_err(|_| "attach_failed".to_string())?;
                                let mut dropped = 0u32;
                                let mut errors = 0u32;
                                let mut got: Vec<Vec<u8>> = Vec::new();
                                let t0 = std::time::Instant::now();
                                while t0.elapsed() < Duration::from_millis(1500) && got.is_empty() && errors == 0 {
                                    match tokio::time::timeout(Duration::from_millis(20), receiver.recv::<serde_bytes::ByteBuf>()).await {
                                        Ok(Ok(d)) => got.push(d.body().to_vec()),
                                        Ok(Err(_)) => errors += 1,
                                        Err(_) => dropped += 1,
                                    }
                                }
                                std::mem::forget(receiver);
                                let _ = tokio::time::timeout(Duration::from_secs(1), session.end()).await;
                                let _ = tokio::time::timeout(Duration::from_secs(1), conn.close()).await;
                                Ok::<_, String>((got, dropped, errors))
                            })
                            .await
                            .unwrap_or(Err("hang".to_string()));
                            peer.abort();
                            match client {
                                Ok((got, dropped, errors)) => {
                                    let intact = got.len() == 1 && got[0] == vec![1u8, 2, 3, 4, 5, 6, 7, 8];
                                    format!("{{\"client\":\"ok\",\"received\":{},\"intact\":{},\"lost\":{},\"errors\":{},\"recv_futures_dropped\":{}}}", got.len(), intact, if intact { 0 } else { 1 }, errors, dropped)
                                }
                                Err(e) => format!("{{\"client\":\"{}\",\"lost\":0,\"errors\":0}}", e),
                            }
                        }
                        // cancel_send_credit: a client-side sender is granted 8 credits; the connection's outgoing path is
                        //   back-pressured (tiny duplex, channel buffers of 1, a peer that stops reading for 1.2 s after the
                        //   attach). The application sends pre-settled messages under a 40 ms time-out (dropping pending send
                        //   futures) for 0.8 s. When the peer reads again it re-states its view (delivery-count = what it
                        //   received, credit = 8 - that). The sender must then be able to use the credit the receiver still
                        //   grants: one more send must complete.
                        // cancel_send_multi_frame: the peer's attach limits max-message-size to 16, so a 60-byte message goes out
                        //   as several transfers; same back-pressure and impatient application. No delivery may be left
                        //   unfinished on the wire (a frame with more=true followed by the first frame of another delivery).
                        "cancel_send_credit" | "cancel_send_multi_frame" => {
                            use fe2o3_amqp_types::performatives::Flow;
                            let multi = name == "cancel_send_multi_frame";
                            let _ = (client_io, peer_io);
                            let (client_io, peer_io) = tokio::io::duplex(48);
                            let cfg = sp::PeerCfg { credit: None, ..Default::default() };
                            let received = std::sync::Arc::new(std::sync::atomic::AtomicU32::new(0));
                            let received2 = received.clone();
                            let mut restated = false;
                            let peer = tokio::spawn(sp::run(peer_io, sp::PeerCfg { credit: None, ..Default::default() }, move |f: &Frame, _log: &[String]| {
                                let mut act = sp::Act::default();
                                match &f.body {
                                    FrameBody::Attach(a) => {
                                        let mut answers = sp::default_answers(f, &cfg).0;
                                        if multi {
                                            for fr in answers.iter_mut() {
                                                if let FrameBody::Attach(at) = &mut fr.body {
                                                    at.max_message_size = Some(16);
                                                }
                                            }
                                        }
                                        act.replies = answers;
                                        act.replies.push(Frame::new(f.channel, FrameBody::Flow(Flow { next_incoming_id: Some(0), incoming_window: 2048, next_outgoing_id: 0, outgoing_window: 2048, handle: Some(a.handle.clone()), delivery_count: Some(0), link_credit: Some(if multi { 100 } else { 8 }), available: None, drain: false, echo: false, properties: None })));
                                        act.handled = true;
                                        // stop reading: back-pressure on everything the client sends from now on
                                        act.pause_ms = 1200;
                                    }
                                    FrameBody::Transfer { performative, .. } => {
                                        if performative.delivery_id.is_some() && !performative.more || !multi {
                                            received2.fetch_add(1, std::sync::atomic::Ordering::SeqCst);
                                        }
                                        if !multi && !restated {
                                            // (sent once, after the back-pressure phase: the first transfer is read only then)
                                            restated = true;
                                        }
                                    }
                                    _ => {}
                                }
                                act
                            }));
                            let client = tokio::time::timeout(Duration::from_secs(12), async {
                                let mut conn = fe2o3_amqp::Connection::builder().container_id("client").buffer_size(1).open_with_stream(client_io).await.map_err(|_| "open_failed".to_string())?;
                                let mut session = fe2o3_amqp::Session::builder().buffer_size(1).begin(&mut conn).await.map_err(|_| "begin_failed".to_string())?;
                                let mut sender = fe2o3_amqp::Sender::attach(&mut session, "s-1", "q1").await.map_err(|_| "attach_failed".to_string())?;
                                let body = if multi { "0123456789".repeat(4) } else { "m".to_string() };
                                let mut completed = 0u32;
                                let mut dropped = 0u32;
                                let t0 = std::time::Instant::now();
                                while t0.elapsed() < Duration::from_millis(800) {
                                    let m = fe2o3_amqp::Sendable::builder().message(body.clone()).settled(true).build();
                                    match tokio::time::timeout(Duration::from_millis(40), sender.send(m)).await {
                                        Ok(Ok(_)) => completed += 1,
                                        Ok(Err(_)) => break,
                                        Err(_) => dropped += 1,
                                    }
                                }
                                // the peer reads again after 1.2 s; give everything queued time to arrive
                                tokio::time::sleep(Duration::from_millis(900)).await;
                                Ok::<_, String>((sender, session, conn, completed, dropped))
                            })
                            .await
                            .unwrap_or(Err("hang".to_string()));
                            match client {
                                Err(e) => {
                                    peer.abort();
                                    format!("{{\"client\":\"{}\",\"starved\":false,\"partial_deliveries\":0}}", e)
                                }
                                Ok((mut sender, mut session, mut conn, completed, dropped)) => {
                                    let seen = received.load(std::sync::atomic::Ordering::SeqCst);
                                    // one more send: the receiver still grants 8 - seen credits (if any)
                                    let m = fe2o3_amqp::Sendable::builder().message("last".to_string()).settled(true).build();
                                    let last = tokio::time::timeout(Duration::from_millis(1500), sender.send(m)).await;
                                    let starved = !multi && seen < 8 && last.is_err();
                                    std::mem::forget(sender);
                                    let _ = tokio::time::timeout(Duration::from_secs(1), session.end()).await;
                                    let _ = tokio::time::timeout(Duration::from_secs(1), conn.close()).await;
                                    let log = tokio::time::timeout(Duration::from_secs(2), peer).await.ok().and_then(|r| r.ok()).unwrap_or_default();
                                    // unfinished deliveries: a transfer with more=true directly followed by a transfer that starts another delivery
                                    let xs: Vec<&String> = log.iter().filter(|l| l.starts_with("transfer:")).collect();
                                    let mut partial = 0;
                                    for w in xs.windows(2) {
                                        if w[0].contains(":moretrue:") && w[1].contains(":idSome(") && !w[1].contains(":idSome(0)") {
                                            // (continuation frames carry no tag but the session stamps an id on tagged frames only)
                                            let new_delivery = w[1].contains(":settledSome(");
                                            if new_delivery {
                                                partial += 1;
                                            }
                                        }
                                    }
                                    if let Some(l) = xs.last() {
                                        if l.contains(":moretrue:") {
                                            partial += 1;
                                        }
                                    }
                                    if std::env::var("SCN_DEBUG").is_ok() {
                                        eprintln!("peer log: {:?}", log);
                                    }
                                    format!("{{\"client\":\"ok\",\"completed\":{},\"send_futures_dropped\":{},\"receiver_saw\":{},\"last_send_completed\":{},\"starved\":{},\"partial_deliveries\":{},\"transfers\":{}}}", completed, dropped, seen, last.is_ok(), starved, partial, xs.len())
                                }
                            }
                        }
                        // credit_without_delivery_count: the peer (receiver) grants a client-side sender 2 credits with a flow that
                        //   carries the handle and link-credit but NO delivery-count (legal: it has not seen the sender's yet).
                        //   A send must complete.
                        "credit_without_delivery_count" => {
                            use fe2o3_amqp_types::performatives::Flow;
                            let cfg = sp::PeerCfg { credit: None, ..Default::default() };
                            let peer = tokio::spawn(sp::run(peer_io, sp::PeerCfg { credit: None, ..Default::default() }, move |f: &Frame, _log: &[String]| {
                                let mut act = sp::Act::default();
                                if let FrameBody::Attach(a) = &f.body {
                                    act.replies = sp::default_answers(f, &cfg).0;
                                    act.replies.push(Frame::new(f.channel, FrameBody::Flow(Flow { next_incoming_id: Some(0), incoming_window: 2048, next_outgoing_id: 0, outgoing_window: 2048, handle: Some(a.handle.clone()), delivery_count: None, link_credit: Some(2), available: None, drain: false, echo: false, properties: None })));
                                    act.handled = true;
                                }
                                act
                            }));
                            let client = tokio::time::timeout(Duration::from_secs(6), async {
                                let mut conn = fe2o3_amqp::Connection::builder().container_id("client").open_with_stream(client_io).await.map_err(|_| "open_failed")?;
                                let mut session = fe2o3_amqp::Session::begin(&mut conn).await.map_err(|_| "begin_failed")?;
                                let mut sender = fe2o3_amqp::Sender::attach(&mut session, "s-1", "q1").await.map_err(|_| "attach_failed")?;
                                let m = fe2o3_amqp::Sendable::builder().message("m".to_string()).settled(true).build();
                                let sent = tokio::time::timeout(Duration::from_millis(1500), sender.send(m)).await.is_ok();
                                std::mem::forget(sender);
                                let _ = tokio::time::timeout(Duration::from_secs(1), session.end()).await;
                                let _ = tokio::time::timeout(Duration::from_secs(1), conn.close()).await;
                                Ok::<_, &'static str>(sent)
                            })
                            .await
                            .unwrap_or(Err("hang"));
                            let log = tokio::time::timeout(Duration::from_secs(2), peer).await.ok().and_then(|r| r.ok()).unwrap_or_default();
                            let arrived = log.iter().any(|l| l.starts_with("transfer:"));
                            format!("{{\"client\":\"{}\",\"send_completed\":{},\"log\":{}}}", match &client { Ok(_) => "ok", Err(e) => e }, matches!(client, Ok(true)) && arrived, sp::json_list(&log))
                        }
                        // idle_while_sending: the client configures idle_time_out(600 ms); the peer advertises 200 ms, so the
                        //   client sends a heartbeat every 200 ms; the peer itself stays silent. The client must report the idle
                        //   time-out (between 0.5 s and 1.6 s), although it keeps sending.
                        "idle_while_sending" => {
                            let cfg = sp::PeerCfg { idle_time_out: Some(200), ..Default::default() };
                            let peer = tokio::spawn(sp::run(peer_io, cfg, |_f: &Frame, _log: &[String]| sp::Act::default()));
                            let t0 = std::time::Instant::now();
                            let r = tokio::time::timeout(Duration::from_millis(3000), async {
                                let mut conn = match fe2o3_amqp::Connection::builder().container_id("client").idle_time_out(600u32).open_with_stream(client_io).await {
                                    Ok(c) => c,
                                    Err(_) => return "open_failed",
                                };
                                match conn.on_close().await {
                                    Err(fe2o3_amqp::connection::Error::TransportError(fe2o3_amqp::transport::Error::IdleTimeoutElapsed)) => "idle_timeout",
                                    Err(_) => "other_error",
                                    Ok(()) => "closed_ok",
                                }
                            })
                            .await
                            .unwrap_or("no_timeout");
                            let elapsed = t0.elapsed().as_millis();
                            peer.abort();
                            let result = if r == "idle_timeout" && (500..=1600).contains(&elapsed) { "idle_timeout" } else if r == "idle_timeout" { "idle_timeout_at_wrong_time" } else { r };
                            format!("{{\"result\":\"{}\",\"elapsed_ms\":{}}}", result, elapsed)
                        }
                        // empty_first_fragment: a delivery whose first transfer frame (more=true) has an EMPTY payload and carries
                        //   delivery-id, tag and format; the second frame carries the whole message and omits them.
                        "empty_first_fragment" => {
                            use fe2o3_amqp_types::definitions::Handle;
                            use fe2o3_amqp_types::performatives::Transfer;
                            use fe2o3_amqp_types::primitives::Binary;
                            fn xfer(ch: u16, handle: Handle, first: bool, body: Vec<u8>) -> Frame {
                                let performative = Transfer { handle, delivery_id: if first { Some(0) } else { None }, delivery_tag: if first { Some(Binary::from(vec![0u8, 0, 0, 0])) } else { None }, message_format: if first { Some(0) } else { None }, settled: if first { Some(true) } else { None }, more: first, rcv_settle_mode: None, state: None, resume: false, aborted: false, batchable: false };
                                Frame::new(ch, FrameBody::Transfer { performative, payload: Bytes::from(body) })
                            }
                            let mut sent = false;
                            let peer = tokio::spawn(sp::run(peer_io, sp::PeerCfg::default(), move |f: &Frame, _log: &[String]| {
                                let mut act = sp::Act::default();
                                if let FrameBody::Flow(fl) = &f.body {
                                    if let (Some(h), false) = (fl.handle.clone(), sent) {
                                        sent = true;
                                        act.replies.push(xfer(f.channel, h.clone(), true, vec![]));
                                        act.replies.push(xfer(f.channel, h, false, vec![0x00, 0x53, 0x77, 0xa0, 0x03, 1, 2, 3]));
                                    }
                                }
                                act
                            }));
                            let client = tokio::time::timeout(Duration::from_secs(6), async {
                                let mut conn = fe2o3_amqp::Connection::builder().container_id("client").open_with_stream(client_io).await.map_err(|_| "open_failed")?;
                                let mut session = fe2o3_amqp::Session::begin(&mut conn).await.map_err(|_| "begin_failed")?;
                                let mut receiver = fe2o3_amqp::Receiver::attach(&mut session, "r-1", "q1").await.map_err(|_| "attach_failed")?;
                                let r = tokio::time::timeout(Duration::from_secs(2), receiver.recv::<serde_bytes::ByteBuf>()).await;
                                let res = match r {
                                    Err(_) => "recv_timeout",
                                    Ok(Err(_)) => "recv_error",
                                    Ok(Ok(d)) if d.body().to_vec() == vec![1u8, 2, 3] => "intact",
                                    Ok(Ok(_)) => "wrong_body",
                                };
                                std::mem::forget(receiver);
                                let _ = tokio::time::timeout(Duration::from_secs(1), session.end()).await;
                                let _ = tokio::time::timeout(Duration::from_secs(1), conn.close()).await;
                                Ok::<_, &'static str>(res)
                            })
                            .await
                            .unwrap_or(Err("hang"));
                            peer.abort();
                            let res = client.unwrap_or_else(|e| e);
                            format!("{{\"client\":\"{}\",\"intact\":{}}}", res, res == "intact")
                        }
                        _ => "{\"error\":\"unknown scenario\"}".to_string(),
                    }
                })
            }
            _ => "{\"error\":\"unknown command\"}".to_string(),
        });
        match r {
            Ok(s) => println!("{}", s),
            Err(_) => println!("{{\"panic\":true}}"),
        }
    }
}
