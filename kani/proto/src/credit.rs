//! C08 sender link credit, C09 receiver link credit -- the real `LinkFlowState` step functions
//! over all 32-bit values (one step from an arbitrary state).

use fe2o3_amqp::verif_facade::*;

/// poll once with the standard library's no-op waker
pub fn poll1<F: std::future::Future + ?Sized>(fut: std::pin::Pin<&mut F>) -> std::task::Poll<F::Output> {
    let mut cx = std::task::Context::from_waker(std::task::Waker::noop());
    fut.poll(&mut cx)
}

fn any_inner(s: &mut crate::vsrc::S) -> VFlowInner {
    VFlowInner {
        initial_delivery_count: s.u32(),
        delivery_count: s.u32(),
        link_credit: s.u32(),
        available: s.u32(),
        drain: s.bool(),
    }
}

fn opt_u32(s: &mut crate::vsrc::S) -> Option<u32> {
    if s.bool() {
        Some(s.u32())
    } else {
        None
    }
}

// @unwind 2
// @bound one on_incoming_flow step from an arbitrary sender flow state; all 32-bit values
// @desc link-credit_snd := delivery-count_rcv + link-credit_rcv - delivery-count_snd in RFC-1982 serial arithmetic, floored at 0 when the deliveries in flight already exceed a reduced grant; unset delivery-count => initial; unset link-credit => unchanged; drain => credit 0, delivery-count advanced, flow returned; echo => flow returned
// @also C15
pharness!(c08_sender_on_incoming_flow, |s| {
    let pre = any_inner(s);
    let st = VSenderFlow::new(pre);
    let flow = VLinkFlow {
        handle: s.u32(),
        delivery_count: opt_u32(s),
        link_credit: opt_u32(s),
        available: opt_u32(s),
        drain: s.bool(),
        echo: s.bool(),
    };
    let out_handle = s.u32();
    let dc_rcv = flow.delivery_count.unwrap_or(pre.initial_delivery_count);
    let ret = st.on_incoming_flow(flow, out_handle);
    let post = st.snapshot();

    // deliveries the receiver has not seen yet (serial arithmetic) come out of its grant; if they
    // already exceed it (the receiver reduced the credit) nothing more may be sent: 0, not negative
    let expected_credit = match flow.link_credit {
        Some(lc_rcv) => {
            let in_flight = pre.delivery_count.wrapping_sub(dc_rcv);
            if in_flight <= lc_rcv {
                dc_rcv.wrapping_add(lc_rcv).wrapping_sub(pre.delivery_count)
            } else {
                0
            }
        }
        None => pre.link_credit,
    };
    if !flow.drain {
        assert!(post.link_credit == expected_credit, "[C08] link-credit_snd != delivery-count_rcv + link-credit_rcv - delivery-count_snd (serial arithmetic)");
        assert!(post.delivery_count == pre.delivery_count, "[C08] delivery-count changed by a non-drain flow");
        assert!(ret.is_some() == flow.echo, "[C08] echo request not honoured (or unsolicited flow)");
    } else {
        // drain: all credit used up / given back, delivery-count advanced by it, receiver told so
        assert!(post.link_credit == 0, "[C08] drain left credit behind");
        assert!(post.delivery_count == pre.delivery_count.wrapping_add(expected_credit), "[C08] drain did not advance delivery-count by the credit");
        assert!(matches!(ret, Some(f) if f.link_credit == Some(0) && f.delivery_count == Some(post.delivery_count) && f.handle == out_handle), "[C08] drain not answered with a zero-credit flow");
    }
    assert!(post.drain == flow.drain, "[C08] drain flag not mirrored");
    assert!(post.initial_delivery_count == pre.initial_delivery_count, "[C08] initial delivery-count modified");
    if let Some(f) = ret {
        assert!(f.link_credit == Some(post.link_credit) && f.delivery_count == Some(post.delivery_count), "[C08] returned flow does not report the stored state");
    }
    vcover!(s, flow.link_credit.is_some() && !flow.drain && dc_rcv > 0xffff_ff00 && expected_credit > 0 && dc_rcv.checked_add(flow.link_credit.unwrap()).is_none(), "grant whose limit wraps past 2^32");
    vcover!(s, flow.drain && expected_credit > 0, "drain with credit outstanding");
    vcover!(s, flow.link_credit.is_some() && !flow.drain && pre.delivery_count.wrapping_sub(dc_rcv) > flow.link_credit.unwrap() && pre.delivery_count.wrapping_sub(dc_rcv) < 100, "credit reduced below the deliveries in flight");
    vcover!(s, flow.delivery_count.is_none() && flow.link_credit.is_some(), "unset delivery-count");
    std::mem::forget(st);
});

// @unwind 2
// @bound one try_consume step from an arbitrary sender flow state; all 32-bit values; count = 1 (one credit per delivery)
// @desc consuming succeeds iff credit >= 1; then credit-1, delivery-count+1 (serial), tag = old delivery-count
pharness!(c08_sender_try_consume, |s| {
    let pre = any_inner(s);
    let st = VSenderFlow::new(pre);
    let (consumer, _producer) = st.split(std::sync::Arc::new(tokio::sync::Notify::new()));
    let r = consumer.try_consume(1);
    let post = st.snapshot();
    match r {
        Some(tag) => {
            assert!(pre.link_credit >= 1, "[C08] consumed credit that was not granted");
            assert!(post.link_credit == pre.link_credit - 1, "[C08] a delivery did not consume exactly one credit");
            assert!(post.delivery_count == pre.delivery_count.wrapping_add(1), "[C08] delivery-count not advanced by one");
            assert!(tag == pre.delivery_count.to_be_bytes(), "[C08] delivery tag is not the old delivery-count");
            vcover!(s, pre.delivery_count == u32::MAX, "delivery-count wraps");
        }
        None => {
            assert!(pre.link_credit == 0, "[C08] send refused although credit was available");
            assert!(post == pre, "[C08] refused consume changed the state");
            vcover!(s, true, "refused at zero credit");
        }
    }
    std::mem::forget((st, consumer, _producer));
});

// @tier probe
// @timeout 2400
// @mem 40
// @unwind 2
// @bound one consume(1) poll from an arbitrary sender flow state
// @desc async consume: Ready iff credit >= 1 with the same effects as try_consume; Pending leaves the state unchanged
pharness!(c08_sender_consume_poll, |s| {
    let pre = any_inner(s);
    let st = VSenderFlow::new(pre);
    let (consumer, _producer) = st.split(std::sync::Arc::new(tokio::sync::Notify::new()));
    // leaked: keeps the (recursive) drop glue of the flow state's `Option<Fields>` out of the formula
    let consumer: &'static VCreditConsumer = Box::leak(Box::new(consumer));
    let mut fut = Box::pin(consumer.consume(1));
    let p = poll1(fut.as_mut());
    let post = st.snapshot();
    match p {
        std::task::Poll::Ready(tag) => {
            assert!(pre.link_credit >= 1, "[C08] consumed credit that was not granted");
            assert!(post.link_credit == pre.link_credit - 1 && post.delivery_count == pre.delivery_count.wrapping_add(1), "[C08] a delivery did not consume exactly one credit");
            assert!(tag == pre.delivery_count.to_be_bytes(), "[C08] delivery tag is not the old delivery-count");
            vcover!(s, true, "ready");
        }
        std::task::Poll::Pending => {
            assert!(pre.link_credit == 0, "[C08] send blocked although credit was available");
            assert!(post == pre, "[C08] blocked consume changed the state");
            vcover!(s, true, "pending");
        }
    }
    std::mem::forget(fut);
    std::mem::forget((st, _producer));
});

// ---- C09 receiver ----

// @unwind 2
// @bound one consume(1) step from an arbitrary receiver flow state; all 32-bit values
// @desc a transfer is accepted iff credit >= 1 (else transfer-limit-exceeded, state unchanged); accepted => credit-1, delivery-count+1
pharness!(c09_receiver_consume, |s| {
    let pre = any_inner(s);
    let st = VReceiverFlow::new(pre);
    let r = st.consume(1);
    let post = st.snapshot();
    match r {
        Ok(()) => {
            assert!(pre.link_credit >= 1, "[C09] delivery accepted beyond the credit issued");
            assert!(post.link_credit == pre.link_credit - 1, "[C09] accepted delivery did not use exactly one credit");
            assert!(post.delivery_count == pre.delivery_count.wrapping_add(1), "[C09] delivery-count not advanced by the delivery received");
            vcover!(s, pre.delivery_count == u32::MAX, "delivery-count wraps");
        }
        Err(()) => {
            assert!(pre.link_credit == 0, "[C09] delivery within credit rejected");
            assert!(post == pre, "[C09] rejected delivery changed the state");
            vcover!(s, true, "overrun rejected");
        }
    }
    std::mem::forget(st);
});

// @unwind 2
// @bound one on_incoming_flow step from an arbitrary receiver flow state
// @desc delivery-count and available are mirrored from the sender's flow; credit stays the receiver's; echo honoured; the flow built reports exactly the stored state
// @also C15
pharness!(c09_receiver_on_incoming_flow, |s| {
    let pre = any_inner(s);
    let st = VReceiverFlow::new(pre);
    let flow = VLinkFlow {
        handle: s.u32(),
        delivery_count: opt_u32(s),
        link_credit: opt_u32(s),
        available: opt_u32(s),
        drain: s.bool(),
        echo: s.bool(),
    };
    let out_handle = s.u32();
    let ret = st.on_incoming_flow(flow, out_handle);
    let post = st.snapshot();
    assert!(post.delivery_count == flow.delivery_count.unwrap_or(pre.delivery_count), "[C09] sender's delivery-count not adopted");
    assert!(post.available == flow.available.unwrap_or(pre.available), "[C09] sender's available not adopted");
    assert!(post.link_credit == pre.link_credit, "[C09] the sender's flow changed the credit the receiver issued");
    assert!(ret.is_some() == flow.echo, "[C09] echo request not honoured");
    if let Some(f) = ret {
        assert!(f.delivery_count == Some(post.delivery_count) && f.link_credit == Some(post.link_credit) && f.handle == out_handle, "[C09] flow does not report the stored delivery-count/credit");
    }
    let f2 = st.as_link_flow(out_handle, false);
    assert!(f2.delivery_count == Some(post.delivery_count) && f2.link_credit == Some(post.link_credit) && f2.available == Some(post.available), "[C09] flow built from the state misreports it");
    vcover!(s, flow.echo && flow.delivery_count.is_some(), "echo with delivery-count");
    std::mem::forget(st);
});

// ---- lost wake-up: sequential symbolic schedule over the real Consumer/Producer/Notify ----

static mut GRANT_IN_WINDOW: bool = false;
static mut GRANT_CREDIT: u32 = 0;
static mut PRODUCER: Option<VCreditProducer> = None;
static mut GRANTED: bool = false;

fn grant_now() {
    unsafe {
        #[allow(static_mut_refs)]
        if let Some(p) = PRODUCER.as_mut() {
            let flow = VLinkFlow { handle: 0, delivery_count: None, link_credit: Some(GRANT_CREDIT), available: None, drain: false, echo: false };
            let mut f = Box::pin(p.produce(flow, 0));
            let r = poll1(f.as_mut());
            assert!(r.is_ready(), "produce is not expected to block");
            std::mem::forget(f);
            GRANTED = true;
        }
    }
}

fn window_hook() {
    unsafe {
        if GRANT_IN_WINDOW && !GRANTED {
            grant_now();
        }
    }
}

// @tier probe
// @timeout 2400
// @mem 40
// @unwind 3
// @bound one waiter, one granter; the grant (credit 1..=3) lands at one of three symbolic positions: before the first poll, inside the window between the failed credit check and the creation of the wait future (cfg hook schedule_point), or after the first poll; then the waiter is polled again
// @assume tokio::sync::Notify is executed as compiled (no stub); two OS threads racing inside Notify itself are not modelled
// @desc a send waiting for credit completes as soon as sufficient credit has been granted, wherever the grant lands relative to the start of the wait
pharness!(c08_lost_wakeup, |s| {
    let pre = VFlowInner { initial_delivery_count: 0, delivery_count: s.u32(), link_credit: 0, available: 0, drain: false };
    let st = VSenderFlow::new(pre);
    let (consumer, producer) = st.split(std::sync::Arc::new(tokio::sync::Notify::new()));
    let consumer: &'static VCreditConsumer = Box::leak(Box::new(consumer));
    let position = s.u8();
    s.assume(position < 3);
    let credit = s.u32();
    s.assume(credit >= 1 && credit <= 3);
    unsafe {
        PRODUCER = Some(producer);
        GRANT_CREDIT = credit;
        GRANT_IN_WINDOW = position == 1;
        GRANTED = false;
    }
    set_schedule_hook(Some(window_hook));
    if position == 0 {
        grant_now();
    }
    let mut fut = Box::pin(consumer.consume(1));
    let p1 = poll1(fut.as_mut());
    if position == 0 {
        assert!(p1.is_ready(), "[C08] credit granted before the send, yet the send blocks");
    } else {
        if position == 2 {
            assert!(p1.is_pending(), "[C08] send completed without credit");
            grant_now();
        }
        if p1.is_pending() {
            // sufficient credit has been granted by now; the waiter is polled (woken or not, a
            // spurious poll is always legal) -- and must complete
            let p2 = poll1(fut.as_mut());
            assert!(p2.is_ready(), "[C08] lost wake-up: credit was granted but the waiting send stays pending");
            vcover!(s, position == 1, "grant inside the check/wait window");
            vcover!(s, position == 2, "grant after the wait started");
        }
    }
    let post = st.snapshot();
    assert!(post.link_credit == credit - 1, "[C08] the completed send did not consume exactly one credit");
    set_schedule_hook(None);
    std::mem::forget(fut);
    std::mem::forget(st);
});
