//! C10 reassembly: the chained-buffer reader and the continuation-field merge, real code.

use bytes::Bytes;
use fe2o3_amqp::verif_facade::*;
use fe2o3_amqp_types::definitions::Handle;
use fe2o3_amqp_types::performatives::Transfer;
use serde_bytes::ByteBuf;
use std::io::Read;

fn transfer(handle: u32, delivery_id: Option<u32>, tag: Option<Vec<u8>>, fmt: Option<u32>, settled: Option<bool>, more: bool) -> Transfer {
    Transfer {
        handle: Handle(handle),
        delivery_id,
        delivery_tag: tag.map(ByteBuf::from),
        message_format: fmt,
        settled,
        more,
        rcv_settle_mode: None,
        state: None,
        resume: false,
        aborted: false,
        batchable: false,
    }
}

// @tier thorough
// @timeout 2400
// @mem 24
// @unwind 5
// @bound 6 payload bytes (all values) cut into 3 chunks at every pair of split points (empty chunks included), read back with every pair of read sizes 0..=6 followed by a read of the rest
// @desc the reader over the buffered chunks returns exactly the concatenation: nothing skipped, repeated or reordered, whatever the chunking and the read sizes
pharness!(c10_byte_reader_concat, |s| {
    let data: [u8; 6] = s.bytes::<6>();
    let a = s.usize();
    let b = s.usize();
    s.assume(a <= b && b <= 6);
    // one concrete-size allocation, sliced at the symbolic split points (no symbolic-size allocation)
    let whole = Bytes::copy_from_slice(&data);
    let chunks = vec![whole.slice(0..a), whole.slice(a..b), whole.slice(b..6)];
    std::mem::forget(whole);
    let mut rd = VByteReader::new(chunks);
    let n1 = s.usize();
    let n2 = s.usize();
    s.assume(n1 <= 6 && n2 <= 6);
    let mut out = [0u8; 18];
    let mut got = 0usize;
    let r1 = rd.read(&mut out[..n1]).unwrap();
    assert!(r1 <= n1, "[C10] read returned more than the buffer holds");
    got += r1;
    let r2 = rd.read(&mut out[got..got + n2]).unwrap();
    assert!(r2 <= n2, "[C10] read returned more than the buffer holds");
    got += r2;
    let r3 = rd.read(&mut out[got..got + 6]).unwrap();
    got += r3;
    // a read may only come back short when the data is exhausted
    assert!(r1 == n1 || r1 == 6, "[C10] short read although bytes remain");
    assert!(got == 6, "[C10] bytes lost or duplicated by the chained reader");
    assert!(out[0] == data[0] && out[1] == data[1] && out[2] == data[2] && out[3] == data[3] && out[4] == data[4] && out[5] == data[5], "[C10] chained reader returned different bytes");
    vcover!(s, a == 0 && b == 0, "two leading empty chunks");
    vcover!(s, a == 2 && b == 2 && n1 == 3, "read spanning an empty middle chunk");
    vcover!(s, a == 1 && b == 4 && n1 == 5, "read spanning three chunks");
    std::mem::forget(rd);
});

// @unwind 6
// @bound first frame and one continuation frame with symbolic optional delivery-id, message-format, settled and a 0..=2-byte delivery-tag each
// @desc continuation fields: omitted => first frame's value kept; repeated equal => accepted; contradictory => error (no spliced delivery); settled is sticky-true
pharness!(c10_or_assign_fields, |s| {
    let id1 = if s.bool() { Some(s.u32()) } else { None };
    let id2 = if s.bool() { Some(s.u32()) } else { None };
    let f1 = if s.bool() { Some(s.u32()) } else { None };
    let f2 = if s.bool() { Some(s.u32()) } else { None };
    let st1 = if s.bool() { Some(s.bool()) } else { None };
    let st2 = if s.bool() { Some(s.bool()) } else { None };
    let t1 = if s.bool() { Some(vec![s.u8()]) } else { None };
    let t2 = if s.bool() { Some(vec![s.u8()]) } else { None };
    let first = transfer(7, id1, t1.clone(), f1, st1, true);
    let cont = transfer(7, id2, t2.clone(), f2, st2, false);
    let mut inc = VIncompleteTransfer::new(first, Bytes::from_static(b"ab"));
    let r = inc.or_assign(cont);
    let contradict = |a: &Option<u32>, b: &Option<u32>| matches!((a, b), (Some(x), Some(y)) if x != y);
    let tag_contradict = matches!((&t1, &t2), (Some(x), Some(y)) if x != y);
    let bad = contradict(&id1, &id2) || contradict(&f1, &f2) || tag_contradict;
    match r {
        Err(()) => {
            assert!(bad, "[C10] consistent continuation frame rejected");
            vcover!(s, true, "contradiction reported");
        }
        Ok(()) => {
            assert!(!bad, "[C10] contradictory continuation fields accepted (spliced delivery)");
            let p = inc.performative();
            assert!(p.delivery_id == id1.or(id2), "[C10] delivery-id not carried over from the first frame");
            assert!(p.message_format == f1.or(f2), "[C10] message-format not carried over");
            let want_tag = t1.clone().or(t2.clone());
            assert!(p.delivery_tag.as_ref().map(|b| b.to_vec()) == want_tag, "[C10] delivery-tag not carried over");
            // settled: true on any frame so far => true
            let want_settled = match (st1, st2) {
                (Some(true), _) => Some(true),
                (Some(false), Some(v)) => Some(v),
                (Some(false), None) => Some(false),
                (None, v) => v,
            };
            assert!(p.settled == want_settled, "[C10] settled flag merged wrongly");
            vcover!(s, id1.is_some() && id2.is_none(), "continuation omits delivery-id");
            vcover!(s, id1.is_some() && id2 == id1, "continuation repeats delivery-id");
        }
    }
    std::mem::forget(inc);
});

// @tier thorough
// @timeout 2400
// @mem 24
// @unwind 5
// @bound three payload frames of 2 symbolic bytes each
// @desc appended chunks are kept in arrival order and read back as one contiguous payload
pharness!(c10_append_order, |s| {
    let d: [u8; 6] = s.bytes::<6>();
    let first = transfer(1, Some(0), Some(vec![1]), Some(0), None, true);
    let mut inc = VIncompleteTransfer::new(first, Bytes::copy_from_slice(&d[0..2]));
    inc.append(Bytes::copy_from_slice(&d[2..4]));
    inc.append(Bytes::copy_from_slice(&d[4..6]));
    assert!(inc.buffer().len() == 3, "[C10] a payload frame was dropped or merged");
    let mut rd = inc.into_reader();
    let mut out = [0u8; 6];
    let n = rd.read(&mut out).unwrap();
    assert!(n == 6, "[C10] reassembled payload has the wrong length");
    assert!(out[0] == d[0] && out[1] == d[1] && out[2] == d[2] && out[3] == d[3] && out[4] == d[4] && out[5] == d[5], "[C10] reassembled payload differs from the frames' payloads in order");
    vcover!(s, d[0] == 0 && d[1] == 0x53 && d[2] == 0x77, "payload containing a section header across a frame boundary");
});
