//! C11 channel uniqueness, C12 connection state machine, C17 channel-max -- the real
//! `Connection` transition functions from every state.

use fe2o3_amqp::frames::amqp::{Frame, FrameBody};
use fe2o3_amqp::verif_facade::*;
use fe2o3_amqp_types::definitions::{self, AmqpError};
use fe2o3_amqp_types::performatives::{ChannelMax, Close, MaxFrameSize, Open};
use fe2o3_amqp_types::states::ConnectionState;
use futures_util::Sink;
use std::pin::Pin;
use std::task::{Context, Poll};

use crate::credit::poll1;

pub fn open(channel_max: u16) -> Open {
    Open {
        container_id: String::new(),
        hostname: None,
        max_frame_size: MaxFrameSize(512),
        channel_max: ChannelMax(channel_max),
        idle_time_out: None,
        outgoing_locales: None,
        incoming_locales: None,
        offered_capabilities: None,
        desired_capabilities: None,
        properties: None,
    }
}

const N_STATES: u8 = 13;
pub fn state(i: u8) -> ConnectionState {
    match i {
        0 => ConnectionState::Start,
        1 => ConnectionState::HeaderReceived,
        2 => ConnectionState::HeaderSent,
        3 => ConnectionState::HeaderExchange,
        4 => ConnectionState::OpenPipe,
        5 => ConnectionState::OpenClosePipe,
        6 => ConnectionState::OpenReceived,
        7 => ConnectionState::OpenSent,
        8 => ConnectionState::ClosePipe,
        9 => ConnectionState::Opened,
        10 => ConnectionState::CloseReceived,
        11 => ConnectionState::CloseSent,
        12 => ConnectionState::Discarding,
        _ => ConnectionState::End,
    }
}
pub fn idx(s: &ConnectionState) -> u8 {
    match s {
        ConnectionState::Start => 0,
        ConnectionState::HeaderReceived => 1,
        ConnectionState::HeaderSent => 2,
        ConnectionState::HeaderExchange => 3,
        ConnectionState::OpenPipe => 4,
        ConnectionState::OpenClosePipe => 5,
        ConnectionState::OpenReceived => 6,
        ConnectionState::OpenSent => 7,
        ConnectionState::ClosePipe => 8,
        ConnectionState::Opened => 9,
        ConnectionState::CloseReceived => 10,
        ConnectionState::CloseSent => 11,
        ConnectionState::Discarding => 12,
        ConnectionState::End => 13,
    }
}

/// AMQP 1.0 section 2.4.6, connection state diagram, written from the specification:
/// `next(state, event)`; None = the event is illegal in that state.
#[derive(Clone, Copy)]
pub enum Ev {
    RecvOpen,
    SendOpen,
    RecvClose,
    SendClose,      // clean close
    SendCloseError, // close with an error: the endpoint then discards until the peer's close
}
pub fn spec_next(st: u8, ev: Ev) -> Option<u8> {
    // indices as in `state()`
    match (st, ev) {
        (3, Ev::RecvOpen) => Some(6),  // HDR_EXCH -> OPEN_RCVD
        (7, Ev::RecvOpen) => Some(9),  // OPEN_SENT -> OPENED
        (8, Ev::RecvOpen) => Some(11), // CLOSE_PIPE -> CLOSE_SENT
        (3, Ev::SendOpen) => Some(7),  // HDR_EXCH -> OPEN_SENT
        (6, Ev::SendOpen) => Some(9),  // OPEN_RCVD -> OPENED
        (2, Ev::SendOpen) => Some(4),  // HDR_SENT -> OPEN_PIPE
        (9, Ev::RecvClose) => Some(10), // OPENED -> CLOSE_RCVD
        (11, Ev::RecvClose) => Some(13), // CLOSE_SENT -> END
        (12, Ev::RecvClose) => Some(13), // DISCARDING -> END
        (9, Ev::SendClose) => Some(11), // OPENED -> CLOSE_SENT
        (10, Ev::SendClose) | (10, Ev::SendCloseError) => Some(13), // CLOSE_RCVD -> END
        (7, Ev::SendClose) => Some(8),  // OPEN_SENT -> CLOSE_PIPE
        (4, Ev::SendClose) => Some(5),  // OPEN_PIPE -> OC_PIPE
        (9, Ev::SendCloseError) | (7, Ev::SendCloseError) | (4, Ev::SendCloseError) => Some(12), // -> DISCARDING
        _ => None,
    }
}

/// A sink that is always ready and records what it is given.
pub struct RecSink {
    pub opens: u32,
    pub closes: u32,
    pub close_has_error: bool,
    pub others: u32,
}
impl RecSink {
    pub fn new() -> Self {
        RecSink { opens: 0, closes: 0, close_has_error: false, others: 0 }
    }
}
impl Sink<Frame> for RecSink {
    type Error = fe2o3_amqp::transport::Error;
    fn poll_ready(self: Pin<&mut Self>, _cx: &mut Context<'_>) -> Poll<Result<(), Self::Error>> {
        Poll::Ready(Ok(()))
    }
    fn start_send(mut self: Pin<&mut Self>, item: Frame) -> Result<(), Self::Error> {
        match &item.body {
            FrameBody::Open(_) => self.opens += 1,
            FrameBody::Close(c) => {
                self.closes += 1;
                self.close_has_error = c.error.is_some();
            }
            _ => self.others += 1,
        }
        std::mem::forget(item);
        Ok(())
    }
    fn poll_flush(self: Pin<&mut Self>, _cx: &mut Context<'_>) -> Poll<Result<(), Self::Error>> {
        Poll::Ready(Ok(()))
    }
    fn poll_close(self: Pin<&mut Self>, _cx: &mut Context<'_>) -> Poll<Result<(), Self::Error>> {
        Poll::Ready(Ok(()))
    }
}

// @unwind 1
// @bound every connection state (14) x local/remote channel-max (all 16-bit pairs)
// @also C17
// @desc a peer's open moves the connection exactly as the spec diagram says (illegal in any other state, state unchanged), and the agreed channel-max is min(local, remote)
pharness!(c12_on_incoming_open, |s| {
    let st = s.u8();
    s.assume(st <= N_STATES);
    let local = s.u16();
    let remote = s.u16();
    let mut c = VConnection::new(state(st), open(local));
    let r = c.on_incoming_open(open(remote));
    let post = idx(c.local_state());
    match spec_next(st, Ev::RecvOpen) {
        Some(n) => {
            assert!(r.is_ok(), "[C12] a legal open was refused");
            assert!(post == n, "[C12] open moved the connection to the wrong state");
            assert!(c.agreed_channel_max() == core::cmp::min(local, remote), "[C17] agreed channel-max is not the smaller of the two");
            vcover!(s, st == 7 && local > remote, "open-sent, peer has the smaller channel-max");
        }
        None => {
            assert!(r.is_err(), "[C12] an open that is illegal in this state was acted on");
            assert!(post == st, "[C12] an illegal open changed the state");
            vcover!(s, st == 9, "second open while opened");
        }
    }
    std::mem::forget(c);
    std::mem::forget(r);
});

// @unwind 1
// @bound every connection state (14) x error present/absent
// @desc a peer's close: OPENED->CLOSE_RCVD (must still be answered), CLOSE_SENT/DISCARDING->END; the caller learns the peer's error; illegal elsewhere
// @also C14
pharness!(c12_on_incoming_close, |s| {
    let st = s.u8();
    s.assume(st <= N_STATES);
    let with_error = s.bool();
    let mut c = VConnection::new(state(st), open(10));
    let close = Close { error: if with_error { Some(definitions::Error::new(AmqpError::InternalError, None, None)) } else { None } };
    let r = c.on_incoming_close(close);
    let post = idx(c.local_state());
    // states in which the implementation documents accepting a close: the spec diagram plus the
    // pipelined/half-open states where the peer may close early (mapped to CLOSE_RCVD)
    let accepted_early = st == 4 || st == 5 || st == 6 || st == 7;
    match spec_next(st, Ev::RecvClose) {
        Some(n) => {
            assert!(post == n, "[C12] close moved the connection to the wrong state");
            if n == 13 {
                // we had already sent our close: the handshake is complete
                assert!(r.is_ok() == !with_error, "[C12] clean close not reported clean / peer's error not reported");
            } else {
                // the peer closed first: reported to the caller, who must answer
                assert!(r.is_err(), "[C12] peer-initiated close not surfaced");
            }
            vcover!(s, st == 11 && with_error, "close with error after our close");
        }
        None if accepted_early => {
            assert!(post == 10 && r.is_err(), "[C12] early close from the peer not turned into CLOSE_RCVD");
        }
        None => {
            assert!(r.is_err() && post == st, "[C12] a close that is illegal in this state was acted on");
            vcover!(s, st == 13, "close after end");
        }
    }
    std::mem::forget(c);
    std::mem::forget(r);
});

// @tier probe
// @timeout 2400
// @mem 30
// @unwind 1
// @bound every connection state (14)
// @desc sending open: exactly one open frame written and nothing else; state follows the diagram; in a state where open is illegal the state is left unchanged
pharness!(c12_send_open, |s| {
    let st = s.u8();
    s.assume(st <= N_STATES);
    let mut c = VConnection::new(state(st), open(10));
    let mut sink = RecSink::new();
    let r = {
        let mut fut = Box::pin(c.send_open(&mut sink));
        let p = poll1(fut.as_mut());
        assert!(p.is_ready(), "an always-ready sink cannot block");
        let r = match p {
            Poll::Ready(r) => r,
            Poll::Pending => unreachable!(),
        };
        std::mem::forget(fut);
        r
    };
    let post = idx(c.local_state());
    assert!(sink.closes == 0 && sink.others == 0, "[C12] send_open wrote something other than an open");
    match spec_next(st, Ev::SendOpen) {
        Some(n) => {
            assert!(r.is_ok() && post == n, "[C12] sending open moved the connection to the wrong state");
            assert!(sink.opens == 1, "[C12] open not sent exactly once");
            vcover!(s, st == 6, "open answered");
        }
        None => {
            assert!(r.is_err(), "[C12] open sent in a state where it is illegal was reported as success");
            assert!(post == st, "[C12] illegal send_open changed the state");
            vcover!(s, st == 9, "second open refused");
        }
    }
    std::mem::forget(c);
    std::mem::forget(r);
});

// @tier probe
// @timeout 2400
// @mem 30
// @unwind 1
// @bound every connection state (14) x error present/absent
// @desc sending close: exactly one close frame carrying the caller's error; OPENED->CLOSE_SENT (clean) or DISCARDING (error), CLOSE_RCVD->END, pipelined states per the diagram; illegal elsewhere with the state unchanged
pharness!(c12_send_close, |s| {
    let st = s.u8();
    s.assume(st <= N_STATES);
    let with_error = s.bool();
    let mut c = VConnection::new(state(st), open(10));
    let mut sink = RecSink::new();
    let err = if with_error { Some(definitions::Error::new(AmqpError::InternalError, None, None)) } else { None };
    let r = {
        let mut fut = Box::pin(c.send_close(&mut sink, err));
        let p = poll1(fut.as_mut());
        let r = match p {
            Poll::Ready(r) => r,
            Poll::Pending => {
                assert!(false, "an always-ready sink cannot block");
                unreachable!()
            }
        };
        std::mem::forget(fut);
        r
    };
    let post = idx(c.local_state());
    assert!(sink.opens == 0 && sink.others == 0, "[C12] send_close wrote something other than a close");
    let ev = if with_error { Ev::SendCloseError } else { Ev::SendClose };
    match spec_next(st, ev) {
        Some(n) => {
            assert!(r.is_ok() && post == n, "[C12] sending close moved the connection to the wrong state");
            assert!(sink.closes == 1 && sink.close_has_error == with_error, "[C12] close not sent exactly once with the caller's error");
            vcover!(s, st == 10, "peer's close answered");
            vcover!(s, st == 9 && with_error, "close with error -> discarding");
        }
        None => {
            assert!(r.is_err(), "[C12] close in a state where it is illegal was reported as success");
            assert!(post == st, "[C12] illegal send_close changed the state");
            vcover!(s, st == 11, "second close refused");
        }
    }
    std::mem::forget(c);
    std::mem::forget(r);
});

// @tier probe
// @timeout 2400
// @mem 30
// @unwind 6
// @bound slab with up to 3 sessions in an arbitrary occupied/vacant pattern (built by allocating 3 and freeing a symbolic subset); agreed channel-max any 16-bit value; connection opened
// @desc a new session gets a channel that no live session holds and that is <= the agreed channel-max; otherwise ChannelMaxReached and nothing is allocated; a channel is reused only after its session was deallocated
pharness!(c17_allocate_session, |s| {
    let mut c = VConnection::new(ConnectionState::Opened, open(u16::MAX));
    let k = s.u8();
    s.assume(k <= 3);
    let mut i = 0u8;
    while i < k {
        let ch = c.allocate_session().unwrap();
        assert!(ch == i as u16, "fresh slab hands out consecutive channels");
        i += 1;
    }
    let free0 = s.bool();
    let free1 = s.bool();
    let free2 = s.bool();
    let mut live = [false; 4];
    let mut j = 0u8;
    while j < k {
        live[j as usize] = true;
        j += 1;
    }
    if free0 && k > 0 {
        c.deallocate_session(0);
        live[0] = false;
    }
    if free1 && k > 1 {
        c.deallocate_session(1);
        live[1] = false;
    }
    if free2 && k > 2 {
        c.deallocate_session(2);
        live[2] = false;
    }
    let max = s.u16();
    c.set_agreed_channel_max(max);
    let before = c.sessions();
    let r = c.allocate_session();
    match r {
        Ok(ch) => {
            assert!(ch <= max, "[C17] session begun on a channel above the agreed channel-max");
            assert!((ch as usize) < 4 && !live[ch as usize], "[C11] channel of a live session handed out again");
            assert!(c.channel_in_use(ch) && c.sessions() == before + 1, "[C11] allocation not recorded");
            vcover!(s, k == 3 && free1 && !free0 && ch == 1, "reuse of a vacated channel");
        }
        Err(_) => {
            // every free channel is above the agreed maximum
            let mut lowest_free = 0usize;
            while lowest_free < 4 && live[lowest_free] {
                lowest_free += 1;
            }
            assert!(lowest_free > max as usize, "[C17] allocation refused although a channel <= channel-max is free");
            assert!(c.sessions() == before, "[C17] refused allocation still occupied a channel");
            vcover!(s, max == 0 && k == 1 && !free0, "channel-max 0 with one session");
        }
    }
    std::mem::forget(c);
    std::mem::forget(r);
});

// @tier probe
// @timeout 2400
// @mem 30
// @unwind 1
// @bound every connection state (14)
// @desc sessions can only be begun while the connection is open (no begin before open, none after close)
pharness!(c12_allocate_session_state, |s| {
    let st = s.u8();
    s.assume(st <= N_STATES);
    let mut c = VConnection::new(state(st), open(10));
    let r = c.allocate_session();
    let closed_or_unopened = st <= 3 || st >= 11;
    if closed_or_unopened {
        assert!(r.is_err(), "[C12] session allocated on a connection that is not open / already closing");
    }
    vcover!(s, r.is_ok(), "allocated");
    vcover!(s, r.is_err(), "refused");
    std::mem::forget(c);
    std::mem::forget(r);
});
