//! Solver harnesses over fe2o3-amqp's protocol kernels through the cfg(fe2o3_amqp_verif) facade.
#![allow(clippy::all, dead_code, unused_imports, unused_macros)]

#[path = "../../vsrc.rs"]
#[macro_use]
pub mod vsrc;

#[path = "../../codec_util.rs"]
pub mod util;

#[macro_use]
pub mod stubs;
pub mod credit;
pub mod frames;
pub mod reasm;
pub mod conn;
pub mod saslh;

#[cfg(not(kani))]
include!(concat!(env!("OUT_DIR"), "/registry.rs"));
