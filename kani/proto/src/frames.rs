//! C06 frames on the wire, C15 misbehaving peer: the real frame codecs on symbolic bytes.

use bytes::{BufMut, BytesMut};
use fe2o3_amqp::frames::{amqp, sasl};
use fe2o3_amqp::verif_facade::*;
use tokio_util::codec::{Decoder, Encoder};

macro_rules! decode_short {
    ($name:ident, $n:expr, $codec:expr, $prop:literal) => {
        pharness!($name, |s| {
            let bytes: [u8; $n] = s.bytes::<$n>();
            let mut src = BytesMut::new();
            src.put_slice(&bytes);
            let mut dec = $codec;
            // the length-delimited layer hands the frame codec whatever the peer's size field
            // says: a size of 4..=7 yields a frame of 0..=3 bytes
            let r = dec.decode(&mut src);
            vcover!(s, true, "decoder returned");
            std::mem::forget(r);
            std::mem::forget(src);
        });
    };
}

// @unwind 3
// @bound every frame of exactly 0/1/2/3 bytes (what a peer's frame-size field of 4..7 produces)
// @desc the AMQP frame decoder returns Ok/Err on an undersized frame -- it must not panic
decode_short!(c15_amqp_decode_len0, 0, amqp::FrameDecoder {}, "C15");
decode_short!(c15_amqp_decode_len1, 1, amqp::FrameDecoder {}, "C15");
decode_short!(c15_amqp_decode_len2, 2, amqp::FrameDecoder {}, "C15");
decode_short!(c15_amqp_decode_len3, 3, amqp::FrameDecoder {}, "C15");
// @unwind 3
// @bound every SASL frame of exactly 0/1/2/3 bytes
decode_short!(c15_sasl_decode_len0, 0, sasl::FrameCodec {}, "C15");
decode_short!(c15_sasl_decode_len1, 1, sasl::FrameCodec {}, "C15");
decode_short!(c15_sasl_decode_len2, 2, sasl::FrameCodec {}, "C15");
decode_short!(c15_sasl_decode_len3, 3, sasl::FrameCodec {}, "C15");

// @unwind 3
// @bound every 4-byte frame (header only): doff, type, channel symbolic
// @desc a header-only frame is the empty (heartbeat) frame iff doff=2 and type=0, with the channel as sent; anything else is an error, never a panic
pharness!(c06_amqp_decode_header_only, |s| {
    let bytes: [u8; 4] = s.bytes::<4>();
    let mut src = BytesMut::new();
    src.put_slice(&bytes);
    let mut dec = amqp::FrameDecoder {};
    let r = dec.decode(&mut src);
    match &r {
        Ok(Some(f)) => {
            assert!(bytes[0] == 2 && bytes[1] == 0, "[C06] frame with wrong doff/type accepted");
            assert!(f.channel == u16::from_be_bytes([bytes[2], bytes[3]]), "[C06] channel decoded wrongly");
            assert!(matches!(f.body, amqp::FrameBody::Empty), "[C06] header-only frame is not the empty frame");
            vcover!(s, f.channel == 0x1234, "empty frame on channel 0x1234");
        }
        Ok(None) => assert!(false, "[C06] complete frame reported as incomplete"),
        Err(_) => {
            assert!(!(bytes[0] == 2 && bytes[1] == 0), "[C06] valid empty frame rejected");
            vcover!(s, true, "bad doff/type rejected");
        }
    }
    std::mem::forget(r);
    std::mem::forget(src);
});

// @unwind 3
// @bound the empty frame on every channel 0..=65535 through a FrameEncoder built for any max-frame-size in 512..=2^20
// @desc encode(empty frame) writes exactly doff=2, type=0, channel big-endian
pharness!(c06_amqp_encode_empty, |s| {
    let channel = s.u16();
    let mfs = s.u32() as usize;
    s.assume(mfs >= 512 && mfs <= (1 << 20));
    let mut enc = frame_encoder(mfs);
    let mut dst = BytesMut::new();
    let r = enc.encode(amqp::Frame { channel, body: amqp::FrameBody::Empty }, &mut dst);
    assert!(r.is_ok(), "[C06] encoding the empty frame failed");
    let be = channel.to_be_bytes();
    assert!(dst.len() == 4 && dst[0] == 2 && dst[1] == 0 && dst[2] == be[0] && dst[3] == be[1], "[C06] empty frame header bytes wrong");
    vcover!(s, channel == 0xabcd, "channel 0xabcd");
    std::mem::forget(dst);
});

// @unwind 3
// @bound all (first, last) pairs of 32-bit delivery ids, last optional
// @desc counting the deliveries a disposition range settles never overflows
pharness!(c15_num_messages_settled, |s| {
    let first = s.u32();
    let last = if s.bool() { Some(s.u32()) } else { None };
    let n = num_messages_settled_by_disposition(first, last);
    vcover!(s, n > 1, "range of several deliveries");
    let _ = n;
});

// ---- C06 (iii): transfer splitting by the real FrameEncoder at a small frame size ----
use fe2o3_amqp_types::definitions::Handle;
use fe2o3_amqp_types::performatives::Transfer;

macro_rules! transfer_split {
    ($name:ident, $plen:expr) => {
        // @tier probe
        // @timeout 2400
        // @mem 40
        // @unwind 8
        // @bound FrameEncoder::new(48) (frame body 44 bytes), channel and payload content symbolic, payload length concrete; transfer with handle, delivery-id, 1-byte tag, message-format
        // @desc every emitted frame starts with a frame header, is at most the frame size, all but the last are exactly the frame size and carry more=true, only the first carries delivery-id/tag/format, the payload chunks concatenate to the payload
        pharness!($name, |s| {
            let channel = s.u16();
            let payload: [u8; $plen] = s.bytes::<$plen>();
            let t = Transfer {
                handle: Handle(1),
                delivery_id: Some(7),
                delivery_tag: Some(serde_bytes::ByteBuf::from(vec![0x2a])),
                message_format: Some(0),
                settled: None,
                more: false,
                rcv_settle_mode: None,
                state: None,
                resume: false,
                aborted: false,
                batchable: false,
            };
            let mut enc = frame_encoder(48);
            let mut dst = BytesMut::new();
            let r = enc.encode(amqp::Frame { channel, body: amqp::FrameBody::Transfer { performative: t, payload: bytes::Bytes::copy_from_slice(&payload) } }, &mut dst);
            assert!(r.is_ok(), "[C06] encoding a transfer failed");
            // walk the emitted bytes frame by frame: every frame is 48 bytes except the last
            let total = dst.len();
            let mut off = 0usize;
            let mut frames = 0usize;
            let mut got = 0usize;
            let mut decoded = [0u8; $plen];
            while off < total && frames < 6 {
                let end = if total - off > 48 { off + 48 } else { total };
                assert!(dst[off] == 2 && dst[off + 1] == 0 && dst[off + 2] == channel.to_be_bytes()[0] && dst[off + 3] == channel.to_be_bytes()[1], "[C06] chunk does not start with a frame header");
                let mut src = BytesMut::from(&dst[off..end]);
                let f = (amqp::FrameDecoder {}).decode(&mut src);
                match f {
                    Ok(Some(amqp::Frame { body: amqp::FrameBody::Transfer { performative, payload: p }, .. })) => {
                        let last = end == total;
                        assert!(performative.more == !last, "[C06] more flag wrong");
                        if frames == 0 {
                            assert!(performative.delivery_id == Some(7), "[C06] first frame lost the delivery-id");
                        } else {
                            assert!(performative.delivery_id.is_none() && performative.delivery_tag.is_none() && performative.message_format.is_none(), "[C06] continuation frame repeats first-frame fields");
                        }
                        let mut i = 0;
                        while i < p.len() && got < $plen {
                            decoded[got] = p[i];
                            got += 1;
                            i += 1;
                        }
                        std::mem::forget(performative);
                        std::mem::forget(p);
                    }
                    _ => assert!(false, "[C06] emitted chunk does not decode as a transfer frame"),
                }
                std::mem::forget(src);
                off = end;
                frames += 1;
            }
            assert!(got == $plen, "[C06] payload bytes lost or duplicated across frames");
            let mut i = 0;
            while i < $plen {
                assert!(decoded[i] == payload[i], "[C06] payload changed by splitting");
                i += 1;
            }
            vcover!(s, frames >= 2, "multi-frame");
            std::mem::forget(dst);
        });
    };
}
transfer_split!(c06_transfer_split_len40, 40);

// ---- C06 (ii): the repo's length-delimited decoder configuration under stream fragmentation ----
macro_rules! prefix_split {
    ($name:ident, $k:expr) => {
        // @tier thorough
        // @timeout 2400
        // @mem 24
        // @unwind 12
        // @bound an 8-byte stream prefix with every value of the 4-byte size field, delivered as the first K bytes and then the rest (K concrete per harness, K = 0..8, i.e. every boundary inside the size field and the frame header); decoder built by the repo's length_delimited_decoder(512)
        // @desc the frame handed to the AMQP frame decoder is independent of how the bytes were split across reads; sizes above max-frame-size or below 4 are rejected, not mis-framed
        pharness!($name, |s| {
            let stream: [u8; 8] = s.bytes::<8>();
            let size = u32::from_be_bytes([stream[0], stream[1], stream[2], stream[3]]);
            // whole stream at once
            let mut whole = BytesMut::new();
            whole.put_slice(&stream);
            let mut d1 = length_delimited_decoder(512);
            let r1 = d1.decode(&mut whole);
            // split delivery
            let mut part = BytesMut::new();
            part.put_slice(&stream[..$k]);
            let mut d2 = length_delimited_decoder(512);
            let first = d2.decode(&mut part);
            let r2 = match first {
                Ok(None) => {
                    part.put_slice(&stream[$k..]);
                    d2.decode(&mut part)
                }
                other => other,
            };
            match (&r1, &r2) {
                (Ok(Some(a)), Ok(Some(b))) => {
                    assert!(a.len() == b.len(), "[C06] frame length depends on how the stream was split");
                    assert!(size >= 4 && size <= 8 && a.len() == (size - 4) as usize, "[C06] frame body is not size-4 bytes");
                    let mut i = 0;
                    while i < a.len() {
                        assert!(a[i] == b[i] && a[i] == stream[4 + i], "[C06] frame bytes depend on how the stream was split");
                        i += 1;
                    }
                    vcover!(s, a.len() == 4, "4-byte frame reassembled");
                }
                (Ok(None), Ok(None)) => {
                    assert!(size > 8 && size <= 512, "[C06] a complete frame was reported incomplete");
                }
                (Err(_), Err(_)) => {
                    assert!(size < 4 || size > 512, "[C06] a frame within max-frame-size was rejected");
                    vcover!(s, size > 512, "oversized frame rejected");
                }
                _ => assert!(false, "[C06] decoding depends on how the stream was split"),
            }
            std::mem::forget((r1, r2, whole, part));
        });
    };
}
prefix_split!(c06_prefix_split_k1, 1);
prefix_split!(c06_prefix_split_k3, 3);
prefix_split!(c06_prefix_split_k4, 4);
prefix_split!(c06_prefix_split_k6, 6);
