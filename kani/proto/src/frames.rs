//! C06 frames on the wire, C15 misbehaving peer: the real frame codecs on symbolic bytes.

use bytes::{BufMut, BytesMut};
use fe2o3_amqp::frames::{amqp, sasl};
use fe2o3_amqp::verif_facade::*;
use tokio_util::codec::{Decoder, Encoder};

macro_rules! decode_short {
    ($name:ident, $n:expr, $codec:expr, $prop:literal) => {
        pharness!($name, |s| {
            let bytes: [u8; $n] = s.bytes::<$n>();
            let mut src = BytesMut::new();
            src.put_slice(&bytes);
            let mut dec = $codec;
            // the length-delimited layer hands the frame codec whatever the peer's size field
            // says: a size of 4..=7 yields a frame of 0..=3 bytes
            let r = dec.decode(&mut src);
            vcover!(s, true, "decoder returned");
            std::mem::forget(r);
            std::mem::forget(src);
        });
    };
}

// @unwind 3
// @bound every frame of exactly 0/1/2/3 bytes (what a peer's frame-size field of 4..7 produces)
// @desc the AMQP frame decoder returns Ok/Err on an undersized frame -- it must not panic
decode_short!(c15_amqp_decode_len0, 0, amqp::FrameDecoder {}, "C15");
decode_short!(c15_amqp_decode_len1, 1, amqp::FrameDecoder {}, "C15");
decode_short!(c15_amqp_decode_len2, 2, amqp::FrameDecoder {}, "C15");
decode_short!(c15_amqp_decode_len3, 3, amqp::FrameDecoder {}, "C15");
// @unwind 3
// @bound every SASL frame of exactly 0/1/2/3 bytes
decode_short!(c15_sasl_decode_len0, 0, sasl::FrameCodec {}, "C15");
decode_short!(c15_sasl_decode_len1, 1, sasl::FrameCodec {}, "C15");
decode_short!(c15_sasl_decode_len2, 2, sasl::FrameCodec {}, "C15");
decode_short!(c15_sasl_decode_len3, 3, sasl::FrameCodec {}, "C15");

// @unwind 3
// @bound every 4-byte frame (header only): doff, type, channel symbolic
// @desc a header-only frame is the empty (heartbeat) frame iff doff=2 and type=0, with the channel as sent; anything else is an error, never a panic
pharness!(c06_amqp_decode_header_only, |s| {
    let bytes: [u8; 4] = s.bytes::<4>();
    let mut src = BytesMut::new();
    src.put_slice(&bytes);
    let mut dec = amqp::FrameDecoder {};
    let r = dec.decode(&mut src);
    match &r {
        Ok(Some(f)) => {
            assert!(bytes[0] == 2 && bytes[1] == 0, "[C06] frame with wrong doff/type accepted");
            assert!(f.channel == u16::from_be_bytes([bytes[2], bytes[3]]), "[C06] channel decoded wrongly");
            assert!(matches!(f.body, amqp::FrameBody::Empty), "[C06] header-only frame is not the empty frame");
            vcover!(s, f.channel == 0x1234, "empty frame on channel 0x1234");
        }
        Ok(None) => assert!(false, "[C06] complete frame reported as incomplete"),
        Err(_) => {
            assert!(!(bytes[0] == 2 && bytes[1] == 0), "[C06] valid empty frame rejected");
            vcover!(s, true, "bad doff/type rejected");
        }
    }
    std::mem::forget(r);
    std::mem::forget(src);
});

// @unwind 3
// @bound the empty frame on every channel 0..=65535 through a FrameEncoder built for any max-frame-size in 512..=2^20
// @desc encode(empty frame) writes exactly doff=2, type=0, channel big-endian
pharness!(c06_amqp_encode_empty, |s| {
    let channel = s.u16();
    let mfs = s.u32() as usize;
    s.assume(mfs >= 512 && mfs <= (1 << 20));
    let mut enc = frame_encoder(mfs);
    let mut dst = BytesMut::new();
    let r = enc.encode(amqp::Frame { channel, body: amqp::FrameBody::Empty }, &mut dst);
    assert!(r.is_ok(), "[C06] encoding the empty frame failed");
    let be = channel.to_be_bytes();
    assert!(dst.len() == 4 && dst[0] == 2 && dst[1] == 0 && dst[2] == be[0] && dst[3] == be[1], "[C06] empty frame header bytes wrong");
    vcover!(s, channel == 0xabcd, "channel 0xabcd");
    std::mem::forget(dst);
});

// @unwind 3
// @bound all (first, last) pairs of 32-bit delivery ids, last optional
// @desc counting the deliveries a disposition range settles never overflows
pharness!(c15_num_messages_settled, |s| {
    let first = s.u32();
    let last = if s.bool() { Some(s.u32()) } else { None };
    let n = num_messages_settled_by_disposition(first, last);
    vcover!(s, n > 1, "range of several deliveries");
    let _ = n;
});
