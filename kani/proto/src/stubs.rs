//! Kani stubs shared by the protocol harnesses (each one is part of the claim).
//! parking_lot's contended slow paths park the thread (thread-local with destructor: Kani ICE).
//! A sequential harness never contends, so reaching a slow path is reported as a failure,
//! never assumed away.

#[cfg(kani)]
pub fn lock_exclusive_slow(_l: &parking_lot::RawRwLock, _t: Option<std::time::Instant>) -> bool {
    panic!("parking_lot lock_exclusive_slow reached in a sequential harness")
}
#[cfg(kani)]
pub fn unlock_exclusive_slow(_l: &parking_lot::RawRwLock, _force_fair: bool) {
    panic!("parking_lot unlock_exclusive_slow reached in a sequential harness")
}
#[cfg(kani)]
pub fn lock_shared_slow(_l: &parking_lot::RawRwLock, _recursive: bool, _t: Option<std::time::Instant>) -> bool {
    panic!("parking_lot lock_shared_slow reached in a sequential harness")
}
#[cfg(kani)]
pub fn unlock_shared_slow(_l: &parking_lot::RawRwLock) {
    panic!("parking_lot unlock_shared_slow reached in a sequential harness")
}

/// `HashMap::new()` seeds its hasher from the OS RNG (a foreign call Kani cannot execute). The
/// harnesses never hash; fixed keys.
#[cfg(kani)]
pub fn random_state_new() -> std::collections::hash_map::RandomState {
    // RandomState is two u64 keys
    unsafe { std::mem::transmute::<[u64; 2], std::collections::hash_map::RandomState>([0, 0]) }
}

/// `pharness!(name, |s| { body })`: like `harness!` plus the parking_lot slow-path stubs.
#[macro_export]
macro_rules! pharness {
    ($name:ident, |$s:ident| $body:block) => {
        #[cfg(kani)]
        #[kani::proof]
        #[kani::stub(alloc::fmt::format, $crate::vsrc::stub_format)]
        #[kani::stub(std::collections::hash_map::RandomState::new, $crate::stubs::random_state_new)]
        #[kani::stub(parking_lot::RawRwLock::lock_exclusive_slow, $crate::stubs::lock_exclusive_slow)]
        #[kani::stub(parking_lot::RawRwLock::unlock_exclusive_slow, $crate::stubs::unlock_exclusive_slow)]
        #[kani::stub(parking_lot::RawRwLock::lock_shared_slow, $crate::stubs::lock_shared_slow)]
        #[kani::stub(parking_lot::RawRwLock::unlock_shared_slow, $crate::stubs::unlock_shared_slow)]
        pub fn $name() {
            let mut src = $crate::vsrc::S;
            let $s = &mut src;
            $body
        }
        #[cfg(not(kani))]
        pub fn $name($s: &mut $crate::vsrc::S) $body
    };
}
