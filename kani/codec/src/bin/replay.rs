#[cfg(not(kani))]
fn main() {
    vcodec::vsrc::replay_main(vcodec::lookup)
}
#[cfg(kani)]
fn main() {}
