//! (filled in later)
