//! (filled in later)
