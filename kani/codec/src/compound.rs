//! Compounds with stack-only element types. Encode through the real `Serializer<W>` into a stack
//! buffer; decode through the real `Deserializer` into tuples / stack visitors (no Vec, no maps).

use crate::strs::enc;
use crate::util::*;
use serde::de::{self, Deserializer as _, MapAccess, SeqAccess, Visitor};
use serde::ser::{SerializeMap, SerializeSeq, Serializer as _};
use serde::Serialize;
use serde_amqp::de::Deserializer;
use serde_amqp::read::SliceReader;
use serde_amqp::ser::Serializer;
use serde_amqp::{from_slice, serialized_size};
use std::fmt;

// @unwind 6
// @bound tuple (u8, u16, i32) -- all values
// @also C05,C20
harness!(c03_rt_tuple3, |s| {
    let x = (s.u8(), s.u16(), s.u32() as i32);
    let w = enc::<(u8, u16, i32), 24>(&x);
    let v = w.out();
    let (hdr, body, count) = parse_compound(v, Some(LIST0), LIST8, LIST32).expect("[C05] not a list");
    assert!(count == 3, "[C05] list count != number of elements");
    assert!(v.len() == hdr + body, "[C05] list size field does not count count+items");
    assert!(valid_fixed(&v[hdr..hdr + 2], UBYTE, &[x.0]) && valid_fixed(&v[hdr + 2..hdr + 5], USHORT, &x.1.to_be_bytes()) && valid_int(&v[hdr + 5..], x.2), "[C05] list items are not the element encodings in order");
    assert!(serialized_size(&x).unwrap() == v.len(), "[C20] serialized_size(tuple) != encoded length");
    let y: (u8, u16, i32) = from_slice(v).unwrap();
    assert!(x == y, "[C03] tuple did not round-trip");
    vcover!(s, x.2 == -1, "small negative int inside a list");
});

/// every visit_* not listed returns Ok($v): keeps serde's default `invalid_type` (Display of
/// `Unexpected`, float formatting) out of the formula
macro_rules! accept_rest {
    ($val:ty, $v:expr; $($m:ident : $t:ty),* $(,)?) => {
        $(fn $m<E: de::Error>(self, _v: $t) -> Result<$val, E> { Ok($v) })*
    };
}
pub struct ElemU16;
struct ElemU16V;
impl<'de> Visitor<'de> for ElemU16V {
    type Value = u16;
    fn expecting(&self, f: &mut fmt::Formatter) -> fmt::Result {
        f.write_str("u16")
    }
    fn visit_u16<E: de::Error>(self, v: u16) -> Result<u16, E> {
        Ok(v)
    }
    accept_rest!(u16, 0; visit_bool: bool, visit_i8: i8, visit_i16: i16, visit_i32: i32, visit_i64: i64, visit_u8: u8, visit_u32: u32, visit_u64: u64, visit_f32: f32, visit_f64: f64, visit_char: char, visit_str: &str, visit_string: String, visit_bytes: &[u8], visit_byte_buf: Vec<u8>);
}
impl<'de> de::DeserializeSeed<'de> for ElemU16 {
    type Value = u16;
    fn deserialize<D: de::Deserializer<'de>>(self, d: D) -> Result<u16, D::Error> {
        d.deserialize_u16(ElemU16V)
    }
}
pub struct ElemU8;
struct ElemU8V;
impl<'de> Visitor<'de> for ElemU8V {
    type Value = u8;
    fn expecting(&self, f: &mut fmt::Formatter) -> fmt::Result {
        f.write_str("u8")
    }
    fn visit_u8<E: de::Error>(self, v: u8) -> Result<u8, E> {
        Ok(v)
    }
    accept_rest!(u8, 0; visit_bool: bool, visit_i8: i8, visit_i16: i16, visit_i32: i32, visit_i64: i64, visit_u16: u16, visit_u32: u32, visit_u64: u64, visit_f32: f32, visit_f64: f64, visit_char: char, visit_str: &str, visit_string: String, visit_bytes: &[u8], visit_byte_buf: Vec<u8>);
}
impl<'de> de::DeserializeSeed<'de> for ElemU8 {
    type Value = u8;
    fn deserialize<D: de::Deserializer<'de>>(self, d: D) -> Result<u8, D::Error> {
        d.deserialize_u8(ElemU8V)
    }
}

/// serde sequence of 0..=2 u16 driven through serialize_seq (what Vec<T> / slices do)
pub struct Seq2(pub u8, pub [u16; 2]);
impl Serialize for Seq2 {
    fn serialize<S: serde::Serializer>(&self, se: S) -> Result<S::Ok, S::Error> {
        let mut q = se.serialize_seq(Some(self.0 as usize))?;
        if self.0 >= 1 {
            q.serialize_element(&self.1[0])?;
        }
        if self.0 >= 2 {
            q.serialize_element(&self.1[1])?;
        }
        q.end()
    }
}
/// visitor collecting up to 2 u16 elements on the stack
pub struct Collect2;
impl<'de> Visitor<'de> for Collect2 {
    type Value = (u8, [u16; 2]);
    fn expecting(&self, f: &mut fmt::Formatter) -> fmt::Result {
        f.write_str("seq of u16")
    }
    fn visit_seq<A: SeqAccess<'de>>(self, mut a: A) -> Result<Self::Value, A::Error> {
        let mut out = [0u16; 2];
        let mut n = 0u8;
        while n < 2 {
            match a.next_element_seed(ElemU16)? {
                Some(v) => {
                    out[n as usize] = v;
                    n += 1;
                }
                None => return Ok((n, out)),
            }
        }
        // a third element would be a count mismatch
        match a.next_element_seed(ElemU16)? {
            Some(_) => Ok((3, out)),
            None => Ok((n, out)),
        }
    }
}

macro_rules! list_rt {
    ($name:ident, $n:expr) => {
        // @unwind 6
        // @bound sequence of exactly N u16 (serialize_seq = list encoding), all element values; N concrete so that no allocation has a symbolic size
        // @also C05,C20
        harness!($name, |s| {
            let n: u8 = $n;
            let x = Seq2(n, [s.u16(), s.u16()]);
            let w = enc::<Seq2, 24>(&x);
            let v = w.out();
            let (hdr, body, count) = parse_compound(v, Some(LIST0), LIST8, LIST32).expect("[C05] not a list");
            assert!(count == n as usize && v.len() == hdr + body && body == 3 * n as usize, "[C05] list header wrong");
            assert!(serialized_size(&x).unwrap() == v.len(), "[C20] serialized_size(list) != encoded length");
            let mut d = Deserializer::new(SliceReader::new(v));
            let (m, out) = (&mut d).deserialize_seq(Collect2).unwrap();
            assert!(m == n && (n < 1 || out[0] == x.1[0]) && (n < 2 || out[1] == x.1[1]), "[C03] list did not round-trip");
            vcover!(s, true, "reached");
        });
    };
}
list_rt!(c03_rt_list_u16_n0, 0);
list_rt!(c03_rt_list_u16_n1, 1);
// @tier-of c03_rt_list_u16_n2 thorough
// @mem 24
list_rt!(c03_rt_list_u16_n2, 2);

macro_rules! array_rt {
    ($name:ident, $n:expr) => {
        // @unwind 6
        // @bound Array of exactly N u16, all element values (encode through the real Array type, decode through deserialize_seq)
        // @also C05,C20
        harness!($name, |s| {
            let n: u8 = $n;
            let e = [s.u16(), s.u16()];
            let mut vals: Vec<u16> = Vec::with_capacity(2);
            if n >= 1 {
                vals.push(e[0]);
            }
            if n >= 2 {
                vals.push(e[1]);
            }
            let x = serde_amqp::primitives::Array::from(vals);
            let w = enc::<serde_amqp::primitives::Array<u16>, 24>(&x);
            let v = w.out();
            assert!(v[0] == ARRAY8, "[C05] small array must be array8 (or array32)");
            assert!(v[2] == n, "[C05] array count != number of elements");
            assert!(v.len() == 2 + v[1] as usize, "[C05] array size field does not count count+constructor+elements");
            if n > 0 {
                assert!(v[3] == USHORT && v.len() == 4 + 2 * n as usize, "[C05] array must carry exactly one constructor followed by the bare elements");
                assert!(u16::from_be_bytes([v[4], v[5]]) == e[0], "[C05] first array element misencoded");
            }
            assert!(serialized_size(&x).unwrap() == v.len(), "[C20] serialized_size(array) != encoded length");
            let mut d = Deserializer::new(SliceReader::new(v));
            let (m, out) = (&mut d).deserialize_seq(Collect2).unwrap();
            assert!(m == n && (n < 1 || out[0] == e[0]) && (n < 2 || out[1] == e[1]), "[C03] array did not round-trip");
            vcover!(s, true, "reached");
            std::mem::forget(x);
        });
    };
}
array_rt!(c03_rt_array_u16_n0, 0);
array_rt!(c03_rt_array_u16_n1, 1);
// @tier-of c03_rt_array_u16_n2 thorough
// @mem 24
array_rt!(c03_rt_array_u16_n2, 2);

/// map of 0..=2 (u8 -> u16) entries through serialize_map
pub struct Map2(pub u8, pub [(u8, u16); 2]);
impl Serialize for Map2 {
    fn serialize<S: serde::Serializer>(&self, se: S) -> Result<S::Ok, S::Error> {
        let mut q = se.serialize_map(Some(self.0 as usize))?;
        if self.0 >= 1 {
            q.serialize_entry(&self.1[0].0, &self.1[0].1)?;
        }
        if self.0 >= 2 {
            q.serialize_entry(&self.1[1].0, &self.1[1].1)?;
        }
        q.end()
    }
}
pub struct CollectMap2;
impl<'de> Visitor<'de> for CollectMap2 {
    type Value = (u8, [(u8, u16); 2]);
    fn expecting(&self, f: &mut fmt::Formatter) -> fmt::Result {
        f.write_str("map u8 -> u16")
    }
    fn visit_map<A: MapAccess<'de>>(self, mut a: A) -> Result<Self::Value, A::Error> {
        let mut out = [(0u8, 0u16); 2];
        let mut n = 0u8;
        while n < 2 {
            match a.next_entry_seed(ElemU8, ElemU16)? {
                Some(e) => {
                    out[n as usize] = e;
                    n += 1;
                }
                None => return Ok((n, out)),
            }
        }
        match a.next_entry_seed(ElemU8, ElemU16)? {
            Some(_) => Ok((3, out)),
            None => Ok((n, out)),
        }
    }
}

macro_rules! map_rt {
    ($name:ident, $n:expr) => {
        // @unwind 6
        // @bound map of exactly N entries u8 -> u16, all values
        // @also C05,C20
        harness!($name, |s| {
            let n: u8 = $n;
            let x = Map2(n, [(s.u8(), s.u16()), (s.u8(), s.u16())]);
            let w = enc::<Map2, 24>(&x);
            let v = w.out();
            let (hdr, body, count) = parse_compound(v, None, MAP8, MAP32).expect("[C05] not a map");
            assert!(count == 2 * n as usize, "[C05] map count must be twice the number of entries");
            assert!(v.len() == hdr + body && body == 5 * n as usize, "[C05] map size field wrong");
            assert!(serialized_size(&x).unwrap() == v.len(), "[C20] serialized_size(map) != encoded length");
            let mut d = Deserializer::new(SliceReader::new(v));
            let (m, out) = (&mut d).deserialize_map(CollectMap2).unwrap();
            assert!(m == n && (n < 1 || out[0] == x.1[0]) && (n < 2 || out[1] == x.1[1]), "[C03] map did not round-trip");
            vcover!(s, true, "reached");
        });
    };
}
map_rt!(c03_rt_map_n0, 0);
map_rt!(c03_rt_map_n1, 1);
// @tier-of c03_rt_map_n2 thorough
// @mem 24
map_rt!(c03_rt_map_n2, 2);

// @unwind 6
// @bound list8 / list32 / list0 variants of a (u8, u16) tuple, symbolic elements
harness!(c05_dec_list_variants, |s| {
    let a = s.u8();
    let b = s.u16().to_be_bytes();
    let want = (a, u16::from_be_bytes(b));
    let l8 = [LIST8, 6, 2, UBYTE, a, USHORT, b[0], b[1]];
    let l32 = [LIST32, 0, 0, 0, 9, 0, 0, 0, 2, UBYTE, a, USHORT, b[0], b[1]];
    assert!(from_slice::<(u8, u16)>(&l8).unwrap() == want, "[C05] list8 variant rejected or misread");
    assert!(from_slice::<(u8, u16)>(&l32).unwrap() == want, "[C05] list32 variant rejected or misread");
    let l0 = [LIST0];
    let mut d = Deserializer::new(SliceReader::new(&l0));
    let z = (&mut d).deserialize_seq(Collect2).unwrap();
    assert!(z.0 == 0, "[C05] list0 rejected or misread");
    vcover!(s, true, "variants reached");
});

// @unwind 6
// @bound array8 / array32 variants of a one-element ushort array, symbolic element
harness!(c05_dec_array_variants, |s| {
    let b = s.u16().to_be_bytes();
    let e = u16::from_be_bytes(b);
    let a8 = [ARRAY8, 4, 1, USHORT, b[0], b[1]];
    let a32 = [ARRAY32, 0, 0, 0, 7, 0, 0, 0, 1, USHORT, b[0], b[1]];
    let mut d = Deserializer::new(SliceReader::new(&a8));
    let r8 = (&mut d).deserialize_seq(Collect2).unwrap();
    let mut d = Deserializer::new(SliceReader::new(&a32));
    let r32 = (&mut d).deserialize_seq(Collect2).unwrap();
    assert!(r8.0 == 1 && r8.1[0] == e && r32.0 == 1 && r32.1[0] == e, "[C05] array8/array32 variant rejected or misread");
    vcover!(s, true, "variants reached");
});

// @unwind 6
// @bound map8 / map32 variants of a one-entry map u8 -> u16, symbolic key and value
harness!(c05_dec_map_variants, |s| {
    let a = s.u8();
    let b = s.u16().to_be_bytes();
    let e = u16::from_be_bytes(b);
    let m8 = [MAP8, 6, 2, UBYTE, a, USHORT, b[0], b[1]];
    let m32 = [MAP32, 0, 0, 0, 9, 0, 0, 0, 2, UBYTE, a, USHORT, b[0], b[1]];
    let mut d = Deserializer::new(SliceReader::new(&m8));
    let q8 = (&mut d).deserialize_map(CollectMap2).unwrap();
    let mut d = Deserializer::new(SliceReader::new(&m32));
    let q32 = (&mut d).deserialize_map(CollectMap2).unwrap();
    assert!(q8.0 == 1 && q8.1[0] == (a, e) && q32.0 == 1 && q32.1[0] == (a, e), "[C05] map8/map32 variant rejected or misread");
    vcover!(s, true, "variants reached");
});

// ---- small real composites (derive-generated Serialize) ----
use fe2o3_amqp_types::messaging::{Accepted, Received, Released};

// @unwind 6
// @bound Received { section_number: u32, section_offset: u64 } -- all values (derive-generated Serialize)
harness!(c05_enc_received, |s| {
    let r = Received { section_number: s.u32(), section_offset: s.u64() };
    let w = enc::<Received, 40>(&r);
    let v = w.out();
    // described: 0x00, descriptor (ulong 0x23, any width variant), then a list of two fields
    assert!(v[0] == DESCRIBED, "[C05] composite must start with the described-type constructor");
    let dlen = if v[1] == SMALLULONG { 2 } else if v[1] == ULONG { 9 } else { 0 };
    assert!(dlen != 0 && valid_ulong(&v[1..1 + dlen], 0x23), "[C05] received descriptor is not ulong 0x23");
    let body = &v[1 + dlen..];
    let (hdr, blen, count) = parse_compound(body, Some(LIST0), LIST8, LIST32).expect("[C05] composite body is not a list");
    assert!(count == 2 && body.len() == hdr + blen, "[C05] composite list header wrong");
    let f = &body[hdr..];
    let l1 = if f[0] == UINT0 { 1 } else if f[0] == SMALLUINT { 2 } else { 5 };
    assert!(valid_uint(&f[..l1], r.section_number) && valid_ulong(&f[l1..], r.section_offset), "[C05] composite fields are not the field encodings in order");
    vcover!(s, r.section_number == 0 && r.section_offset > 255, "mixed width fields");
});

// @unwind 6
// @bound the field-less composites Accepted and Released
harness!(c05_enc_unit_composites, |s| {
    let wa = enc::<Accepted, 16>(&Accepted {});
    let a = wa.out();
    assert!(a[0] == DESCRIBED && valid_ulong(&a[1..a.len() - 1], 0x24) && a[a.len() - 1] == LIST0, "[C05] accepted is not described(0x24) list0");
    let wr = enc::<Released, 16>(&Released {});
    let rl = wr.out();
    assert!(rl[0] == DESCRIBED && valid_ulong(&rl[1..rl.len() - 1], 0x26) && rl[rl.len() - 1] == LIST0, "[C05] released is not described(0x26) list0");
    vcover!(s, true, "reached");
});

// @unwind 6
// @bound Received with symbolic fields
harness!(c20_size_received, |s| {
    let r = Received { section_number: s.u32(), section_offset: s.u64() };
    let w = enc::<Received, 40>(&r);
    assert!(serialized_size(&r).unwrap() == w.pos, "[C20] serialized_size(composite) != encoded length");
    vcover!(s, true, "reached");
});

// @tier thorough
// @timeout 2400
// @mem 24
// @unwind 6
// @bound Received with symbolic fields: encode then decode through the derive-generated Deserialize
harness!(c03_rt_received, |s| {
    let r = Received { section_number: s.u32(), section_offset: s.u64() };
    let w = enc::<Received, 40>(&r);
    let y: Received = from_slice(w.out()).unwrap();
    assert!(y.section_number == r.section_number && y.section_offset == r.section_offset, "[C03] received did not round-trip");
    vcover!(s, true, "reached");
});

// ---- C05: every way of writing a descriptor is read as the same descriptor ----
/// what a derive-generated field/variant visitor sees for a descriptor
#[derive(PartialEq, Clone, Copy)]
pub enum Descr {
    Name(usize, [u8; 3]),
    Code(u64),
    Other,
}
pub struct DescrVisitor;
impl<'de> Visitor<'de> for DescrVisitor {
    type Value = Descr;
    fn expecting(&self, f: &mut fmt::Formatter) -> fmt::Result {
        f.write_str("descriptor")
    }
    fn visit_str<E: de::Error>(self, v: &str) -> Result<Descr, E> {
        let b = v.as_bytes();
        let mut a = [0u8; 3];
        let mut i = 0;
        while i < 3 && i < b.len() {
            a[i] = b[i];
            i += 1;
        }
        Ok(Descr::Name(b.len(), a))
    }
    fn visit_string<E: de::Error>(self, v: String) -> Result<Descr, E> {
        let r = self.visit_str(&v);
        std::mem::forget(v);
        r
    }
    fn visit_u64<E: de::Error>(self, v: u64) -> Result<Descr, E> {
        Ok(Descr::Code(v))
    }
    fn visit_u8<E: de::Error>(self, _v: u8) -> Result<Descr, E> {
        Ok(Descr::Other)
    }
    fn visit_bytes<E: de::Error>(self, _v: &[u8]) -> Result<Descr, E> {
        Ok(Descr::Other)
    }
    fn visit_u32<E: de::Error>(self, _v: u32) -> Result<Descr, E> {
        Ok(Descr::Other)
    }
    fn visit_newtype_struct<D: de::Deserializer<'de>>(self, d: D) -> Result<Descr, D::Error> {
        d.deserialize_string(DescrVisitor)
    }
}

macro_rules! descr_name {
    ($name:ident, $reader:ident, |$n:ident| $bytes:expr, |$de:ident| $call:expr) => {
        // @unwind 8
        // @bound descriptor given by name: a 3-character symbol (symbolic ASCII), one spelling (sym8 or sym32), one reader and one entry point per harness
        // @desc the sym8 and the sym32 spelling of a symbolic descriptor are both read as exactly that name, by deserialize_identifier and by the peeking deserialize_ignored_any, through the slice and the io reader
        harness!($name, |s| {
            let $n = [s.u8() & 0x7f, s.u8() & 0x7f, s.u8() & 0x7f];
            let want = Descr::Name(3, $n);
            let bytes = $bytes;
            descr_name!(@$reader bytes, d);
            let $de = &mut d;
            let a: Result<Descr, serde_amqp::Error> = $call;
            assert!(matches!(a, Ok(x) if x == want), "[C05] descriptor name rejected or misread");
            vcover!(s, $n[0] == b'a', "name starting with 'a'");
            std::mem::forget((a, d));
        });
    };
    (@slice $bytes:ident, $d:ident) => {
        let mut $d = Deserializer::new(SliceReader::new(&$bytes));
    };
    (@io $bytes:ident, $d:ident) => {
        let mut rd: &[u8] = &$bytes;
        let mut $d = Deserializer::new(serde_amqp::read::IoReader::new(&mut rd));
    };
}
// @tier-of c05_dec_descriptor_sym8_identifier probe
descr_name!(c05_dec_descriptor_sym8_identifier, slice, |n| [0x00u8, SYM8, 3, n[0], n[1], n[2], 0x45], |de| de.deserialize_identifier(DescrVisitor));
// @tier-of c05_dec_descriptor_sym32_identifier probe
descr_name!(c05_dec_descriptor_sym32_identifier, slice, |n| [0x00u8, SYM32, 0, 0, 0, 3, n[0], n[1], n[2], 0x45], |de| de.deserialize_identifier(DescrVisitor));
descr_name!(c05_dec_descriptor_sym8_peek, slice, |n| [0x00u8, SYM8, 3, n[0], n[1], n[2], 0x45], |de| de.deserialize_ignored_any(DescrVisitor));
descr_name!(c05_dec_descriptor_sym32_peek, slice, |n| [0x00u8, SYM32, 0, 0, 0, 3, n[0], n[1], n[2], 0x45], |de| de.deserialize_ignored_any(DescrVisitor));
descr_name!(c05_dec_descriptor_sym32_peek_io, io, |n| [0x00u8, SYM32, 0, 0, 0, 3, n[0], n[1], n[2], 0x45], |de| de.deserialize_ignored_any(DescrVisitor));

macro_rules! descr_code {
    ($name:ident, |$v:ident, $b:ident| $bytes:expr, $want:expr, |$de:ident| $call:expr) => {
        // @unwind 3
        // @bound descriptor given by code: every 64-bit value as ulong, every 8-bit value as smallulong, zero as ulong0; one spelling and one entry point per harness
        // @desc the ulong0 / smallulong / ulong spellings of a numeric descriptor are read as that code
        harness!($name, |s| {
            let $v = s.u64();
            let $b = $v.to_be_bytes();
            let bytes = $bytes;
            let mut d = Deserializer::new(SliceReader::new(&bytes));
            let $de = &mut d;
            let r: Result<Descr, serde_amqp::Error> = $call;
            assert!(matches!(r, Ok(Descr::Code(x)) if x == $want), "[C05] descriptor code rejected or misread");
            vcover!(s, $v == 0x24, "accepted's code");
            std::mem::forget(r);
        });
    };
}
// @tier-of c05_dec_descriptor_ulong_identifier probe
descr_code!(c05_dec_descriptor_ulong_identifier, |v, b| [0x00u8, ULONG, b[0], b[1], b[2], b[3], b[4], b[5], b[6], b[7], 0x45], v, |de| de.deserialize_identifier(DescrVisitor));
descr_code!(c05_dec_descriptor_ulong_peek, |v, b| [0x00u8, ULONG, b[0], b[1], b[2], b[3], b[4], b[5], b[6], b[7], 0x45], v, |de| de.deserialize_ignored_any(DescrVisitor));
descr_code!(c05_dec_descriptor_smallulong_identifier, |v, b| [0x00u8, SMALLULONG, b[7], 0x45], b[7] as u64, |de| de.deserialize_identifier(DescrVisitor));
descr_code!(c05_dec_descriptor_smallulong_peek, |v, b| [0x00u8, SMALLULONG, b[7], 0x45], b[7] as u64, |de| de.deserialize_ignored_any(DescrVisitor));
descr_code!(c05_dec_descriptor_ulong0_peek, |v, b| [0x00u8, ULONG0, b[7] & 0, 0x45], 0u64, |de| de.deserialize_ignored_any(DescrVisitor));
