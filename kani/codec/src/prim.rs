//! Fixed-width primitives over their whole bit-width domain.
//!  c03_rt_*    decode(encode(x)) == x                      (to_vec / from_slice)
//!  c05_enc_*   encode(x) is a spec-valid encoding of x     (oracle: util::valid_*)
//!  c05_dec_*   every spec-permitted variant decodes to x
//!  c20_size_*  serialized_size(x) == to_vec(x).len()
//!  c20_rd_*    SliceReader and IoReader agree (value, and trailing bytes untouched)

use crate::util::*;
use serde_amqp::primitives::{Dec128, Dec32, Dec64, Timestamp, Uuid};
use serde_amqp::{from_reader, from_slice, serialized_size, to_vec};

macro_rules! prim_suite {
    ($rt:ident, $enc:ident, $size:ident, $t:ty, |$s:ident| $mk:expr, |$a:ident, $b:ident| $eq:expr, |$bytes:ident, $x:ident| $valid:expr) => {
        harness!($rt, |$s| {
            let x: $t = $mk;
            let bytes = to_vec(&x).unwrap();
            let y: $t = from_slice(&bytes).unwrap();
            let ($a, $b) = (&x, &y);
            assert!($eq, "[C03] decode(encode(x)) != x");
            vcover!($s, true, "roundtrip reached");
            std::mem::forget(bytes);
        });
        harness!($enc, |$s| {
            let x: $t = $mk;
            let v = to_vec(&x).unwrap();
            let $bytes: &[u8] = &v;
            let $x = &x;
            assert!($valid, "[C05] encoding is not a spec-valid encoding of the value");
            vcover!($s, true, "encode reached");
            std::mem::forget(v);
        });
        harness!($size, |$s| {
            let x: $t = $mk;
            let v = to_vec(&x).unwrap();
            let n = serialized_size(&x).unwrap();
            assert!(n == v.len(), "[C20] serialized_size != encoded length");
            vcover!($s, true, "size reached");
            std::mem::forget(v);
        });
    };
}

prim_suite!(c03_rt_bool, c05_enc_bool, c20_size_bool, bool, |s| s.bool(), |a, b| a == b, |b, x| valid_bool(b, *x));
prim_suite!(c03_rt_u8, c05_enc_u8, c20_size_u8, u8, |s| s.u8(), |a, b| a == b, |b, x| valid_fixed(b, UBYTE, &[*x]));
prim_suite!(c03_rt_u16, c05_enc_u16, c20_size_u16, u16, |s| s.u16(), |a, b| a == b, |b, x| valid_fixed(b, USHORT, &x.to_be_bytes()));
prim_suite!(c03_rt_u32, c05_enc_u32, c20_size_u32, u32, |s| s.u32(), |a, b| a == b, |b, x| valid_uint(b, *x));
prim_suite!(c03_rt_u64, c05_enc_u64, c20_size_u64, u64, |s| s.u64(), |a, b| a == b, |b, x| valid_ulong(b, *x));
prim_suite!(c03_rt_i8, c05_enc_i8, c20_size_i8, i8, |s| s.u8() as i8, |a, b| a == b, |b, x| valid_fixed(b, BYTE, &[*x as u8]));
prim_suite!(c03_rt_i16, c05_enc_i16, c20_size_i16, i16, |s| s.u16() as i16, |a, b| a == b, |b, x| valid_fixed(b, SHORT, &x.to_be_bytes()));
prim_suite!(c03_rt_i32, c05_enc_i32, c20_size_i32, i32, |s| s.u32() as i32, |a, b| a == b, |b, x| valid_int(b, *x));
prim_suite!(c03_rt_i64, c05_enc_i64, c20_size_i64, i64, |s| s.u64() as i64, |a, b| a == b, |b, x| valid_long(b, *x));
prim_suite!(c03_rt_f32, c05_enc_f32, c20_size_f32, f32, |s| f32::from_bits(s.u32()), |a, b| a.to_bits() == b.to_bits(), |b, x| valid_fixed(b, FLOAT, &x.to_bits().to_be_bytes()));
prim_suite!(c03_rt_f64, c05_enc_f64, c20_size_f64, f64, |s| f64::from_bits(s.u64()), |a, b| a.to_bits() == b.to_bits(), |b, x| valid_fixed(b, DOUBLE, &x.to_bits().to_be_bytes()));
prim_suite!(c03_rt_char, c05_enc_char, c20_size_char, char, |s| {
    let c = s.u32();
    s.assume(char::from_u32(c).is_some());
    char::from_u32(c).unwrap()
}, |a, b| a == b, |b, x| valid_fixed(b, CHAR, &(*x as u32).to_be_bytes()));
prim_suite!(c03_rt_timestamp, c05_enc_timestamp, c20_size_timestamp, Timestamp, |s| Timestamp::from_milliseconds(s.u64() as i64), |a, b| a.milliseconds() == b.milliseconds(), |b, x| valid_fixed(b, TIMESTAMP, &x.milliseconds().to_be_bytes()));
prim_suite!(c03_rt_uuid, c05_enc_uuid, c20_size_uuid, Uuid, |s| Uuid::from(s.bytes::<16>()), |a, b| a.as_inner() == b.as_inner(), |b, x| valid_fixed(b, UUID, x.as_inner()));
prim_suite!(c03_rt_dec32, c05_enc_dec32, c20_size_dec32, Dec32, |s| Dec32::from(s.bytes::<4>()), |a, b| a.as_inner() == b.as_inner(), |b, x| valid_fixed(b, DEC32, x.as_inner()));
// @tier-of c03_rt_dec64 thorough
prim_suite!(c03_rt_dec64, c05_enc_dec64, c20_size_dec64, Dec64, |s| Dec64::from(s.bytes::<8>()), |a, b| a.as_inner() == b.as_inner(), |b, x| valid_fixed(b, DEC64, x.as_inner()));
prim_suite!(c03_rt_dec128, c05_enc_dec128, c20_size_dec128, Dec128, |s| Dec128::from(s.bytes::<16>()), |a, b| a.as_inner() == b.as_inner(), |b, x| valid_fixed(b, DEC128, x.as_inner()));
prim_suite!(c03_rt_unit, c05_enc_unit, c20_size_unit, (), |_s| (), |a, b| a == b, |b, x| b.len() == 1 && b[0] == NULL);
// @unwind 3
prim_suite!(c03_rt_opt_u16, c05_enc_opt_u16, c20_size_opt_u16, Option<u16>, |s| if s.bool() { Some(s.u16()) } else { None }, |a, b| a == b, |b, x| match x {
    None => b.len() == 1 && b[0] == NULL,
    Some(v) => valid_fixed(b, USHORT, &v.to_be_bytes()),
});

// ---- C05 (ii): every spec-permitted width variant decodes to the same value ----

harness!(c05_dec_uint_variants, |s| {
    let x = s.u32();
    // uint (0x70) is valid for every value
    let be = x.to_be_bytes();
    let full = [UINT, be[0], be[1], be[2], be[3]];
    assert!(from_slice::<u32>(&full).unwrap() == x, "[C05] uint 0x70 variant rejected or wrong");
    if x <= 255 {
        let small = [SMALLUINT, x as u8];
        assert!(from_slice::<u32>(&small).unwrap() == x, "[C05] smalluint variant rejected or wrong");
        vcover!(s, x == 200, "smalluint reached");
    }
    if x == 0 {
        let zero = [UINT0];
        assert!(from_slice::<u32>(&zero).unwrap() == 0, "[C05] uint0 variant rejected or wrong");
        vcover!(s, true, "uint0 reached");
    }
});

harness!(c05_dec_ulong_variants, |s| {
    let x = s.u64();
    let be = x.to_be_bytes();
    let full = [ULONG, be[0], be[1], be[2], be[3], be[4], be[5], be[6], be[7]];
    assert!(from_slice::<u64>(&full).unwrap() == x, "[C05] ulong 0x80 variant rejected or wrong");
    if x <= 255 {
        let small = [SMALLULONG, x as u8];
        assert!(from_slice::<u64>(&small).unwrap() == x, "[C05] smallulong variant rejected or wrong");
        vcover!(s, x == 200, "smallulong reached");
    }
    if x == 0 {
        assert!(from_slice::<u64>(&[ULONG0]).unwrap() == 0, "[C05] ulong0 variant rejected or wrong");
    }
});

harness!(c05_dec_int_variants, |s| {
    let x = s.u32() as i32;
    let be = x.to_be_bytes();
    let full = [INT, be[0], be[1], be[2], be[3]];
    assert!(from_slice::<i32>(&full).unwrap() == x, "[C05] int 0x71 variant rejected or wrong");
    if x >= -128 && x <= 127 {
        let small = [SMALLINT, x as i8 as u8];
        assert!(from_slice::<i32>(&small).unwrap() == x, "[C05] smallint variant rejected or wrong");
        vcover!(s, x == -100, "negative smallint reached");
    }
});

harness!(c05_dec_long_variants, |s| {
    let x = s.u64() as i64;
    let be = x.to_be_bytes();
    let full = [LONG, be[0], be[1], be[2], be[3], be[4], be[5], be[6], be[7]];
    assert!(from_slice::<i64>(&full).unwrap() == x, "[C05] long 0x81 variant rejected or wrong");
    if x >= -128 && x <= 127 {
        let small = [SMALLLONG, x as i8 as u8];
        assert!(from_slice::<i64>(&small).unwrap() == x, "[C05] smalllong variant rejected or wrong");
        vcover!(s, x == -100, "negative smalllong reached");
    }
});

harness!(c05_dec_bool_variants, |s| {
    let x = s.bool();
    let one = [if x { TRUE } else { FALSE }];
    assert!(from_slice::<bool>(&one).unwrap() == x, "[C05] boolean 0x41/0x42 variant rejected or wrong");
    let two = [BOOL, x as u8];
    assert!(from_slice::<bool>(&two).unwrap() == x, "[C05] boolean 0x56 variant rejected or wrong");
    vcover!(s, x, "true reached");
});

// ---- C20 (ii): slice reader vs io reader on a valid encoding followed by trailing bytes ----

/// spec length (constructor + payload) of a fixed-width primitive encoding, from the spec table
pub fn spec_fixed_len(code: u8) -> Option<usize> {
    Some(match code {
        NULL | TRUE | FALSE | UINT0 | ULONG0 | LIST0 => 1,
        BOOL | UBYTE | BYTE | SMALLUINT | SMALLULONG | SMALLINT | SMALLLONG => 2,
        USHORT | SHORT => 3,
        UINT | INT | FLOAT | CHAR | DEC32 => 5,
        ULONG | LONG | DOUBLE | TIMESTAMP | DEC64 => 9,
        UUID | DEC128 => 17,
        _ => return None,
    })
}

macro_rules! reader_agree {
    ($name:ident, $t:ty, $n:expr, |$s:ident, $buf:ident| $fill:block, |$a:ident, $b:ident| $eq:expr) => {
        harness!($name, |$s| {
            use serde::Deserialize;
            // $n symbolic bytes: an encoding (constructor possibly pinned by $fill) + trailing bytes
            #[allow(unused_mut)] let mut $buf: [u8; $n] = $s.bytes::<$n>();
            $fill;
            // (1) slice reader: value, then whatever follows decoded as a second value
            let mut de1 = serde_amqp::de::Deserializer::new(serde_amqp::read::SliceReader::new(&$buf));
            let r1 = <$t>::deserialize(&mut de1);
            // (2) io reader over the same bytes
            let mut rd: &[u8] = &$buf;
            let r2 = {
                let mut de2 = serde_amqp::de::Deserializer::new(serde_amqp::read::IoReader::new(&mut rd));
                <$t>::deserialize(&mut de2)
            };
            match (&r1, &r2) {
                (Ok($a), Ok($b)) => {
                    assert!($eq, "[C20] slice reader and io reader decode different values");
                    let want = spec_fixed_len($buf[0]).unwrap();
                    // stream position after the value == spec length of the encoding:
                    // the bytes after it (a transfer payload, say) are untouched
                    assert!($n - rd.len() == want, "[C20] io reader consumed more/less than the encoding (trailing bytes disturbed)");
                    // slice reader: the next value decoded by the same deserializer starts right after
                    let next = u8::deserialize(&mut de1);
                    if $buf[want] == UBYTE {
                        assert!(matches!(next, Ok(v) if v == $buf[want + 1]), "[C20] slice reader did not stop at the end of the encoding");
                        vcover!($s, true, "trailing value decoded");
                    }
                    std::mem::forget(next);
                    vcover!($s, true, "both readers Ok");
                }
                (Err(_), Err(_)) => {}
                _ => assert!(false, "[C20] one reader accepts what the other rejects"),
            }
            std::mem::forget(r1);
            std::mem::forget(r2);
        });
    };
}

reader_agree!(c20_rd_u32, u32, 7, |s, buf| {}, |a, b| a == b);
reader_agree!(c20_rd_u64, u64, 11, |s, buf| {}, |a, b| a == b);
reader_agree!(c20_rd_i32, i32, 7, |s, buf| {}, |a, b| a == b);
reader_agree!(c20_rd_i64, i64, 11, |s, buf| {}, |a, b| a == b);
reader_agree!(c20_rd_u16, u16, 5, |s, buf| {}, |a, b| a == b);
reader_agree!(c20_rd_bool, bool, 4, |s, buf| {}, |a, b| a == b);
reader_agree!(c20_rd_char, char, 7, |s, buf| {}, |a, b| a == b);
reader_agree!(c20_rd_timestamp, Timestamp, 11, |s, buf| { buf[0] = TIMESTAMP; }, |a, b| a.milliseconds() == b.milliseconds());
reader_agree!(c20_rd_dec32, Dec32, 7, |s, buf| { buf[0] = DEC32; }, |a, b| a.as_inner() == b.as_inner());
reader_agree!(c20_rd_uuid, Uuid, 19, |s, buf| { buf[0] = UUID; }, |a, b| a.as_inner() == b.as_inner());

// ---- C20 (ii), chunked stream: the io reader fed by a reader that returns short reads ----

/// `io::Read` that hands out at most `chunk` bytes per call (what a socket does).
pub struct Chunked<'a> {
    pub data: &'a [u8],
    pub pos: usize,
    pub chunk: usize,
}
impl<'a> std::io::Read for Chunked<'a> {
    fn read(&mut self, buf: &mut [u8]) -> std::io::Result<usize> {
        let rem = self.data.len() - self.pos;
        let mut n = buf.len();
        if n > self.chunk {
            n = self.chunk;
        }
        if n > rem {
            n = rem;
        }
        buf[..n].copy_from_slice(&self.data[self.pos..self.pos + n]);
        self.pos += n;
        Ok(n)
    }
}

macro_rules! reader_chunked {
    ($name:ident, $t:ty, $n:expr, $code:expr, |$a:ident, $b:ident| $eq:expr) => {
        harness!($name, |s| {
            use serde::Deserialize;
            let mut buf: [u8; $n] = s.bytes::<$n>();
            buf[0] = $code;
            let chunk = s.usize();
            s.assume(chunk >= 1 && chunk <= $n);
            let r1: Result<$t, _> = from_slice(&buf);
            let mut rd = Chunked { data: &buf, pos: 0, chunk };
            let r2 = {
                let mut de2 = serde_amqp::de::Deserializer::new(serde_amqp::read::IoReader::new(&mut rd));
                <$t>::deserialize(&mut de2)
            };
            match (&r1, &r2) {
                (Ok($a), Ok($b)) => {
                    assert!($eq, "[C20] chunked stream decodes a different value than the slice");
                    let want = spec_fixed_len(buf[0]).unwrap();
                    assert!(rd.pos == want, "[C20] chunked stream: bytes consumed differ from the encoding's length (trailing bytes disturbed)");
                    vcover!(s, chunk == 1, "one byte per read");
                    vcover!(s, chunk == 3, "three bytes per read");
                }
                (Err(_), Err(_)) => {}
                _ => assert!(false, "[C20] chunked stream accepts/rejects differently from the slice"),
            }
            std::mem::forget(r1);
            std::mem::forget(r2);
        });
    };
}

// @unwind 22
// @bound constructor pinned, payload and trailing bytes symbolic; every chunk size 1..=N of the underlying reader
// @desc decoding from a stream that delivers short reads gives the same value and consumes the same bytes as decoding from the slice
reader_chunked!(c20_chunked_u32, u32, 7, UINT, |a, b| a == b);
reader_chunked!(c20_chunked_dec32, Dec32, 7, DEC32, |a, b| a.as_inner() == b.as_inner());
reader_chunked!(c20_chunked_timestamp, Timestamp, 11, TIMESTAMP, |a, b| a.milliseconds() == b.milliseconds());

// @tier thorough
// @timeout 2400
// @unwind 22
// @bound constructor pinned, payload and trailing bytes symbolic; every chunk size 1..=N of the underlying reader
reader_chunked!(c20_chunked_u64, u64, 11, ULONG, |a, b| a == b);
reader_chunked!(c20_chunked_dec64, Dec64, 11, DEC64, |a, b| a.as_inner() == b.as_inner());
reader_chunked!(c20_chunked_uuid, Uuid, 19, UUID, |a, b| a.as_inner() == b.as_inner());
