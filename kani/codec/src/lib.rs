//! Solver harnesses over the real `serde_amqp` codec (C03, C04, C05, C20).
#![allow(clippy::all, dead_code, unused_imports, unused_macros)]

#[path = "../../vsrc.rs"]
#[macro_use]
pub mod vsrc;

#[path = "../../codec_util.rs"]
pub mod util;

pub mod prim;
pub mod strs;
pub mod compound;
pub mod readers;
pub mod items;

#[cfg(not(kani))]
include!(concat!(env!("OUT_DIR"), "/registry.rs"));
