//! Variable-width primitives: str / symbol / binary with symbolic content at concrete lengths.
//! Lean harness shape: one codec call per harness, encode into a fixed stack buffer through the
//! real `Serializer<W>`, decode borrowed (`&str`, `&[u8]`).

use crate::util::*;
use serde::Serialize;
use serde_amqp::primitives::{Array, Symbol, SymbolRef};
use serde_amqp::ser::Serializer;
use serde_amqp::{from_slice, serialized_size};

fn ascii<const N: usize>(s: &mut crate::vsrc::S) -> [u8; N] {
    let b: [u8; N] = s.bytes::<N>();
    let mut i = 0;
    while i < N {
        s.assume(b[i] < 0x80);
        i += 1;
    }
    b
}

/// encode `x` through the real Serializer into a stack buffer
pub fn enc<T: Serialize + ?Sized, const N: usize>(x: &T) -> FixW<N> {
    let mut se = Serializer::new(FixW::<N>::new());
    x.serialize(&mut se).unwrap();
    se.into_inner()
}

macro_rules! str_suite {
    ($name_enc:ident, $name_rt:ident, $name_dec:ident, $name_size:ident, $n:expr) => {
        // @unwind 8
        // @bound str / symbol / binary of exactly N ASCII bytes, all contents
        harness!($name_enc, |s| {
            let b = ascii::<$n>(s);
            let x = unsafe { std::str::from_utf8_unchecked(&b) };
            let w = enc::<str, 16>(x);
            assert!(valid_variable(w.out(), STR8, STR32, &b), "[C05] str encoding is not constructor + size(data octets) + data");
            let w = enc::<SymbolRef, 16>(&SymbolRef(x));
            assert!(valid_variable(w.out(), SYM8, SYM32, &b), "[C05] symbol encoding is not constructor + size + data");
            let w = enc::<serde_bytes::Bytes, 16>(serde_bytes::Bytes::new(&b));
            assert!(valid_variable(w.out(), VBIN8, VBIN32, &b), "[C05] binary encoding is not constructor + size + data");
            vcover!(s, true, "encode reached");
        });
        // @unwind 8
        harness!($name_rt, |s| {
            let b = ascii::<$n>(s);
            let x = unsafe { std::str::from_utf8_unchecked(&b) };
            let w = enc::<str, 16>(x);
            let y: &str = from_slice(w.out()).unwrap();
            assert!(eq_bytes(y.as_bytes(), &b), "[C03] decode(encode(str)) != str");
            vcover!(s, true, "roundtrip reached");
        });
        // @unwind 8
        harness!($name_dec, |s| {
            // both width variants of str / sym / vbin decode to the same value
            let b = ascii::<$n>(s);
            let mut e8 = [0u8; $n + 2];
            e8[0] = STR8;
            e8[1] = $n as u8;
            e8[2..].copy_from_slice(&b);
            let mut e32 = [0u8; $n + 5];
            e32[0] = STR32;
            e32[1..5].copy_from_slice(&($n as u32).to_be_bytes());
            e32[5..].copy_from_slice(&b);
            let y8: &str = from_slice(&e8).unwrap();
            let y32: &str = from_slice(&e32).unwrap();
            assert!(eq_bytes(y8.as_bytes(), &b) && eq_bytes(y32.as_bytes(), &b), "[C05] str8/str32 variant rejected or misread");
            e8[0] = SYM8;
            e32[0] = SYM32;
            let s8: SymbolRef = from_slice(&e8).unwrap();
            let s32: SymbolRef = from_slice(&e32).unwrap();
            assert!(eq_bytes(s8.0.as_bytes(), &b) && eq_bytes(s32.0.as_bytes(), &b), "[C05] sym8/sym32 variant rejected or misread");
            e8[0] = VBIN8;
            e32[0] = VBIN32;
            let b8: &serde_bytes::Bytes = from_slice(&e8).unwrap();
            let b32: &serde_bytes::Bytes = from_slice(&e32).unwrap();
            assert!(eq_bytes(b8, &b) && eq_bytes(b32, &b), "[C05] vbin8/vbin32 variant rejected or misread");
            vcover!(s, true, "variants reached");
        });
        // @unwind 8
        harness!($name_size, |s| {
            let b = ascii::<$n>(s);
            let x = unsafe { std::str::from_utf8_unchecked(&b) };
            assert!(serialized_size(x).unwrap() == enc::<str, 16>(x).pos, "[C20] serialized_size(str) != encoded length");
            assert!(serialized_size(&SymbolRef(x)).unwrap() == enc::<SymbolRef, 16>(&SymbolRef(x)).pos, "[C20] serialized_size(symbol) != encoded length");
            let bb = serde_bytes::Bytes::new(&b);
            assert!(serialized_size(bb).unwrap() == enc::<serde_bytes::Bytes, 16>(bb).pos, "[C20] serialized_size(binary) != encoded length");
            vcover!(s, true, "size reached");
        });
    };
}

str_suite!(c05_enc_str0, c03_rt_str0, c05_dec_str0, c20_size_str0, 0);
str_suite!(c05_enc_str2, c03_rt_str2, c05_dec_str2, c20_size_str2, 2);

// @unwind 8
// @bound binary of exactly 3 bytes, all contents
harness!(c03_rt_bin3, |s| {
    let b: [u8; 3] = s.bytes::<3>();
    let w2 = enc::<serde_bytes::Bytes, 16>(serde_bytes::Bytes::new(&b));
    let z: &serde_bytes::Bytes = from_slice(w2.out()).unwrap();
    assert!(eq_bytes(z, &b), "[C03] decode(encode(binary)) != binary");
    vcover!(s, true, "roundtrip reached");
});

// ---- width boundary 254 / 255 / 256 of variable-width primitives ----
macro_rules! boundary {
    ($name:ident, $n:expr) => {
        // @unwind 4
        // @bound str and binary of exactly N bytes (one symbolic ASCII byte repeated): constructor, size field, total length, serialized_size, borrowed binary decode
        // @also C03,C20
        harness!($name, |s| {
            let c = s.u8();
            s.assume(c < 0x80);
            let data = [c; $n];
            let x = unsafe { std::str::from_utf8_unchecked(&data) };
            let w = enc::<str, 300>(x);
            let v = w.out();
            assert!(v[0] == STR8 || v[0] == STR32, "[C05] wrong constructor for a string");
            let (hdr, len) = if v[0] == STR8 { (2usize, v[1] as usize) } else { (5usize, u32::from_be_bytes([v[1], v[2], v[3], v[4]]) as usize) };
            assert!(len == $n && v.len() == hdr + $n, "[C05] size field does not count exactly the data octets at the 8/32-bit width boundary");
            assert!(v[hdr] == c && v[v.len() - 1] == c, "[C05] data misplaced");
            assert!(serialized_size(x).unwrap() == v.len(), "[C20] serialized_size != encoded length at the width boundary");
            let bb = serde_bytes::Bytes::new(&data);
            let w2 = enc::<serde_bytes::Bytes, 300>(bb);
            let u = w2.out();
            let (bh, bl) = if u[0] == VBIN8 { (2usize, u[1] as usize) } else { (5usize, u32::from_be_bytes([u[1], u[2], u[3], u[4]]) as usize) };
            assert!((u[0] == VBIN8 || u[0] == VBIN32) && bl == $n && u.len() == bh + $n, "[C05] binary size field wrong at the width boundary");
            assert!(serialized_size(bb).unwrap() == u.len(), "[C20] serialized_size(binary) != encoded length at the width boundary");
            let z: &serde_bytes::Bytes = from_slice(u).unwrap();
            assert!(z.len() == $n && z[0] == c && z[$n - 1] == c, "[C03] binary round-trip at the width boundary changed the value");
            vcover!(s, true, "boundary reached");
        });
    };
}
boundary!(c05_boundary_254, 254);
boundary!(c05_boundary_255, 255);
boundary!(c05_boundary_256, 256);

// ---- compound size field at the 8/32-bit boundary: list / map whose items are 254, 255, 256 bytes ----
macro_rules! compound_boundary {
    ($name:ident, $payload:expr) => {
        // @unwind 4
        // @bound one-element tuple whose single binary element makes the item bytes exactly 254 / 255 / 256
        // @also C03,C20
        harness!($name, |s| {
            let c = s.u8();
            let data = [c; $payload];
            let item = 2 + $payload; // vbin8 header + data ($payload <= 254)
            let x = (serde_bytes::Bytes::new(&data),);
            let w = enc::<(&serde_bytes::Bytes,), 300>(&x);
            let v = w.out();
            let (hdr, body, count) = parse_compound(v, Some(LIST0), LIST8, LIST32).expect("[C05] list size field must count the count field plus the items (and fit its width)");
            assert!(count == 1 && body == item && v.len() == hdr + body, "[C05] list size/count wrong at the 8/32-bit boundary");
            assert!(serialized_size(&x).unwrap() == v.len(), "[C20] serialized_size(list) != encoded length at the boundary");
            let y: (&serde_bytes::Bytes,) = from_slice(v).expect("[C03] list at the boundary does not decode");
            assert!(y.0.len() == $payload, "[C03] list at the boundary did not round-trip");
            vcover!(s, true, "boundary reached");
        });
    };
}
compound_boundary!(c05_list_items_254, 252);
compound_boundary!(c05_list_items_255, 253);
compound_boundary!(c05_list_items_256, 254);

// ---- non-ASCII: byte length vs char count (plain value and array element) ----
// @unwind 8
// @bound one 2-byte UTF-8 scalar (all of U+0080..U+07FF) as a plain string and as the single element of an array
// @also C05
harness!(c03_rt_str_utf8_2byte, |s| {
    let b0 = s.u8();
    let b1 = s.u8();
    s.assume(b0 >= 0xc2 && b0 <= 0xdf && b1 >= 0x80 && b1 <= 0xbf);
    let b = [b0, b1];
    let x = unsafe { std::str::from_utf8_unchecked(&b) };
    let w = enc::<str, 16>(x);
    assert!(valid_variable(w.out(), STR8, STR32, &b), "[C05] size of a non-ASCII string must count octets, not characters");
    // as array element: e0 size count constructor <len> data  -- the element size counts octets too
    let arr = Array::from(vec![x]);
    let w2 = enc::<Array<&str>, 24>(&arr);
    let v = w2.out();
    assert!(v[0] == ARRAY8 && v[2] == 1, "[C05] one-element array header wrong");
    let elem = &v[3..];
    assert!(valid_variable(elem, STR8, STR32, &b), "[C05] string inside an array: the element size must count octets, not characters");
    vcover!(s, true, "reached");
    std::mem::forget(arr);
});
