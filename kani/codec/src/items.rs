//! Typed protocol items with hand-written serde implementations (fe2o3-amqp-types): the tables
//! that map format codes / small integers to variants. Round trip (C03) and "every spec-valid
//! spelling decodes to the same value" (C05) for all values of each item.

use crate::strs::enc;
use crate::util::*;
use fe2o3_amqp_types::definitions::{ReceiverSettleMode, Role, SenderSettleMode};
use fe2o3_amqp_types::messaging::{MessageId, TerminusDurability};
use fe2o3_amqp_types::sasl::SaslCode;
use serde_amqp::from_slice;
use serde_amqp::primitives::Uuid;

// @tier probe
// @unwind 3
// @bound MessageId::Ulong(v), every 64-bit v (including 0, 255, 256)
// @also C05
// @desc a ulong message-id / correlation-id round-trips for every value, and each of its spellings (ulong0 for 0, smallulong below 256, ulong) decodes to it
harness!(c03_rt_message_id_ulong, |s| {
    let v = s.u64();
    let x = MessageId::Ulong(v);
    let w = enc::<MessageId, 16>(&x);
    let o = w.out();
    let b = v.to_be_bytes();
    let spelled = (o.len() == 1 && o[0] == ULONG0 && v == 0)
        || (o.len() == 2 && o[0] == SMALLULONG && v < 256 && o[1] == b[7])
        || (o.len() == 9 && o[0] == ULONG && o[1] == b[0] && o[2] == b[1] && o[3] == b[2] && o[4] == b[3] && o[5] == b[4] && o[6] == b[5] && o[7] == b[6] && o[8] == b[7]);
    assert!(spelled, "[C05] ulong message-id is not encoded as a ulong");
    let y: Result<MessageId, _> = from_slice(w.out());
    assert!(matches!(y, Ok(MessageId::Ulong(u)) if u == v), "[C03] ulong message-id did not round-trip");
    vcover!(s, v == 0, "message-id 0 (ulong0)");
    vcover!(s, v == 300, "message-id above the smallulong range");
    std::mem::forget(y);
});

// @tier probe
// @unwind 3
// @bound every 64-bit value written as the full-width ulong (0x80), every 8-bit value as smallulong (0x53), zero as ulong0 (0x44), decoded as MessageId
harness!(c05_dec_message_id_ulong_variants, |s| {
    let v = s.u64();
    let b = v.to_be_bytes();
    let full = [ULONG, b[0], b[1], b[2], b[3], b[4], b[5], b[6], b[7]];
    let y: Result<MessageId, _> = from_slice(&full);
    assert!(matches!(y, Ok(MessageId::Ulong(u)) if u == v), "[C05] full-width ulong message-id rejected or misread");
    let small = [SMALLULONG, b[7]];
    let y2: Result<MessageId, _> = from_slice(&small);
    assert!(matches!(y2, Ok(MessageId::Ulong(u)) if u == b[7] as u64), "[C05] smallulong message-id rejected or misread");
    let zero = [ULONG0];
    let y3: Result<MessageId, _> = from_slice(&zero);
    assert!(matches!(y3, Ok(MessageId::Ulong(0))), "[C05] ulong0 message-id rejected or misread");
    vcover!(s, v == 7, "reached");
    std::mem::forget((y, y2, y3));
});

// @tier probe
// @unwind 3
// @bound MessageId::Uuid, all 16 bytes symbolic
harness!(c03_rt_message_id_uuid, |s| {
    let b = s.bytes::<16>();
    let x = MessageId::Uuid(Uuid::from(b));
    let w = enc::<MessageId, 24>(&x);
    assert!(w.out().len() == 17 && w.out()[0] == UUID && w.out()[1..] == b[..], "[C05] uuid message-id is not encoded as a uuid");
    let y: Result<MessageId, _> = from_slice(w.out());
    match &y {
        Ok(MessageId::Uuid(u)) => {
            let got: [u8; 16] = u.clone().into_inner();
            assert!(got == b, "[C03] uuid message-id did not round-trip");
        }
        _ => assert!(false, "[C03] uuid message-id did not round-trip"),
    }
    vcover!(s, b[0] == 1, "reached");
    std::mem::forget(y);
});

macro_rules! small_enum {
    ($name:ident, $ty:ty, $code:expr, [$($val:expr => $variant:pat),+], $max:expr) => {
        // @unwind 3
        // @bound every byte value 0..=255 as the wire value of the restricted type
        // @also C05
        // @desc restricted ubyte/uint/boolean types: each defined choice decodes to its variant and encodes back to the same wire value; undefined values are rejected
        harness!($name, |s| {
            let v = s.u8();
            let bytes = [$code, v];
            let y: Result<$ty, _> = from_slice(&bytes);
            match &y {
                Ok(x) => {
                    assert!(v <= $max, "[C03] an undefined wire value was accepted");
                    $(if v == $val { assert!(matches!(x, $variant), "[C05] wire value decoded to the wrong choice"); })+
                    let w = enc::<$ty, 8>(x);
                    let o = w.out();
                    assert!(o[o.len() - 1] == v || (v == 0 && o.len() == 1), "[C03] choice did not encode back to its wire value");
                }
                Err(_) => assert!(v > $max, "[C05] a defined wire value was rejected"),
            }
            vcover!(s, y.is_ok(), "defined value");
            vcover!(s, y.is_err(), "undefined value");
            std::mem::forget(y);
        });
    };
}
small_enum!(c03_rt_rcv_settle_mode, ReceiverSettleMode, UBYTE, [0 => ReceiverSettleMode::First, 1 => ReceiverSettleMode::Second], 1);
small_enum!(c03_rt_snd_settle_mode, SenderSettleMode, UBYTE, [0 => SenderSettleMode::Unsettled, 1 => SenderSettleMode::Settled, 2 => SenderSettleMode::Mixed], 2);
small_enum!(c03_rt_sasl_code, SaslCode, UBYTE, [0 => SaslCode::Ok, 1 => SaslCode::Auth, 2 => SaslCode::Sys, 3 => SaslCode::SysPerm, 4 => SaslCode::SysTemp], 4);
// @tier-of c03_rt_terminus_durability probe
small_enum!(c03_rt_terminus_durability, TerminusDurability, SMALLUINT, [0 => TerminusDurability::None, 1 => TerminusDurability::Configuration, 2 => TerminusDurability::UnsettledState], 2);

// @unwind 6
// @bound role: both boolean spellings (0x41 / 0x42 and 0x56 00 / 0x56 01)
// @also C05
harness!(c03_rt_role, |s| {
    let receiver = s.bool();
    let x = if receiver { Role::Receiver } else { Role::Sender };
    let w = enc::<Role, 4>(&x);
    assert!(valid_bool(w.out(), receiver), "[C05] role is not encoded as the boolean the spec assigns to it");
    let y: Result<Role, _> = from_slice(w.out());
    assert!(matches!((&y, receiver), (Ok(Role::Receiver), true) | (Ok(Role::Sender), false)), "[C03] role did not round-trip");
    let long = [BOOL, receiver as u8];
    let short = [if receiver { TRUE } else { FALSE }];
    let y2: Result<Role, _> = from_slice(&long);
    let y3: Result<Role, _> = from_slice(&short);
    assert!(matches!((&y2, receiver), (Ok(Role::Receiver), true) | (Ok(Role::Sender), false)), "[C05] role as 0x56 boolean rejected or misread");
    assert!(matches!((&y3, receiver), (Ok(Role::Receiver), true) | (Ok(Role::Sender), false)), "[C05] role as 0x41/0x42 rejected or misread");
    vcover!(s, receiver, "receiver");
    std::mem::forget((y, y2, y3));
});
