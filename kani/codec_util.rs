//! Stack-only helpers and the AMQP 1.0 part-1 (§1.6) oracle, written from the
//! specification text -- it does not use `serde_amqp::format_code` or `format`.

use std::io;

/// Fixed-capacity writer (no `Vec`): the real `Serializer<W>` writes into it.
pub struct FixW<const N: usize> {
    pub buf: [u8; N],
    pub pos: usize,
}

impl<const N: usize> FixW<N> {
    pub fn new() -> Self {
        FixW {
            buf: [0u8; N],
            pos: 0,
        }
    }
    pub fn out(&self) -> &[u8] {
        &self.buf[..self.pos]
    }
}

impl<const N: usize> io::Write for FixW<N> {
    fn write(&mut self, data: &[u8]) -> io::Result<usize> {
        self.write_all(data)?;
        Ok(data.len())
    }
    fn write_all(&mut self, data: &[u8]) -> io::Result<()> {
        let end = self.pos + data.len();
        if end > N {
            return Err(io::Error::from(io::ErrorKind::WriteZero));
        }
        self.buf[self.pos..end].copy_from_slice(data);
        self.pos = end;
        Ok(())
    }
    fn flush(&mut self) -> io::Result<()> {
        Ok(())
    }
}

// ---- AMQP 1.0 constructors (part 1, section 1.6), transcribed from the spec ----
pub const NULL: u8 = 0x40;
pub const BOOL: u8 = 0x56;
pub const TRUE: u8 = 0x41;
pub const FALSE: u8 = 0x42;
pub const UBYTE: u8 = 0x50;
pub const USHORT: u8 = 0x60;
pub const UINT: u8 = 0x70;
pub const SMALLUINT: u8 = 0x52;
pub const UINT0: u8 = 0x43;
pub const ULONG: u8 = 0x80;
pub const SMALLULONG: u8 = 0x53;
pub const ULONG0: u8 = 0x44;
pub const BYTE: u8 = 0x51;
pub const SHORT: u8 = 0x61;
pub const INT: u8 = 0x71;
pub const SMALLINT: u8 = 0x54;
pub const LONG: u8 = 0x81;
pub const SMALLLONG: u8 = 0x55;
pub const FLOAT: u8 = 0x72;
pub const DOUBLE: u8 = 0x82;
pub const DEC32: u8 = 0x74;
pub const DEC64: u8 = 0x84;
pub const DEC128: u8 = 0x94;
pub const CHAR: u8 = 0x73;
pub const TIMESTAMP: u8 = 0x83;
pub const UUID: u8 = 0x98;
pub const VBIN8: u8 = 0xa0;
pub const VBIN32: u8 = 0xb0;
pub const STR8: u8 = 0xa1;
pub const STR32: u8 = 0xb1;
pub const SYM8: u8 = 0xa3;
pub const SYM32: u8 = 0xb3;
pub const LIST0: u8 = 0x45;
pub const LIST8: u8 = 0xc0;
pub const LIST32: u8 = 0xd0;
pub const MAP8: u8 = 0xc1;
pub const MAP32: u8 = 0xd1;
pub const ARRAY8: u8 = 0xe0;
pub const ARRAY32: u8 = 0xf0;
pub const DESCRIBED: u8 = 0x00;

/// Is `b` a spec-valid encoding of the uint `x`? (uint0 / smalluint / uint)
pub fn valid_uint(b: &[u8], x: u32) -> bool {
    match b.len() {
        1 => b[0] == UINT0 && x == 0,
        2 => b[0] == SMALLUINT && x <= 255 && b[1] as u32 == x,
        5 => b[0] == UINT && u32::from_be_bytes([b[1], b[2], b[3], b[4]]) == x,
        _ => false,
    }
}

pub fn valid_ulong(b: &[u8], x: u64) -> bool {
    match b.len() {
        1 => b[0] == ULONG0 && x == 0,
        2 => b[0] == SMALLULONG && x <= 255 && b[1] as u64 == x,
        9 => {
            b[0] == ULONG
                && u64::from_be_bytes([b[1], b[2], b[3], b[4], b[5], b[6], b[7], b[8]]) == x
        }
        _ => false,
    }
}

pub fn valid_int(b: &[u8], x: i32) -> bool {
    match b.len() {
        2 => b[0] == SMALLINT && (b[1] as i8) as i32 == x,
        5 => b[0] == INT && i32::from_be_bytes([b[1], b[2], b[3], b[4]]) == x,
        _ => false,
    }
}

pub fn valid_long(b: &[u8], x: i64) -> bool {
    match b.len() {
        2 => b[0] == SMALLLONG && (b[1] as i8) as i64 == x,
        9 => {
            b[0] == LONG
                && i64::from_be_bytes([b[1], b[2], b[3], b[4], b[5], b[6], b[7], b[8]]) == x
        }
        _ => false,
    }
}

pub fn valid_bool(b: &[u8], x: bool) -> bool {
    match b.len() {
        1 => (b[0] == TRUE && x) || (b[0] == FALSE && !x),
        2 => b[0] == BOOL && ((b[1] == 1 && x) || (b[1] == 0 && !x)),
        _ => false,
    }
}

/// fixed-width type with exactly one encoding: constructor + big-endian payload
pub fn valid_fixed(b: &[u8], code: u8, payload_be: &[u8]) -> bool {
    if b.len() != 1 + payload_be.len() || b[0] != code {
        return false;
    }
    let mut i = 0;
    while i < payload_be.len() {
        if b[1 + i] != payload_be[i] {
            return false;
        }
        i += 1;
    }
    true
}

/// variable-width (vbin/str/sym): `code8 len8 data` or `code32 len32 data`;
/// the size field counts the data octets only.
pub fn valid_variable(b: &[u8], code8: u8, code32: u8, data: &[u8]) -> bool {
    if b.is_empty() {
        return false;
    }
    let (hdr, len) = if b[0] == code8 {
        if b.len() < 2 {
            return false;
        }
        (2usize, b[1] as usize)
    } else if b[0] == code32 {
        if b.len() < 5 {
            return false;
        }
        (5usize, u32::from_be_bytes([b[1], b[2], b[3], b[4]]) as usize)
    } else {
        return false;
    };
    if len != data.len() || b.len() != hdr + len {
        return false;
    }
    let mut i = 0;
    while i < len {
        if b[hdr + i] != data[i] {
            return false;
        }
        i += 1;
    }
    true
}

/// Parsed compound header: (header_len, body_len_excluding_count, count).
/// list0 -> (1, 0, 0); list8/map8/array8 -> size counts `count` (1 octet) + body;
/// list32/... -> size counts `count` (4 octets) + body.
pub fn parse_compound(b: &[u8], code0: Option<u8>, code8: u8, code32: u8) -> Option<(usize, usize, usize)> {
    if b.is_empty() {
        return None;
    }
    if Some(b[0]) == code0 {
        return Some((1, 0, 0));
    }
    if b[0] == code8 {
        if b.len() < 3 {
            return None;
        }
        let size = b[1] as usize;
        if size < 1 {
            return None;
        }
        return Some((3, size - 1, b[2] as usize));
    }
    if b[0] == code32 {
        if b.len() < 9 {
            return None;
        }
        let size = u32::from_be_bytes([b[1], b[2], b[3], b[4]]) as usize;
        if size < 4 {
            return None;
        }
        let count = u32::from_be_bytes([b[5], b[6], b[7], b[8]]) as usize;
        return Some((9, size - 4, count));
    }
    None
}

pub fn eq_bytes(a: &[u8], b: &[u8]) -> bool {
    if a.len() != b.len() {
        return false;
    }
    let mut i = 0;
    while i < a.len() {
        if a[i] != b[i] {
            return false;
        }
        i += 1;
    }
    true
}
