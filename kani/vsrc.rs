// Shared by every harness crate (included with `#[path]`).
//
// A harness body is written once against `S`:
//   * under Kani, `S` hands out `kani::any()` values (symbolic),
//   * natively, `S` hands out the bytes recorded from a solver counterexample
//     (`--concrete-playback=print`), one recorded vector per primitive `any`,
//     in call order -- the same order Kani uses.
// So a counterexample found by the solver is replayed against the ordinary
// (dev / release) build of the very same body before it is reported.

#[cfg(kani)]
pub struct S;

#[cfg(kani)]
impl S {
    #[inline(always)]
    pub fn u8(&mut self) -> u8 {
        kani::any()
    }
    #[inline(always)]
    pub fn u16(&mut self) -> u16 {
        kani::any()
    }
    #[inline(always)]
    pub fn u32(&mut self) -> u32 {
        kani::any()
    }
    #[inline(always)]
    pub fn u64(&mut self) -> u64 {
        kani::any()
    }
    #[inline(always)]
    pub fn usize(&mut self) -> usize {
        kani::any()
    }
    #[inline(always)]
    pub fn bool(&mut self) -> bool {
        kani::any()
    }
    #[inline(always)]
    pub fn bytes<const N: usize>(&mut self) -> [u8; N] {
        kani::any()
    }
    #[inline(always)]
    pub fn assume(&mut self, c: bool) {
        kani::assume(c)
    }
}

/// Stub for `alloc::fmt::format` (error-message formatting): returns an empty String.
/// Part of every claim: the *text* of error messages is not modelled.
#[cfg(kani)]
pub fn stub_format(_args: std::fmt::Arguments<'_>) -> String {
    String::new()
}

#[cfg(kani)]
#[macro_export]
macro_rules! vcover {
    ($s:expr, $c:expr, $what:literal) => {
        kani::cover!($c, $what)
    };
}

#[cfg(not(kani))]
#[macro_export]
macro_rules! vcover {
    ($s:expr, $c:expr, $what:literal) => {
        if $c {
            $s.covered.push($what);
        }
    };
}

#[cfg(not(kani))]
pub struct S {
    pub vals: std::collections::VecDeque<Vec<u8>>,
    pub assume_failed: bool,
    pub covered: Vec<&'static str>,
}

#[cfg(not(kani))]
pub struct AssumeFailed;

#[cfg(not(kani))]
impl S {
    pub fn new(vals: Vec<Vec<u8>>) -> Self {
        S {
            vals: vals.into(),
            assume_failed: false,
            covered: Vec::new(),
        }
    }
    fn take(&mut self, n: usize) -> Vec<u8> {
        let mut v = self.vals.pop_front().unwrap_or_default();
        v.resize(n, 0);
        v
    }
    pub fn u8(&mut self) -> u8 {
        self.take(1)[0]
    }
    pub fn u16(&mut self) -> u16 {
        let v = self.take(2);
        u16::from_le_bytes([v[0], v[1]])
    }
    pub fn u32(&mut self) -> u32 {
        let v = self.take(4);
        u32::from_le_bytes([v[0], v[1], v[2], v[3]])
    }
    pub fn u64(&mut self) -> u64 {
        let v = self.take(8);
        let mut a = [0u8; 8];
        a.copy_from_slice(&v);
        u64::from_le_bytes(a)
    }
    pub fn usize(&mut self) -> usize {
        self.u64() as usize
    }
    pub fn bool(&mut self) -> bool {
        self.take(1)[0] & 1 == 1
    }
    pub fn bytes<const N: usize>(&mut self) -> [u8; N] {
        // Kani records a `[u8; N]` either as one N-byte vector or as N one-byte vectors
        let mut a = [0u8; N];
        if N > 1 && self.vals.front().map(|v| v.len() == N).unwrap_or(false) {
            a.copy_from_slice(&self.vals.pop_front().unwrap());
            return a;
        }
        for b in a.iter_mut() {
            *b = self.u8();
        }
        a
    }
    pub fn assume(&mut self, c: bool) {
        if !c {
            self.assume_failed = true;
            std::panic::panic_any(AssumeFailed);
        }
    }
}

/// `harness!(name, |s| { body })` -- a Kani proof and a natively replayable function.
#[macro_export]
macro_rules! harness {
    ($name:ident, |$s:ident| $body:block) => {
        #[cfg(kani)]
        #[kani::proof]
        #[kani::stub(alloc::fmt::format, $crate::vsrc::stub_format)]
        pub fn $name() {
            let mut src = $crate::vsrc::S;
            let $s = &mut src;
            $body
        }
        #[cfg(not(kani))]
        pub fn $name($s: &mut $crate::vsrc::S) $body
    };
}

#[cfg(not(kani))]
pub type NativeHarness = fn(&mut S);

/// native replay driver: `replay <harness> <hex,hex,...>`; exit 0 = body ran to the end,
/// exit 101 = panic (assertion failure / overflow) = counterexample reproduced,
/// exit 3 = the recorded values violate an assumption (not a valid counterexample).
#[cfg(not(kani))]
pub fn replay_main(lookup: fn(&str) -> Option<NativeHarness>) {
    let args: Vec<String> = std::env::args().collect();
    if args.len() < 3 {
        eprintln!("usage: replay <harness> <hex[,hex]*|->");
        std::process::exit(2);
    }
    let Some(h) = lookup(&args[1]) else {
        eprintln!("unknown harness {}", args[1]);
        std::process::exit(2);
    };
    let mut vals = Vec::new();
    if args[2] != "-" {
        for part in args[2].split(',') {
            let part = part.trim();
            let mut v = Vec::new();
            let bytes = part.as_bytes();
            let mut i = 0;
            while i + 1 < bytes.len() {
                v.push(u8::from_str_radix(&part[i..i + 2], 16).expect("hex"));
                i += 2;
            }
            vals.push(v);
        }
    }
    let mut s = S::new(vals);
    let r = std::panic::catch_unwind(std::panic::AssertUnwindSafe(|| h(&mut s)));
    match r {
        Ok(()) => {
            println!("REPLAY-OK covered={:?}", s.covered);
            std::process::exit(0)
        }
        Err(e) => {
            if e.downcast_ref::<AssumeFailed>().is_some() {
                println!("REPLAY-ASSUME-FAILED");
                std::process::exit(3)
            }
            println!("REPLAY-PANIC");
            std::process::exit(101)
        }
    }
}
