// Generates the native replay registry: every `harness!(name, ...)` in src/*.rs.
use std::{env, fs, path::Path};
fn main() {
    let mut out = String::from(
        "pub fn lookup(name: &str) -> Option<crate::vsrc::NativeHarness> {\n    match name {\n",
    );
    let mut names = Vec::new();
    for e in fs::read_dir("src").unwrap() {
        let p = e.unwrap().path();
        if p.extension().map(|x| x == "rs").unwrap_or(false) {
            println!("cargo:rerun-if-changed={}", p.display());
            let module = p.file_stem().unwrap().to_str().unwrap().to_string();
            if module == "lib" || module == "main" || module == "util" || module == "alloc_track" {
                continue;
            }
            let text = fs::read_to_string(&p).unwrap();
            // a harness is any `cNN_name` token on a line that invokes a macro at statement
            // level (`harness!(..`, `prim_suite!(..`): same rule as /verif/lib/harnesses.py
            for line in text.lines() {
                let l = line.trim_start();
                let is_invocation = l
                    .split_once("!(")
                    .map(|(m, _)| !m.is_empty() && m.chars().all(|c| c.is_ascii_lowercase() || c == '_'))
                    .unwrap_or(false);
                if !is_invocation || l.starts_with("//") || l.starts_with("macro_rules") || l.starts_with("assert") || l.starts_with("vcover") {
                    continue;
                }
                let head = l.split("|").next().unwrap_or("");
                let b = head.as_bytes();
                let mut i = 0;
                while i < b.len() {
                    let start_ok = i == 0 || !(b[i - 1].is_ascii_alphanumeric() || b[i - 1] == b'_');
                    if start_ok && b[i] == b'c' && i + 3 < b.len() && b[i + 1].is_ascii_digit() && b[i + 2].is_ascii_digit() && b[i + 3] == b'_' {
                        let mut j = i + 4;
                        while j < b.len() && (b[j].is_ascii_alphanumeric() || b[j] == b'_') {
                            j += 1;
                        }
                        names.push((module.clone(), head[i..j].to_string()));
                        i = j;
                    } else {
                        i += 1;
                    }
                }
            }
        }
    }
    for (m, n) in &names {
        out.push_str(&format!("        \"{n}\" => Some(crate::{m}::{n}),\n"));
    }
    out.push_str("        _ => None,\n    }\n}\n");
    out.push_str("pub const ALL: &[&str] = &[");
    for (_, n) in &names {
        out.push_str(&format!("\"{n}\", "));
    }
    out.push_str("];\n");
    let dir = env::var("OUT_DIR").unwrap();
    fs::write(Path::new(&dir).join("registry.rs"), out).unwrap();
    println!("cargo:rerun-if-changed=src");
}
