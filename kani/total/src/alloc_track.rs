//! Native replay only: a global allocator that records the largest single request.
use std::alloc::{GlobalAlloc, Layout, System};
use std::sync::atomic::{AtomicUsize, Ordering};

pub struct Tracking;
static PEAK: AtomicUsize = AtomicUsize::new(0);

unsafe impl GlobalAlloc for Tracking {
    unsafe fn alloc(&self, l: Layout) -> *mut u8 {
        PEAK.fetch_max(l.size(), Ordering::Relaxed);
        System.alloc(l)
    }
    unsafe fn alloc_zeroed(&self, l: Layout) -> *mut u8 {
        PEAK.fetch_max(l.size(), Ordering::Relaxed);
        System.alloc_zeroed(l)
    }
    unsafe fn realloc(&self, p: *mut u8, l: Layout, n: usize) -> *mut u8 {
        PEAK.fetch_max(n, Ordering::Relaxed);
        System.realloc(p, l, n)
    }
    unsafe fn dealloc(&self, p: *mut u8, l: Layout) {
        System.dealloc(p, l)
    }
}

pub fn reset() {
    PEAK.store(0, Ordering::Relaxed);
}
pub fn peak() -> usize {
    PEAK.load(Ordering::Relaxed)
}
