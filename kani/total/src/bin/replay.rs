#[cfg(not(kani))]
fn main() {
    vtotal::vsrc::replay_main(vtotal::lookup)
}
#[cfg(kani)]
fn main() {}
