#[cfg(not(kani))]
#[global_allocator]
static A: vtotal::alloc_track::Tracking = vtotal::alloc_track::Tracking;

#[cfg(not(kani))]
fn main() {
    vtotal::vsrc::replay_main(vtotal::lookup)
}
#[cfg(kani)]
fn main() {}
