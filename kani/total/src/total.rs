//! C04: decoding untrusted bytes is total -- for EVERY byte string of the stated length the real
//! `Deserializer` returns Ok or Err: no panic, no arithmetic overflow (dev-profile checks are the
//! oracle), no out-of-bounds access, and element pulls terminate (unwinding assertions).
//!
//! The decoder is driven through serde's public `Deserializer` API by harness-side visitors:
//!   HeaderOnly  returns from visit_seq/visit_map without touching the accessor (isolates the
//!               size/count arithmetic of the compound headers),
//!   Drain<K>    pulls up to K fixed-width elements until the accessor says None/Err.

use crate::util::*;
use serde::de::{self, Deserialize, DeserializeSeed, Deserializer as _, MapAccess, SeqAccess, Visitor};
use serde_amqp::de::Deserializer;
use serde_amqp::read::{IoReader, SliceReader};
use std::fmt;

/// Accepts every visit_* with Ok(tag); compound accessors are left untouched.
pub struct HeaderOnly;

/// every visit_* not listed by a harness visitor returns Ok($v): no serde default `invalid_type`
/// (its Display drags float formatting into the formula)
macro_rules! accept_rest {
    ($val:ty, $v:expr; $($m:ident : $t:ty),* $(,)?) => {
        $(fn $m<E: de::Error>(self, _v: $t) -> Result<$val, E> { Ok($v) })*
        fn visit_none<E: de::Error>(self) -> Result<$val, E> { Ok($v) }
        fn visit_unit<E: de::Error>(self) -> Result<$val, E> { Ok($v) }
    };
}

macro_rules! accept {
    ($($m:ident : $t:ty => $tag:expr),* $(,)?) => {
        $(fn $m<E: de::Error>(self, _v: $t) -> Result<u8, E> { Ok($tag) })*
    };
}

impl<'de> Visitor<'de> for HeaderOnly {
    type Value = u8;
    fn expecting(&self, f: &mut fmt::Formatter) -> fmt::Result {
        f.write_str("anything")
    }
    accept!(visit_bool: bool => 1, visit_i8: i8 => 2, visit_i16: i16 => 3, visit_i32: i32 => 4, visit_i64: i64 => 5,
            visit_u8: u8 => 6, visit_u16: u16 => 7, visit_u32: u32 => 8, visit_u64: u64 => 9, visit_f32: f32 => 10,
            visit_f64: f64 => 11, visit_char: char => 12, visit_str: &str => 13, visit_borrowed_str: &'de str => 14,
            visit_string: String => 15, visit_bytes: &[u8] => 16, visit_borrowed_bytes: &'de [u8] => 17, visit_byte_buf: Vec<u8> => 18);
    fn visit_none<E: de::Error>(self) -> Result<u8, E> {
        Ok(19)
    }
    fn visit_unit<E: de::Error>(self) -> Result<u8, E> {
        Ok(20)
    }
    fn visit_some<D: de::Deserializer<'de>>(self, _d: D) -> Result<u8, D::Error> {
        Ok(21)
    }
    fn visit_newtype_struct<D: de::Deserializer<'de>>(self, _d: D) -> Result<u8, D::Error> {
        Ok(22)
    }
    fn visit_seq<A: SeqAccess<'de>>(self, _a: A) -> Result<u8, A::Error> {
        Ok(23)
    }
    fn visit_map<A: MapAccess<'de>>(self, _a: A) -> Result<u8, A::Error> {
        Ok(24)
    }
    fn visit_enum<A: de::EnumAccess<'de>>(self, _a: A) -> Result<u8, A::Error> {
        Ok(25)
    }
}

/// One fixed-width element: decoded by the real `deserialize_u8`.
pub struct ElemU8;
struct ElemU8Visitor;
impl<'de> Visitor<'de> for ElemU8Visitor {
    type Value = u8;
    fn expecting(&self, f: &mut fmt::Formatter) -> fmt::Result {
        f.write_str("u8")
    }
    fn visit_u8<E: de::Error>(self, v: u8) -> Result<u8, E> {
        Ok(v)
    }
    accept_rest!(u8, 0; visit_bool: bool, visit_i8: i8, visit_i16: i16, visit_i32: i32, visit_i64: i64, visit_u16: u16, visit_u32: u32, visit_u64: u64, visit_f32: f32, visit_f64: f64, visit_char: char, visit_str: &str, visit_string: String, visit_bytes: &[u8], visit_byte_buf: Vec<u8>);
}
impl<'de> DeserializeSeed<'de> for ElemU8 {
    type Value = u8;
    fn deserialize<D: de::Deserializer<'de>>(self, d: D) -> Result<u8, D::Error> {
        d.deserialize_u8(ElemU8Visitor)
    }
}

/// Pulls at most K elements; returns how many were produced. K is larger than any count an
/// N-byte input can carry, so "accessor still yields after K pulls" = spinning without consuming.
pub struct Drain<const K: usize>;
impl<'de, const K: usize> Visitor<'de> for Drain<K> {
    type Value = usize;
    fn expecting(&self, f: &mut fmt::Formatter) -> fmt::Result {
        f.write_str("seq or map")
    }
    fn visit_seq<A: SeqAccess<'de>>(self, mut a: A) -> Result<usize, A::Error> {
        let mut n = 0;
        while n < K {
            match a.next_element_seed(ElemU8)? {
                Some(_) => n += 1,
                None => return Ok(n),
            }
        }
        Ok(K + 1)
    }
    fn visit_map<A: MapAccess<'de>>(self, mut a: A) -> Result<usize, A::Error> {
        let mut n = 0;
        while n < K {
            match a.next_entry_seed(ElemU8, ElemU8)? {
                Some(_) => n += 1,
                None => return Ok(n),
            }
        }
        Ok(K + 1)
    }
}

/// Map drained with next_key_seed / next_value_seed (serde's default protocol for user visitors).
pub struct DrainKV<const K: usize>;
impl<'de, const K: usize> Visitor<'de> for DrainKV<K> {
    type Value = usize;
    fn expecting(&self, f: &mut fmt::Formatter) -> fmt::Result {
        f.write_str("map")
    }
    fn visit_map<A: MapAccess<'de>>(self, mut a: A) -> Result<usize, A::Error> {
        let mut n = 0;
        while n < K {
            match a.next_key_seed(ElemU8)? {
                Some(_) => {
                    a.next_value_seed(ElemU8)?;
                    n += 1
                }
                None => return Ok(n),
            }
        }
        Ok(K + 1)
    }
}

macro_rules! total_slice {
    ($name:ident, $n:expr, |$de:ident| $call:expr) => {
        harness!($name, |s| {
            let buf: [u8; $n] = s.bytes::<$n>();
            let mut d = Deserializer::new(SliceReader::new(&buf));
            let $de = &mut d;
            let r = $call;
            vcover!(s, r.is_ok(), "decoder returned Ok");
            vcover!(s, r.is_err(), "decoder returned Err");
            std::mem::forget(r);
        });
    };
    ($name:ident, $n:expr, short, |$de:ident| $call:expr) => {
        harness!($name, |s| {
            let buf: [u8; $n] = s.bytes::<$n>();
            let mut d = Deserializer::new(SliceReader::new(&buf));
            let $de = &mut d;
            let r = $call;
            vcover!(s, true, "decoder returned");
            std::mem::forget(r);
        });
    };
}

macro_rules! total_io {
    ($name:ident, $n:expr, |$de:ident| $call:expr) => {
        harness!($name, |s| {
            let buf: [u8; $n] = s.bytes::<$n>();
            let mut rd: &[u8] = &buf;
            let mut d = Deserializer::new(IoReader::new(&mut rd));
            let $de = &mut d;
            let r = $call;
            vcover!(s, r.is_ok(), "decoder returned Ok");
            vcover!(s, r.is_err(), "decoder returned Err");
            std::mem::forget(r);
            std::mem::forget(d);
        });
    };
}

// ---- compound headers: all 10-byte strings, header-only visitor ----
// @bound every byte string of exactly 10 bytes (shorter inputs are covered by the *_short harnesses)
// @desc deserialize_seq header arithmetic (list0/list8/list32/array8/array32) never panics/overflows
total_slice!(c04_seq_hdr_slice, 10, |de| de.deserialize_seq(HeaderOnly));
// @bound every byte string of exactly 10 bytes
total_io!(c04_seq_hdr_io, 10, |de| de.deserialize_seq(HeaderOnly));
// @bound every byte string of exactly 10 bytes; tuple arity 2
total_slice!(c04_tuple_hdr_slice, 10, |de| de.deserialize_tuple(2, HeaderOnly));
// @bound every byte string of exactly 10 bytes
total_slice!(c04_map_hdr_slice, 10, |de| de.deserialize_map(HeaderOnly));
// @bound every byte string of exactly 10 bytes
total_io!(c04_map_hdr_io, 10, |de| de.deserialize_map(HeaderOnly));
// @bound every byte string of exactly 10 bytes; struct with 2 named fields, no magic name
total_slice!(c04_struct_hdr_slice, 10, |de| de.deserialize_struct("S", &["a", "b"], HeaderOnly));
// @bound every byte string of exactly 10 bytes
total_slice!(c04_enum_hdr_slice, 10, |de| de.deserialize_enum("E", &["a", "b"], HeaderOnly));
// @bound every byte string of exactly 10 bytes
// @tier thorough
// @timeout 1800
total_slice!(c04_any_hdr_slice, 10, |de| de.deserialize_any(HeaderOnly));
// @bound every byte string of exactly 10 bytes
total_slice!(c04_option_hdr_slice, 10, |de| de.deserialize_option(HeaderOnly));
// @bound every byte string of exactly 10 bytes
// @tier thorough
// @timeout 1800
total_slice!(c04_identifier_slice, 10, |de| de.deserialize_identifier(HeaderOnly));
// @bound every byte string of exactly 12 bytes
// @tier thorough
// @timeout 1800
total_slice!(c04_ignored_any_slice, 12, |de| de.deserialize_ignored_any(HeaderOnly));

// ---- short inputs (truncation at every offset of a header) ----
// @bound every byte string of exactly 1/2/3/5 bytes
total_slice!(c04_seq_hdr_short1, 1, short, |de| de.deserialize_seq(HeaderOnly));
total_slice!(c04_seq_hdr_short2, 2, short, |de| de.deserialize_seq(HeaderOnly));
total_slice!(c04_seq_hdr_short3, 3, short, |de| de.deserialize_seq(HeaderOnly));
total_slice!(c04_seq_hdr_short5, 5, short, |de| de.deserialize_seq(HeaderOnly));
total_slice!(c04_map_hdr_short2, 2, short, |de| de.deserialize_map(HeaderOnly));
total_slice!(c04_map_hdr_short3, 3, short, |de| de.deserialize_map(HeaderOnly));
total_slice!(c04_map_hdr_short5, 5, short, |de| de.deserialize_map(HeaderOnly));

// ---- element pulls: draining visitors (progress + count arithmetic), one constructor per harness ----
macro_rules! total_pinned {
    ($name:ident, $n:expr, $code:expr, |$de:ident| $call:expr) => {
        harness!($name, |s| {
            let mut buf: [u8; $n] = s.bytes::<$n>();
            buf[0] = $code;
            let mut d = Deserializer::new(SliceReader::new(&buf));
            let $de = &mut d;
            let r = $call;
            vcover!(s, matches!(r, Ok(n) if n >= 1), "at least one element pulled");
            vcover!(s, r.is_err(), "decoder returned Err");
            // K+1 = accessor still yielding after more pulls than the bytes can hold
            assert!(!matches!(r, Ok(n) if n > $n), "[C04] accessor yields elements without consuming input");
            std::mem::forget(r);
        });
    };
}
// @bound every 9-byte string starting with list8 0xc0; elements decoded as ubyte (2 bytes each)
// @desc list accessor: yields at most what the bytes hold, then None/Err; no overflow
total_pinned!(c04_list8_drain, 9, LIST8, |de| de.deserialize_seq(Drain::<4>));
// @bound every 14-byte string starting with list32 0xd0
total_pinned!(c04_list32_drain, 14, LIST32, |de| de.deserialize_seq(Drain::<4>));
// @bound every 8-byte string starting with array8 0xe0; elements ubyte (1 byte each)
total_pinned!(c04_array8_drain, 8, ARRAY8, |de| de.deserialize_seq(Drain::<5>));
// @bound every 13-byte string starting with array32 0xf0
total_pinned!(c04_array32_drain, 13, ARRAY32, |de| de.deserialize_seq(Drain::<4>));
// @bound every 11-byte string starting with map8 0xc1; entries pulled with next_entry_seed
total_pinned!(c04_map8_drain_entry, 11, MAP8, |de| de.deserialize_map(Drain::<3>));
// @bound every 11-byte string starting with map8 0xc1; next_key_seed/next_value_seed
total_pinned!(c04_map8_drain_kv, 11, MAP8, |de| de.deserialize_map(DrainKV::<3>));
// @bound every 13-byte string starting with map32 0xd1
total_pinned!(c04_map32_drain_kv, 13, MAP32, |de| de.deserialize_map(DrainKV::<2>));
// @bound every 9-byte string starting with list8; tuple of arity 2
total_pinned!(c04_tuple2_drain, 9, LIST8, |de| de.deserialize_tuple(2, Drain::<4>));

// ---- described (composite) access: what a derive-generated visitor does, on the stack ----

/// Descriptor seed accepting only numeric codes: the real `deserialize_enum(DESCRIPTOR)`,
/// `VariantAccess`, `deserialize_identifier` (EnumType::Descriptor) and `deserialize_u64` run;
/// symbolic (named) descriptors are rejected without allocating a `Symbol`.
pub struct CodeDescriptor;
struct CodeDescriptorVisitor;
struct CodeField;
struct CodeFieldVisitor;
impl<'de> Visitor<'de> for CodeFieldVisitor {
    type Value = bool;
    fn expecting(&self, f: &mut fmt::Formatter) -> fmt::Result {
        f.write_str("variant identifier")
    }
    fn visit_u8<E: de::Error>(self, v: u8) -> Result<bool, E> {
        // true = numeric descriptor (ulong / smallulong / ulong0)
        Ok(v == ULONG || v == SMALLULONG || v == ULONG0)
    }
    accept_rest!(bool, false; visit_bool: bool, visit_i8: i8, visit_i16: i16, visit_i32: i32, visit_i64: i64, visit_u16: u16, visit_u32: u32, visit_u64: u64, visit_f32: f32, visit_f64: f64, visit_char: char, visit_str: &str, visit_string: String, visit_bytes: &[u8], visit_byte_buf: Vec<u8>);
}
impl<'de> DeserializeSeed<'de> for CodeField {
    type Value = bool;
    fn deserialize<D: de::Deserializer<'de>>(self, d: D) -> Result<bool, D::Error> {
        d.deserialize_identifier(CodeFieldVisitor)
    }
}
pub struct U64Seed;
struct U64Visitor;
impl<'de> Visitor<'de> for U64Visitor {
    type Value = u64;
    fn expecting(&self, f: &mut fmt::Formatter) -> fmt::Result {
        f.write_str("u64")
    }
    fn visit_u64<E: de::Error>(self, v: u64) -> Result<u64, E> {
        Ok(v)
    }
    accept_rest!(u64, 0; visit_bool: bool, visit_i8: i8, visit_i16: i16, visit_i32: i32, visit_i64: i64, visit_u8: u8, visit_u16: u16, visit_u32: u32, visit_f32: f32, visit_f64: f64, visit_char: char, visit_str: &str, visit_string: String, visit_bytes: &[u8], visit_byte_buf: Vec<u8>);
}
impl<'de> DeserializeSeed<'de> for U64Seed {
    type Value = u64;
    fn deserialize<D: de::Deserializer<'de>>(self, d: D) -> Result<u64, D::Error> {
        d.deserialize_u64(U64Visitor)
    }
}
impl<'de> Visitor<'de> for CodeDescriptorVisitor {
    type Value = Option<u64>;
    fn expecting(&self, f: &mut fmt::Formatter) -> fmt::Result {
        f.write_str("enum Descriptor")
    }
    fn visit_enum<A: de::EnumAccess<'de>>(self, data: A) -> Result<Option<u64>, A::Error> {
        use serde::de::VariantAccess;
        let (is_code, v) = data.variant_seed(CodeField)?;
        if is_code {
            Ok(Some(v.newtype_variant_seed(U64Seed)?))
        } else {
            Ok(None)
        }
    }
}
impl<'de> DeserializeSeed<'de> for CodeDescriptor {
    type Value = Option<u64>;
    fn deserialize<D: de::Deserializer<'de>>(self, d: D) -> Result<Option<u64>, D::Error> {
        d.deserialize_enum(serde_amqp::__constants::DESCRIPTOR, &["Name", "Code"], CodeDescriptorVisitor)
    }
}

/// Composite (described list) visitor shaped like the derive output: descriptor, then up to K
/// ubyte fields until the accessor says None.
pub struct Composite<const K: usize>;
impl<'de, const K: usize> Visitor<'de> for Composite<K> {
    type Value = usize;
    fn expecting(&self, f: &mut fmt::Formatter) -> fmt::Result {
        f.write_str("described list")
    }
    fn visit_seq<A: SeqAccess<'de>>(self, mut a: A) -> Result<usize, A::Error> {
        match a.next_element_seed(CodeDescriptor)? {
            Some(Some(_code)) => {}
            _ => return Ok(0),
        }
        let mut n = 0;
        while n < K {
            match a.next_element_seed(ElemU8)? {
                Some(_) => n += 1,
                None => return Ok(n + 1),
            }
        }
        Ok(K + 2)
    }
    fn visit_map<A: MapAccess<'de>>(self, mut a: A) -> Result<usize, A::Error> {
        match a.next_key_seed(CodeDescriptor)? {
            Some(Some(_code)) => {}
            _ => return Ok(0),
        }
        let mut n = 0;
        while n < K {
            match a.next_key_seed(ElemU8)? {
                Some(_) => {
                    a.next_value_seed(ElemU8)?;
                    n += 1
                }
                None => return Ok(n + 1),
            }
        }
        Ok(K + 2)
    }
}

// @unwind 5
// @bound every 8-byte string starting 0x00 0x53 (described, smallulong descriptor code)
// @desc DescribedAccess (list form): descriptor, list header consumption, field counting -- no overflow, terminates
harness!(c04_described_list_slice, |s| {
    let mut buf: [u8; 8] = s.bytes::<8>();
    buf[0] = DESCRIBED;
    buf[1] = SMALLULONG;
    let mut d = Deserializer::new(SliceReader::new(&buf));
    let r = (&mut d).deserialize_struct(serde_amqp::__constants::DESCRIBED_LIST, &["a", "b"], Composite::<2>);
    vcover!(s, matches!(r, Ok(n) if n >= 2), "descriptor and at least one field decoded");
    vcover!(s, r.is_err(), "decoder returned Err");
    std::mem::forget(r);
});

// @tier thorough
// @timeout 2400
// @mem 24
// @unwind 4
// @bound every 10-byte string starting 0x00 0x53; one key/value pull
// @desc DescribedAccess (map form)
harness!(c04_described_map_slice, |s| {
    let mut buf: [u8; 10] = s.bytes::<10>();
    buf[0] = DESCRIBED;
    buf[1] = SMALLULONG;
    let mut d = Deserializer::new(SliceReader::new(&buf));
    let r = (&mut d).deserialize_struct(serde_amqp::__constants::DESCRIBED_MAP, &["a", "b"], Composite::<1>);
    vcover!(s, matches!(r, Ok(n) if n >= 2), "descriptor and at least one entry decoded");
    vcover!(s, r.is_err(), "decoder returned Err");
    std::mem::forget(r);
});

// @unwind 5
// @bound every 12-byte string of the form 00 53 xx d0 <size:4> <count:4>: list32 header of a composite
// @desc DescribedAccess: field_count arithmetic with a 32-bit count from the wire
harness!(c04_described_list32_hdr, |s| {
    let mut buf: [u8; 12] = s.bytes::<12>();
    buf[0] = DESCRIBED;
    buf[1] = SMALLULONG;
    buf[3] = LIST32;
    let mut d = Deserializer::new(SliceReader::new(&buf));
    let r = (&mut d).deserialize_struct(serde_amqp::__constants::DESCRIBED_LIST, &["a", "b"], Composite::<0>);
    vcover!(s, true, "decoder returned");
    std::mem::forget(r);
});

// @unwind 5
// @bound every 13-byte string of the form 00 53 xx d1 <size:4> <count:4> ..: map32 header of a composite
harness!(c04_described_map32_hdr, |s| {
    let mut buf: [u8; 13] = s.bytes::<13>();
    buf[0] = DESCRIBED;
    buf[1] = SMALLULONG;
    buf[3] = MAP32;
    let mut d = Deserializer::new(SliceReader::new(&buf));
    let r = (&mut d).deserialize_struct(serde_amqp::__constants::DESCRIBED_MAP, &["a", "b"], Composite::<0>);
    vcover!(s, true, "decoder returned");
    std::mem::forget(r);
});

// @unwind 5
// @bound every 7-byte string starting 0x00 0x53: map header arithmetic only
// @desc DescribedAccess (map form), header consumption
harness!(c04_described_map_hdr, |s| {
    let mut buf: [u8; 7] = s.bytes::<7>();
    buf[0] = DESCRIBED;
    buf[1] = SMALLULONG;
    let mut d = Deserializer::new(SliceReader::new(&buf));
    let r = (&mut d).deserialize_struct(serde_amqp::__constants::DESCRIBED_MAP, &["a", "b"], Composite::<0>);
    vcover!(s, true, "decoder returned");
    std::mem::forget(r);
});

// @unwind 5
// @bound every 8-byte string starting 0x00 0x53; tuple-struct entry point
harness!(c04_described_tuple_struct_slice, |s| {
    let mut buf: [u8; 8] = s.bytes::<8>();
    buf[0] = DESCRIBED;
    buf[1] = SMALLULONG;
    let mut d = Deserializer::new(SliceReader::new(&buf));
    let r = (&mut d).deserialize_tuple_struct(serde_amqp::__constants::DESCRIBED_LIST, 2, Composite::<2>);
    vcover!(s, matches!(r, Ok(n) if n >= 2), "descriptor and at least one field decoded");
    std::mem::forget(r);
});

// ---- fixed-width primitives: every byte string of width+2 bytes, and re-encode stability ----
macro_rules! total_prim {
    ($name:ident, $t:ty, $n:expr, |$a:ident, $b:ident| $eq:expr) => {
        harness!($name, |s| {
            let buf: [u8; $n] = s.bytes::<$n>();
            let r: Result<$t, _> = serde_amqp::from_slice(&buf);
            if let Ok(x) = &r {
                // decode Ok => re-encode => decode gives the same value
                let v = serde_amqp::to_vec(x).unwrap();
                let y: $t = serde_amqp::from_slice(&v).unwrap();
                let ($a, $b) = (x, &y);
                assert!($eq, "[C04] decode->encode->decode changed the value");
                vcover!(s, true, "decoded Ok and re-encoded");
                std::mem::forget(v);
            }
            vcover!(s, r.is_err(), "decoder returned Err");
            std::mem::forget(r);
        });
    };
}
// @bound every byte string of exactly (widest encoding + 1) bytes, typed entry point from_slice::<T>
total_prim!(c04_prim_bool, bool, 3, |a, b| a == b);
total_prim!(c04_prim_u8, u8, 3, |a, b| a == b);
total_prim!(c04_prim_u16, u16, 4, |a, b| a == b);
total_prim!(c04_prim_u32, u32, 6, |a, b| a == b);
total_prim!(c04_prim_u64, u64, 10, |a, b| a == b);
total_prim!(c04_prim_i8, i8, 3, |a, b| a == b);
total_prim!(c04_prim_i16, i16, 4, |a, b| a == b);
total_prim!(c04_prim_i32, i32, 6, |a, b| a == b);
total_prim!(c04_prim_i64, i64, 10, |a, b| a == b);
total_prim!(c04_prim_f32, f32, 6, |a, b| a.to_bits() == b.to_bits());
total_prim!(c04_prim_f64, f64, 10, |a, b| a.to_bits() == b.to_bits());
total_prim!(c04_prim_char, char, 6, |a, b| a == b);
total_prim!(c04_prim_timestamp, serde_amqp::primitives::Timestamp, 10, |a, b| a.milliseconds() == b.milliseconds());
total_prim!(c04_prim_uuid, serde_amqp::primitives::Uuid, 18, |a, b| a.as_inner() == b.as_inner());
total_prim!(c04_prim_dec32, serde_amqp::primitives::Dec32, 6, |a, b| a.as_inner() == b.as_inner());
// @tier thorough
// @timeout 2400
// @mem 24
// @unwind 3
total_prim!(c04_prim_dec64, serde_amqp::primitives::Dec64, 10, |a, b| a.as_inner() == b.as_inner());
// @tier thorough
// @timeout 2400
// @mem 24
// @unwind 3
total_prim!(c04_prim_opt_u16, Option<u16>, 4, |a, b| a == b);

// ---- allocation proportional to the input: the decoder must not allocate what a length field merely claims ----
// Under Kani `Global::alloc_impl` / `Global::grow_impl` (every heap allocation and growth) are stubbed
// by functions asserting size <= LIMIT; natively the replay binary's global allocator records the
// largest request.

#[cfg(kani)]
pub static mut ALLOC_LIMIT: usize = usize::MAX;

/// Stub for `alloc::alloc::Global::alloc_impl` (every Vec/String/Box allocation goes through it):
/// asserts the requested size against the limit set by the harness, then allocates for real.
#[cfg(kani)]
pub fn alloc_impl_stub(_g: &std::alloc::Global, layout: std::alloc::Layout, zeroed: bool) -> Result<std::ptr::NonNull<[u8]>, std::alloc::AllocError> {
    use std::ptr::NonNull;
    unsafe {
        assert!(layout.size() <= ALLOC_LIMIT, "[C04] allocation out of proportion to the input length");
    }
    if layout.size() == 0 {
        return Ok(NonNull::slice_from_raw_parts(unsafe { NonNull::new_unchecked(layout.align() as *mut u8) }, 0));
    }
    let p = unsafe {
        if zeroed {
            std::alloc::alloc_zeroed(layout)
        } else {
            std::alloc::alloc(layout)
        }
    };
    NonNull::new(p).map(|p| NonNull::slice_from_raw_parts(p, layout.size())).ok_or(std::alloc::AllocError)
}

/// Stub for `Global::grow_impl` (Vec growth): same assertion on the new size.
#[cfg(kani)]
pub unsafe fn grow_impl_stub(_g: &std::alloc::Global, ptr: std::ptr::NonNull<u8>, old: std::alloc::Layout, new: std::alloc::Layout, zeroed: bool) -> Result<std::ptr::NonNull<[u8]>, std::alloc::AllocError> {
    use std::ptr::NonNull;
    assert!(new.size() <= ALLOC_LIMIT, "[C04] buffer grown out of proportion to the input length");
    let p = if zeroed { std::alloc::alloc_zeroed(new) } else { std::alloc::alloc(new) };
    let p = NonNull::new(p).ok_or(std::alloc::AllocError)?;
    std::ptr::copy_nonoverlapping(ptr.as_ptr(), p.as_ptr(), old.size());
    if old.size() != 0 {
        std::alloc::dealloc(ptr.as_ptr(), old);
    }
    Ok(NonNull::slice_from_raw_parts(p, new.size()))
}

/// a type whose Deserialize asks for a borrowed str (IoReader::forward_read_str -> fill_buffer)
pub struct StrOnly;
impl<'de> serde::Deserialize<'de> for StrOnly {
    fn deserialize<D: serde::Deserializer<'de>>(d: D) -> Result<Self, D::Error> {
        struct V;
        impl<'de> serde::de::Visitor<'de> for V {
            type Value = StrOnly;
            fn expecting(&self, f: &mut std::fmt::Formatter) -> std::fmt::Result {
                f.write_str("str")
            }
            fn visit_str<E>(self, _: &str) -> Result<StrOnly, E> {
                Ok(StrOnly)
            }
        }
        d.deserialize_str(V)
    }
}
/// a type whose Deserialize asks for borrowed bytes (IoReader::forward_read_bytes_with_hint -> fill_buffer)
pub struct BytesOnly;
impl<'de> serde::Deserialize<'de> for BytesOnly {
    fn deserialize<D: serde::Deserializer<'de>>(d: D) -> Result<Self, D::Error> {
        struct V;
        impl<'de> serde::de::Visitor<'de> for V {
            type Value = BytesOnly;
            fn expecting(&self, f: &mut std::fmt::Formatter) -> std::fmt::Result {
                f.write_str("bytes")
            }
            fn visit_bytes<E>(self, _: &[u8]) -> Result<BytesOnly, E> {
                Ok(BytesOnly)
            }
        }
        d.deserialize_bytes(V)
    }
}

macro_rules! alloc_harness {
    ($name:ident, $n:expr, $code:expr, |$buf:ident| $call:expr) => {
        #[cfg(kani)]
        #[kani::proof]
        #[kani::stub(alloc::fmt::format, crate::vsrc::stub_format)]
        #[kani::stub(alloc::alloc::Global::alloc_impl, crate::total::alloc_impl_stub)]
        #[kani::stub(alloc::alloc::Global::grow_impl, crate::total::grow_impl_stub)]
        pub fn $name() {
            let mut $buf: [u8; $n] = kani::any();
            $buf[0] = $code;
            unsafe { ALLOC_LIMIT = $n + 4096 + 64 };
            let r = $call;
            kani::cover!(r.is_err(), "decoder returned Err");
            std::mem::forget(r);
        }
        #[cfg(not(kani))]
        pub fn $name(s: &mut crate::vsrc::S) {
            let mut $buf: [u8; $n] = s.bytes::<$n>();
            $buf[0] = $code;
            crate::alloc_track::reset();
            let r = $call;
            std::mem::forget(r);
            let peak = crate::alloc_track::peak();
            assert!(peak <= $n + 4096, "[C04] allocation out of proportion to the input length: a {}-byte input made the decoder request {} bytes", $n, peak);
        }
    };
}

// @unwind 4
// @bound every 7-byte input starting with vbin32 / vbin8 / str32 / sym32: the size field is any 32-bit value, the data is (at most) 2 bytes
// @desc a length field on the wire does not make the decoder allocate more than the input can justify (input length + 4 KiB)
alloc_harness!(c04_alloc_vbin32_slice, 7, VBIN32, |buf| serde_amqp::from_slice::<serde_bytes::ByteBuf>(&buf));
// @tier-of c04_alloc_vbin32_io probe
// @mem 40
alloc_harness!(c04_alloc_vbin32_io, 7, VBIN32, |buf| serde_amqp::from_reader::<serde_bytes::ByteBuf>(&buf[..]));
// @tier-of c04_alloc_str32_io_borrowed probe
// @unwind 4100
// @mem 40
// @bound as above, through IoReader::fill_buffer (a visitor that takes &str / &[u8]); the 4 KiB zero-fill loop is unwound completely
alloc_harness!(c04_alloc_str32_io_borrowed, 7, 0xb1, |buf| serde_amqp::from_reader::<StrOnly>(&buf[..]));
// @tier-of c04_alloc_vbin32_io_borrowed probe
// @unwind 4100
// @mem 40
alloc_harness!(c04_alloc_vbin32_io_borrowed, 7, VBIN32, |buf| serde_amqp::from_reader::<BytesOnly>(&buf[..]));
// @unwind 4
alloc_harness!(c04_alloc_vbin8_slice, 4, VBIN8, |buf| serde_amqp::from_slice::<serde_bytes::ByteBuf>(&buf));
