//! Solver harnesses: decoding untrusted bytes is total (C04).
#![cfg_attr(kani, feature(allocator_api))]
#![allow(clippy::all, dead_code, unused_imports, unused_macros)]

#[path = "../../vsrc.rs"]
#[macro_use]
pub mod vsrc;

#[path = "../../codec_util.rs"]
pub mod util;

pub mod total;

#[cfg(not(kani))]
pub mod alloc_track;

#[cfg(not(kani))]
include!(concat!(env!("OUT_DIR"), "/registry.rs"));
