"""Engine M, part 2: obligations = symbolic runs of named MIR functions + SMT queries.

Every query is built with the z3 Python API from the executor's terms, exported as SMT-LIB2,
and decided by the z3 library AND re-decided from the exported text by cvc5 (and /usr/bin/z3);
any disagreement or error line makes the obligation inconclusive.
"""
import glob
import json
import os
import re
import subprocess
import time

import z3

import mir

VERIF = os.path.dirname(os.path.dirname(os.path.abspath(__file__)))
BUILD = os.path.join(VERIF, ".build")
HOOK_CFG = "--cfg fe2o3_amqp_verif"


def normalize_paths(text):
    """rustc prints the shortest unambiguous path of an item ("trimmed paths"), so the same item is
    `BytesMut` or `bytes::BytesMut` depending on what else is in scope (cargo features, a new import).
    The obligations' call models match on names: print these well-known items one way."""
    return re.sub(r"\bbytes::(BytesMut|BufMut|Buf)\b", r"\1", text)


class Env:
    """MIR of the current tree + layouts; built once per check run."""

    def __init__(self, log):
        self.log = log
        t0 = time.time()
        os.makedirs(os.path.join(BUILD, "mir"), exist_ok=True)
        out = os.path.join(BUILD, "mir", "fe2o3.mir")
        env = dict(os.environ)
        env["RUSTFLAGS"] = (env.get("RUSTFLAGS", "") + " " + HOOK_CFG).strip()
        env["CARGO_NET_OFFLINE"] = "true"
        # `touch` so that rustc re-emits the MIR even when nothing changed
        os.utime("/repo/fe2o3-amqp/src/lib.rs", None) if os.access("/repo/fe2o3-amqp/src/lib.rs", os.W_OK) else None
        cmd = ["cargo", "+nightly", "rustc", "-p", "fe2o3-amqp", "--lib", "--offline", "--features", "acceptor,transaction,scram", "--target-dir", os.path.join(BUILD, "mir", "target"), "--", "-Zunpretty=mir", "-C", "overflow-checks=on", "-C", "debug-assertions=off"]
        if os.environ.get("VERIF_DEV_MIR_CACHE") and os.path.exists(out):
            # development only (never set by a registered command): reuse the last dump while writing obligations
            class _P:
                returncode, stdout, stderr = 0, open(out).read(), "cached"
            p = _P()
        else:
            p = subprocess.run(cmd, cwd="/repo", env=env, stdout=subprocess.PIPE, stderr=subprocess.PIPE, text=True)
        with open(log, "w") as f:
            f.write(p.stderr)
        if p.returncode != 0 or len(p.stdout) < 1000:
            raise RuntimeError(f"MIR dump failed (see {log})")
        open(out, "w").write(p.stdout)
        self.mir_s = round(time.time() - t0, 1)
        self.fns = mir.parse_mir(normalize_paths(p.stdout))
        srcs = glob.glob("/repo/fe2o3-amqp/src/**/*.rs", recursive=True) + glob.glob("/repo/fe2o3-amqp-types/src/**/*.rs", recursive=True)
        self.structs, self.enums = mir.parse_layouts(srcs)
        self.consts = mir.parse_consts(srcs)

    def crate(self, pkg):
        """MIR + layouts of another workspace crate (dumped on first use): an Env-like view"""
        if not hasattr(self, "_crates"):
            self._crates = {}
        if pkg in self._crates:
            return self._crates[pkg]
        t0 = time.time()
        env = dict(os.environ)
        env["CARGO_NET_OFFLINE"] = "true"
        lib = f"/repo/{pkg}/src/lib.rs"
        os.utime(lib, None) if os.access(lib, os.W_OK) else None
        cmd = ["cargo", "+nightly", "rustc", "-p", pkg, "--lib", "--offline", "--target-dir", os.path.join(BUILD, "mir", "target-" + pkg), "--", "-Zunpretty=mir", "-C", "overflow-checks=on", "-C", "debug-assertions=off"]
        p = subprocess.run(cmd, cwd="/repo", env=env, stdout=subprocess.PIPE, stderr=subprocess.PIPE, text=True)
        with open(self.log + "." + pkg, "w") as f:
            f.write(p.stderr)
        if p.returncode != 0 or len(p.stdout) < 1000:
            raise RuntimeError(f"MIR dump of {pkg} failed (see {self.log}.{pkg})")
        open(os.path.join(BUILD, "mir", pkg + ".mir"), "w").write(p.stdout)
        sub = Env.__new__(Env)
        sub.log = self.log
        sub.fns = mir.parse_mir(normalize_paths(p.stdout))
        srcs = glob.glob(f"/repo/{pkg}/src/**/*.rs", recursive=True)
        sub.structs, sub.enums = mir.parse_layouts(srcs)
        sub.consts = mir.parse_consts(srcs)
        sub.mir_s = round(time.time() - t0, 1)
        self.mir_s = round(self.mir_s + sub.mir_s, 1)
        self._crates[pkg] = sub
        return sub

    def executor(self, inline=None, max_visits=3):
        return mir.Executor(self.fns, self.structs, self.enums, inline=inline, max_visits=max_visits, consts=self.consts)

    def fn(self, pattern, sig=None):
        return mir.find_fn(self.fns, pattern, sig)

    def fidx(self, struct, field):
        order = self.structs.get(struct)
        if order is None or field not in order:
            raise mir.Unsupported(f"field {struct}.{field} not found in the source (renamed?)")
        return order.index(field)


class Obligation:
    def __init__(self, name, prop):
        self.name = name
        self.prop = prop
        self.queries = []  # dict(name, kind, solver, expect)
        self.functions = []
        self.bounds = []
        self.assumes = []
        self.desc = ""
        self.replay = None  # callable(model) -> (cmdline for mvalidate, predicate(json)->bool violated)
        self.collect_all = False  # evaluate every query even after a failure (each failure is judged on its own)

    def prove(self, qname, hyps, goal, replay=None):
        s = z3.Solver()
        s.add(*hyps)
        s.add(z3.Not(goal))
        self.queries.append({"name": qname, "kind": "prove", "solver": s, "replay": replay})

    def cover(self, qname, conds):
        s = z3.Solver()
        s.add(*conds)
        self.queries.append({"name": qname, "kind": "cover", "solver": s, "replay": None})


def run_external(smt2, solver_cmd, timeout):
    try:
        p = subprocess.run(solver_cmd, input=smt2, stdout=subprocess.PIPE, stderr=subprocess.STDOUT, text=True, timeout=timeout)
    except subprocess.TimeoutExpired:
        return "timeout"
    out = p.stdout.strip().splitlines()
    if any("(error" in l for l in out):
        return "error: " + " ".join(out)[:200]
    for l in out:
        if l.strip() in ("sat", "unsat", "unknown"):
            return l.strip()
    return "error: " + " ".join(out)[:200]


def decide(q, timeout_s, smtdir):
    """returns dict(status, model, times)"""
    s = q["solver"]
    s.set("timeout", timeout_s * 1000)
    t0 = time.time()
    r = s.check()
    tz = time.time() - t0
    smt2 = "(set-logic ALL)\n" + s.to_smt2()
    path = os.path.join(smtdir, re.sub(r"[^A-Za-z0-9_.-]", "_", q["name"]) + ".smt2")
    open(path, "w").write(smt2)
    t1 = time.time()
    # cvc5: its integer encoding of the bit-vector semantics first (--solve-bv-as-int=sum decides the
    # add/sub chains of unrolled loops quickly), plain bit-blasting as the fallback
    rc = run_external(smt2, ["cvc5", "--lang", "smt2", "--solve-bv-as-int=sum", "--tlimit=20000"], 25)
    if rc not in ("sat", "unsat"):
        rc = run_external(smt2, ["cvc5", "--lang", "smt2", f"--tlimit={timeout_s * 1000}"], timeout_s + 5)
    tc = time.time() - t1
    t2 = time.time()
    ro = run_external(smt2, ["/usr/bin/z3", "-in", f"-T:{timeout_s}"], timeout_s + 5)
    to = time.time() - t2
    res = {"z3py": str(r), "cvc5": rc, "z3bin": ro, "t_z3py": round(tz, 3), "t_cvc5": round(tc, 3), "t_z3bin": round(to, 3), "smt2": path}
    verdicts = {str(r), rc, ro}
    if len(verdicts) != 1 or str(r) not in ("sat", "unsat"):
        res["status"] = "inconclusive"
        return res
    res["status"] = str(r)
    if r == z3.sat:
        res["model"] = s.model()
    return res


def model_value(model, term, default=0):
    v = model.eval(term, model_completion=True)
    if z3.is_bv_value(v):
        return v.as_long()
    if z3.is_true(v):
        return 1
    if z3.is_false(v):
        return 0
    return default


_MVALIDATE = None


def mvalidate_exe(log):
    global _MVALIDATE
    if _MVALIDATE:
        return _MVALIDATE
    env = dict(os.environ)
    env["RUSTFLAGS"] = (env.get("RUSTFLAGS", "") + " " + HOOK_CFG).strip()
    env["CARGO_NET_OFFLINE"] = "true"
    tdir = os.path.join(BUILD, "proto-native")
    crate = os.path.join(VERIF, "kani", "proto")
    if not os.path.exists(os.path.join(crate, "Cargo.lock")):
        import shutil

        shutil.copy("/repo/Cargo.lock", os.path.join(crate, "Cargo.lock"))
    p = subprocess.run(["cargo", "build", "--offline", "--features", "scram", "--bin", "mvalidate", "--target-dir", tdir], cwd=crate, env=env, stdout=subprocess.PIPE, stderr=subprocess.STDOUT, text=True)
    with open(log, "a") as f:
        f.write(p.stdout)
    if p.returncode != 0:
        raise RuntimeError(f"native oracle build failed (see {log})")
    _MVALIDATE = os.path.join(tdir, "debug", "mvalidate")
    return _MVALIDATE


def native(lines, log):
    exe = mvalidate_exe(log)
    p = subprocess.run([exe], input="\n".join(lines) + "\n", stdout=subprocess.PIPE, stderr=subprocess.DEVNULL, text=True, timeout=120)
    return [json.loads(l) for l in p.stdout.strip().splitlines()]
