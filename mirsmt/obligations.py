"""Engine M obligations, per property. Each function receives the Env (MIR of the current tree)
and returns a list of Obligation objects whose queries are then decided by the solvers."""
import re
import z3

import mir
from engine import Obligation, model_value

BV32 = lambda n: z3.BitVec(n, 32)  # noqa: E731
INLINE_CONST = {r"Constant::<u32>::value$": r"util::<impl at [^>]*>::value$"}

SESSION_SCALARS = ["next_outgoing_id", "incoming_window", "outgoing_window", "next_incoming_id", "need_flow_count", "remote_incoming_window", "remote_outgoing_window"]


TIER = "quick"  # set by run.py; the thorough tier unrolls loops further / explores more of each coroutine


def _mv(quick, thorough=None):
    """loop-unrolling bound for this tier"""
    return quick if TIER != "thorough" else (thorough if thorough is not None else quick + 2)


def session_pre(env, tag="pre"):
    S = mir.Agg("self")
    v = {}
    for n in SESSION_SCALARS:
        v[n] = BV32(f"{tag}.{n}")
        S[env.fidx("Session", n)] = v[n]
    c = mir.Agg("Constant")
    v["initial_outgoing_id"] = BV32(f"{tag}.initial_outgoing_id")
    c[0] = v["initial_outgoing_id"]
    S[env.fidx("Session", "initial_outgoing_id")] = c
    st = mir.Agg("SessionState")
    v["local_state"] = z3.BitVec(f"{tag}.local_state", 64)
    st["#d"] = v["local_state"]
    S[env.fidx("Session", "local_state")] = st
    return S, v


def session_post(env, path):
    S = path.locals["@self"]
    out = {}
    for n in SESSION_SCALARS:
        out[n] = S.get(env.fidx("Session", n))
    ls = S.get(env.fidx("Session", "local_state"))
    out["local_state"] = ls.get("#d") if isinstance(ls, mir.Agg) else None
    return out


def state_valid(env, d, enum="SessionState"):
    return z3.Or(*[d == v for v in sorted(env.enums[enum].values())])


def opt_u32(tag):
    a = mir.Agg(tag)
    d = z3.BitVec(f"{tag}.is_some", 64)
    a["#d"] = d
    sub = mir.Agg("Some")
    val = BV32(f"{tag}.value")
    sub[0] = val
    a[("as", "Some")] = sub
    return a, d, val


def pc(path):
    return z3.And(*path.cond) if path.cond else z3.BoolVal(True)


def session_cmd(v, m, state=3):
    """command-line prefix for mvalidate from a model"""
    g = lambda n: model_value(m, v[n])  # noqa: E731
    return f"{state} {g('initial_outgoing_id')} {g('next_outgoing_id')} {g('incoming_window')} {g('outgoing_window')} {g('next_incoming_id')} {g('need_flow_count')} {g('remote_incoming_window')} {g('remote_outgoing_window')}"


# ======================================================================================
# C07 / C11: session window arithmetic and delivery-id stamping
# ======================================================================================


def c07_send_step(env):
    o = Obligation("c07_send_step", "C07")
    o.desc = "sending one transfer frame: next-outgoing-id advances by exactly one (mod 2^32) and the remote-incoming-window shrinks by one; a frame that starts a delivery (delivery-tag present) is stamped with delivery-id = next-outgoing-id, other frames get none"
    fn = env.fn(r"^session::<impl at [^>]*>::on_outgoing_transfer_inner$")
    o.functions = [fn.name]
    o.bounds = ["one call from an arbitrary session state; all 32-bit counter values"]
    ex = env.executor()
    S, v = session_pre(env)
    T = mir.Agg("transfer")
    tag_d = z3.BitVec("transfer.delivery_tag.is_some", 64)
    tg = mir.Agg("tag")
    tg["#d"] = tag_d
    T[env.fidx("Transfer", "delivery_tag")] = tg
    did, did_d, did_v = opt_u32("transfer.delivery_id")
    T[env.fidx("Transfer", "delivery_id")] = did
    paths = ex.run(fn, {"_1": mir.Ref(("@self",), True), "@self": S, "_3": T})
    hyp = ex.assumptions + [z3.ULE(tag_d, 1), z3.ULE(did_d, 1)]
    n_ret = 0
    for i, p in enumerate(paths):
        if p.end == "unwind":
            continue
        if p.end != "return":
            o.prove(f"path{i}:ends-normally", hyp + p.cond, z3.BoolVal(False))
            continue
        n_ret += 1
        post = session_post(env, p)
        goal = z3.And(
            post["next_outgoing_id"] == v["next_outgoing_id"] + 1,
            post["remote_incoming_window"] == z3.If(v["remote_incoming_window"] == 0, z3.BitVecVal(0, 32), v["remote_incoming_window"] - 1),
            post["next_incoming_id"] == v["next_incoming_id"],
            post["incoming_window"] == v["incoming_window"],
            post["outgoing_window"] == v["outgoing_window"],
        )
        def replay_send_step(m, v=v, tag_d=tag_d):
            noi, riw = model_value(m, v["next_outgoing_id"]), model_value(m, v["remote_incoming_window"])
            has_tag = model_value(m, tag_d)
            riw1 = riw if riw > 0 else 1  # the public entry point only sends with the window open
            cmd = f"transfer 3 0 {noi} 10 10 {model_value(m, v['next_incoming_id'])} 0 {riw1} 0 {has_tag} 0"

            def bad(js):
                if js.get("panic") or not js["ok"] or len(js["frames"]) != 1:
                    return True
                did = js["frames"][0][0]
                return js["next_outgoing_id"] != (noi + 1) % (1 << 32) or js["remote_incoming_window"] != riw1 - 1 or (did != noi if has_tag else did != -1)

            return cmd, bad

        o.prove(f"path{i}:counters", hyp + p.cond, goal, replay=replay_send_step)
        t = p.locals["_3"][env.fidx("Transfer", "delivery_id")]
        stamped = z3.And(t["#d"] == 1, t[("as", "Some")][0] == v["next_outgoing_id"])
        untouched = z3.And(t["#d"] == did_d, z3.Implies(did_d == 1, t[("as", "Some")][0] == did_v))
        o.prove(f"path{i}:delivery-id", hyp + p.cond, z3.If(tag_d == 1, stamped, untouched), replay=replay_send_step)
        for (d, ok, c) in p.obligations:
            o.prove(f"path{i}:{d}", hyp + c, ok)
    o.cover("a returning path exists with a delivery-tag", hyp + [z3.Or(*[pc(p) for p in paths if p.end == "return"]), tag_d == 1] if n_ret else [z3.BoolVal(False)])
    return [o]


def flow_agg(env, tag="flow"):
    F = mir.Agg(tag)
    nii, nii_d, nii_v = opt_u32(f"{tag}.next_incoming_id")
    F[env.fidx("Flow", "next_incoming_id")] = nii
    f = {"nii_d": nii_d, "nii_v": nii_v}
    for n in ("incoming_window", "next_outgoing_id", "outgoing_window"):
        f[n] = BV32(f"{tag}.{n}")
        F[env.fidx("Flow", n)] = f[n]
    return F, f


def c07_recompute(env):
    o = Obligation("c07_flow_recompute", "C07")
    o.desc = "on a flow from the peer: remote-incoming-window := next-incoming-id_flow + incoming-window_flow - next-outgoing-id_endpoint in RFC-1982 serial arithmetic, floored at 0 when the frames in flight already exceed the (shrunk) window (unset next-incoming-id => initial-outgoing-id); next-incoming-id := next-outgoing-id_flow; remote-outgoing-window := outgoing-window_flow"
    fn = env.fn(r"^session::<impl at [^>]*>::on_incoming_flow_inner::\{closure#0\}$")
    o.functions = [fn.name, "util::Constant::value (inlined)"]
    o.bounds = ["the coroutine body from its initial state up to its first suspension/return; all 32-bit values"]
    o.assumes = []
    ex = env.executor(inline=INLINE_CONST)
    S, v = session_pre(env)
    F, f = flow_agg(env)
    cor = mir.Agg("coroutine")
    cor["#d"] = z3.BitVecVal(0, 64)
    cor[0] = mir.Ref(("@self",), True)
    cor[1] = F
    pin = mir.Agg("pin")
    pin[0] = mir.Ref(("@cor",), True)
    paths = ex.run(fn, {"_1": pin, "@cor": cor, "@self": S})
    a = z3.If(f["nii_d"] == 1, f["nii_v"], v["initial_outgoing_id"])
    in_flight = v["next_outgoing_id"] - a
    w = f["incoming_window"]
    hyp = ex.assumptions + [z3.ULE(f["nii_d"], 1)]
    # frames the peer has not accounted for come out of the window it advertises; if they already
    # exceed it (the peer shrank its window) nothing more may be sent: the window is 0, not negative
    want = z3.If(z3.ULE(in_flight, w), w - in_flight, z3.BitVecVal(0, 32))

    def replay(m):
        cmd = f"flow {session_cmd(v, m)} {model_value(m, f['nii_d'])} {model_value(m, f['nii_v'])} {model_value(m, f['incoming_window'])} {model_value(m, f['next_outgoing_id'])} {model_value(m, f['outgoing_window'])}"
        aa = model_value(m, a)
        infl = (model_value(m, v['next_outgoing_id']) - aa) % (1 << 32)
        exp = model_value(m, w) - infl if infl <= model_value(m, w) else 0
        return cmd, (lambda js: js.get("panic") or js["remote_incoming_window"] != exp or js["next_incoming_id"] != model_value(m, f["next_outgoing_id"]) or js["remote_outgoing_window"] != model_value(m, f["outgoing_window"]))

    n = 0
    for i, p in enumerate(paths):
        if p.end == "unwind":
            continue
        post = session_post(env, p)
        if post["remote_incoming_window"] is None:
            continue
        n += 1
        goal = z3.And(post["remote_incoming_window"] == want, post["next_incoming_id"] == f["next_outgoing_id"], post["remote_outgoing_window"] == f["outgoing_window"], post["next_outgoing_id"] == v["next_outgoing_id"])
        o.prove(f"path{i}({p.end}):window", hyp + p.cond, goal, replay=replay)
        for (d, ok, c) in p.obligations:
            if "unreachable" in d:
                o.prove(f"path{i}:{d}", hyp + c, ok)
    allp = [pc(p) for p in paths if p.end != "unwind"]
    o.cover("flow whose window limit wraps past 2^32", hyp + [z3.Or(*allp), f["nii_d"] == 1, z3.UGT(f["nii_v"], 0xFFFFFF00), z3.Not(z3.BVAddNoOverflow(f["nii_v"], w, False)), in_flight != w])
    o.cover("flow with next-incoming-id unset", hyp + [z3.Or(*allp), f["nii_d"] == 0])
    o.cover("peer shrinks its window below the frames in flight", hyp + [z3.Or(*allp), z3.UGT(in_flight, w), z3.ULT(in_flight, 1000)])
    return [o]


def c07_call_sites(env):
    """every transfer frame is sent with remote-incoming-window > 0 (never beyond the peer's window);
    a transfer that must wait is queued, not sent and not dropped"""
    out = []
    inner_pat = r"on_outgoing_transfer_inner"
    targets = [
        ("c07_gate_on_outgoing_transfer", r"^session::<impl at [^>]*>::on_outgoing_transfer$", "Session::on_outgoing_transfer"),
        ("c07_gate_drain_buffered", r"^session::<impl at [^>]*>::prepare_session_frames_from_buffered_transfers$", "Session::prepare_session_frames_from_buffered_transfers"),
        ("c07_gate_drain_buffered_and_current", r"^session::<impl at [^>]*>::prepare_session_frames_from_buffered_and_current_transfers$", "Session::prepare_session_frames_from_buffered_and_current_transfers"),
    ]
    for name, pat, nice in targets:
        o = Obligation(name, "C07")
        o.desc = f"{nice}: at every call site of the send step the path condition implies remote-incoming-window > 0; loop bodies are executed from a havocked loop-head state (the callee and every call taking &mut self havoc the whole session slice), i.e. one inductive step"
        fn = env.fn(pat)
        o.functions = [fn.name]
        o.bounds = ["each loop unrolled up to 3 times from arbitrary states; all 32-bit window values"]
        ex = env.executor(max_visits=3)
        S, v = session_pre(env)
        # snapshot of remote_incoming_window at each call: recorded through the call log by reading self
        riw_idx = env.fidx("Session", "remote_incoming_window")
        buf_idx = env.fidx("Session", "remote_incoming_window_exhausted_buffer")
        calls_seen = {"n": 0, "push": 0, "pop": 0}
        orig = ex.exec_term

        def wrapped(fn_, st, term, depth, ex=ex, o=o, calls_seen=calls_seen):
            import re as _re

            cm = mir.split_call(term.strip())
            callee = cm[1] if cm else ""
            if cm and _re.search(inner_pat, callee) and "::{closure" not in callee:
                cur = st.locals.get("@self")
                riw = cur.get(riw_idx) if isinstance(cur, mir.Agg) else None
                if riw is None:
                    riw = ex.read_place(st, f"((*_1).{riw_idx}: u32)")
                calls_seen["n"] += 1
                o.prove(f"call{calls_seen['n']}@{fn_.name.split('::')[-1]}:window-open", ex.assumptions + list(st.cond), z3.UGT(riw, 0))
            if cm and callee.startswith("VecDeque::<"):
                op = callee.rsplit("::", 1)[-1]
                if op == "push_back":
                    calls_seen["push"] += 1
                elif op == "pop_front":
                    calls_seen["pop"] += 1
                elif op not in ("is_empty", "len"):
                    raise mir.Unsupported(f"unexpected operation on the hold-back buffer: {callee[:80]}")
            return orig(fn_, st, term, depth)

        ex.exec_term = wrapped
        paths = ex.run(fn, {"_1": mir.Ref(("@self",), True), "@self": S})
        o.cover("some path reaches a send", [z3.BoolVal(calls_seen["n"] > 0)])
        if name == "c07_gate_on_outgoing_transfer":
            # window closed => nothing is sent and the transfer is queued (push_back on that path)
            for i, p in enumerate(paths):
                if p.end != "return":
                    continue
                sent = [c for c in p.calls if _is(c[0], inner_pat) or "prepare_session_frames" in c[0]]
                queued = [c for c in p.calls if "push_back" in c[0]]
                closed = v["remote_incoming_window"] == 0
                if sent:
                    o.prove(f"path{i}:no-send-when-closed", ex.assumptions + p.cond, z3.Not(closed))
                if not sent:
                    o.prove(f"path{i}:held-back-only-when-closed", ex.assumptions + p.cond, closed)
                    o.prove(f"path{i}:held-back-is-queued", ex.assumptions + p.cond, z3.BoolVal(len(queued) == 1))
                    post = session_post(env, p)
                    o.prove(f"path{i}:held-back-leaves-counters", ex.assumptions + p.cond, z3.And(post["next_outgoing_id"] == v["next_outgoing_id"], post["remote_incoming_window"] == v["remote_incoming_window"]))
        out.append(o)
    return out


def _is(callee, pat):
    import re

    return re.search(pat, callee) is not None and "::{closure" not in callee


def c07_invariant(env):
    """I: in_flight(n, a) <= w  and  riw <= w - in_flight  is preserved by the real send step and
    established by the real recompute; hence no transfer-id outside [a, a + w)."""
    o = Obligation("c07_window_invariant", "C07")
    o.desc = "safety invariant (frames in flight never exceed the window the peer advertised last) is inductive over {send step, flow recompute} as computed by the real code"
    o.bounds = ["single steps from arbitrary states satisfying the invariant; 32-bit serial arithmetic"]
    fn = env.fn(r"^session::<impl at [^>]*>::on_outgoing_transfer_inner$")
    o.functions = [fn.name]
    ex = env.executor()
    S, v = session_pre(env)
    a, w = BV32("peer.next_incoming_id"), BV32("peer.incoming_window")
    paths = ex.run(fn, {"_1": mir.Ref(("@self",), True), "@self": S})
    n, riw = v["next_outgoing_id"], v["remote_incoming_window"]
    inv = lambda n_, riw_: z3.And(z3.ULE(n_ - a, w), z3.ULE(riw_, w - (n_ - a)))  # noqa: E731
    for i, p in enumerate(paths):
        if p.end != "return":
            continue
        post = session_post(env, p)
        # the send step is only taken with riw > 0 (c07_gate_*): the id just used lies inside the window
        o.prove(f"path{i}:id-inside-window", ex.assumptions + p.cond + [inv(n, riw), z3.UGT(riw, 0)], z3.ULT(n - a, w))
        o.prove(f"path{i}:invariant-preserved", ex.assumptions + p.cond + [inv(n, riw), z3.UGT(riw, 0)], inv(post["next_outgoing_id"], post["remote_incoming_window"]))
    o.cover("invariant satisfiable with ids that wrap", [inv(n, riw), z3.UGT(riw, 0), z3.UGT(a, 0xFFFFFFF0), z3.ULT(n, 16)])
    return [o]


def c07_receive_side(env):
    out = []
    o = Obligation("c07_incoming_transfer_counters", "C07")
    o.desc = "each incoming transfer frame advances next-incoming-id by exactly one (mod 2^32), before anything can fail or suspend"
    fn = env.fn(r"^session::<impl at [^>]*>::on_incoming_transfer::\{closure#0\}$")
    o.functions = [fn.name]
    o.bounds = ["coroutine body from its initial state to its first suspension/return"]
    ex = env.executor()
    S, v = session_pre(env)
    cor = mir.Agg("coroutine")
    cor["#d"] = z3.BitVecVal(0, 64)
    cor[0] = mir.Ref(("@self",), True)
    pin = mir.Agg("pin")
    pin[0] = mir.Ref(("@cor",), True)
    paths = ex.run(fn, {"_1": pin, "@cor": cor, "@self": S})
    k = 0
    for i, p in enumerate(paths):
        if p.end == "unwind":
            continue
        post = session_post(env, p)
        if post["next_incoming_id"] is None:
            raise mir.Unsupported("next_incoming_id lost (whole-session havoc before the counter update?)")
        k += 1
        def replay(m):
            # natively: a transfer for a handle nothing is attached to (the path on which the frame cannot be delivered)
            nii = model_value(m, v["next_incoming_id"])
            cmds = [f"xfer_in 3 0 0 10 10 {x} 0 10 10 7" for x in sorted({nii, 0, 7, 0xFFFFFFFF})]
            return cmds, (lambda outs: any(js.get("panic") or js["next_incoming_id"] != ((x + 1) & 0xFFFFFFFF) for x, js in zip(sorted({nii, 0, 7, 0xFFFFFFFF}), outs)))

        o.prove(f"path{i}({p.end}):next-incoming-id+1", ex.assumptions + p.cond, post["next_incoming_id"] == v["next_incoming_id"] + 1, replay=replay)
    o.cover("paths", [z3.BoolVal(k > 0)])
    out.append(o)

    o = Obligation("c07_begin_adopts_peer_state", "C07")
    o.desc = "the peer's begin sets next-incoming-id := next-outgoing-id_begin, remote-incoming-window := incoming-window_begin, remote-outgoing-window := outgoing-window_begin"
    fn = env.fn(r"^session::<impl at [^>]*>::on_incoming_begin$")
    o.functions = [fn.name]
    o.bounds = ["one call from every session state; all 32-bit values"]
    ex = env.executor()
    S, v = session_pre(env)
    B = mir.Agg("begin")
    b = {}
    for nme in ("next_outgoing_id", "incoming_window", "outgoing_window"):
        b[nme] = BV32(f"begin.{nme}")
        B[env.fidx("Begin", nme)] = b[nme]
    paths = ex.run(fn, {"_1": mir.Ref(("@self",), True), "@self": S, "_3": B})
    hyp = ex.assumptions + [state_valid(env, v["local_state"])]
    E = env.enums["SessionState"]
    for i, p in enumerate(paths):
        if p.end != "return":
            continue
        post = session_post(env, p)
        ok = p.ret["#d"] == 0
        legal = z3.Or(v["local_state"] == E["Unmapped"], v["local_state"] == E["BeginSent"])
        o.prove(f"path{i}:begin-legal-iff-unmapped-or-begin-sent", hyp + p.cond, ok == legal)
        o.prove(f"path{i}:adopts", hyp + p.cond + [ok], z3.And(post["next_incoming_id"] == b["next_outgoing_id"], post["remote_incoming_window"] == b["incoming_window"], post["remote_outgoing_window"] == b["outgoing_window"], post["next_outgoing_id"] == v["next_outgoing_id"]))
        o.prove(f"path{i}:state", hyp + p.cond + [ok], post["local_state"] == z3.If(v["local_state"] == E["Unmapped"], z3.BitVecVal(E["BeginReceived"], 64), z3.BitVecVal(E["Mapped"], 64)))
        o.prove(f"path{i}:illegal-leaves-state", hyp + p.cond + [z3.Not(ok)], z3.And(post["local_state"] == v["local_state"], post["next_incoming_id"] == v["next_incoming_id"]))
    out.append(o)
    return out


def c07_reported_state(env):
    out = []
    for name, pat, local in (("c07_session_flow_fields", r"^session::<impl at [^>]*>::on_outgoing_session_flow$", "_2"), ("c07_link_flow_fields", r"^session::<impl at [^>]*>::on_outgoing_flow$", None)):
        o = Obligation(name, "C07")
        o.desc = "the flow frame the endpoint builds reports exactly its counters: next-incoming-id, incoming-window, next-outgoing-id, outgoing-window"
        fn = env.fn(pat)
        o.functions = [fn.name]
        o.bounds = ["one call; all 32-bit values"]
        ex = env.executor()
        S, v = session_pre(env)
        paths = ex.run(fn, {"_1": mir.Ref(("@self",), False), "@self": S})
        for i, p in enumerate(paths):
            if p.end != "return":
                continue
            # find the Flow aggregate among the locals
            flows = [x for k, x in p.locals.items() if isinstance(x, mir.Agg) and x.label == "Flow"]
            if len(flows) != 1:
                raise mir.Unsupported(f"expected exactly one Flow aggregate, found {len(flows)}")
            F = flows[0]
            nii = F[env.fidx("Flow", "next_incoming_id")]
            goal = z3.And(nii["#d"] == 1, nii[("as", "Some")][0] == v["next_incoming_id"], F[env.fidx("Flow", "incoming_window")] == v["incoming_window"], F[env.fidx("Flow", "next_outgoing_id")] == v["next_outgoing_id"], F[env.fidx("Flow", "outgoing_window")] == v["outgoing_window"])
            o.prove(f"path{i}:fields", ex.assumptions + p.cond, goal)
        o.cover("paths", [z3.BoolVal(any(p.end == "return" for p in paths))])
        out.append(o)
    return out


REGISTRY = {
    "C07": [c07_send_step, c07_recompute, c07_call_sites, c07_invariant, c07_receive_side, c07_reported_state],
}


# ======================================================================================
# state machines: C12 connection, C13 session / link, C17 + C11 channel allocation
# ======================================================================================


def enum_pre(tag, env, enum):
    a = mir.Agg(enum)
    d = z3.BitVec(f"{tag}", 64)
    a["#d"] = d
    return a, d


def spec_if(d, table, default, E):
    """nested If over the discriminant: table maps variant name -> z3 term"""
    r = default
    for k, val in table.items():
        r = z3.If(d == E[k], val, r)
    return r


def poll_ready_result(ret):
    """(is_ready, is_ok) of a Poll<Result<..>> return value"""
    is_ready = ret["#d"] == 0
    inner = ret.get(("as", "Ready"))
    r = inner[0] if inner is not None and 0 in inner else None
    return is_ready, (r["#d"] == 0 if isinstance(r, mir.Agg) and "#d" in r else None)


def coroutine_start(env, self_tag, extra_fields=None):
    cor = mir.Agg("coroutine")
    cor["#d"] = z3.BitVecVal(0, 64)
    cor[0] = mir.Ref((self_tag,), True)
    for k, val in (extra_fields or {}).items():
        cor[k] = val
    pin = mir.Agg("pin")
    pin[0] = mir.Ref(("@cor",), True)
    return pin, cor


def call_result(path, pat):
    import re

    for c in path.calls:
        if re.search(pat, c[0]):
            return c[3]
    return None


def count_calls(path, pat):
    import re

    return len([c for c in path.calls if re.search(pat, c[0])])


def c12_send(env):
    out = []
    E = env.enums["ConnectionState"]
    cs = lambda n: z3.BitVecVal(E[n], 64)  # noqa: E731
    # AMQP 1.0 section 2.4.6 (connection state diagram), written from the specification
    spec_open = {"HeaderExchange": "OpenSent", "OpenReceived": "Opened", "HeaderSent": "OpenPipe"}
    spec_close_clean = {"Opened": "CloseSent", "CloseReceived": "End", "OpenSent": "ClosePipe", "OpenPipe": "OpenClosePipe"}
    spec_close_error = {"Opened": "Discarding", "CloseReceived": "End", "OpenSent": "Discarding", "OpenPipe": "Discarding"}
    for which in ("send_open", "send_close"):
        o = Obligation(f"c12_{which}", "C12")
        fn = env.fn(rf"^connection::<impl at fe2o3-amqp/src/connection/mod\.rs[^>]*>::{which}::\{{closure#0\}}$")
        o.functions = [fn.name]
        o.bounds = ["coroutine body from its initial state through a poll in which the frame sink completes (or stays pending); every ConnectionState; error present/absent"]
        o.desc = f"Connection::{which}: exactly one frame is handed to the sink; on success the state follows the AMQP 2.4.6 diagram; in a state where the frame is illegal the call fails with the state unchanged"
        ex = env.executor()
        C = mir.Agg("conn")
        st_a, d = enum_pre("pre.connection_state", env, "ConnectionState")
        C[env.fidx("Connection", "local_state")] = st_a
        extra = {}
        err_d = None
        if which == "send_close":
            err = mir.Agg("error")
            err_d = z3.BitVec("close.error.is_some", 64)
            err["#d"] = err_d
            extra[2] = err
        pin, cor = coroutine_start(env, "@self", extra)
        paths = ex.run(fn, {"_1": pin, "@cor": cor, "@self": C})
        hyp = ex.assumptions + [state_valid(env, d, "ConnectionState")] + ([z3.ULE(err_d, 1)] if err_d is not None else [])
        nready = 0
        for i, p in enumerate(paths):
            if p.end != "return":
                continue
            is_ready, is_ok = poll_ready_result(p.ret)
            post = p.locals["@self"][env.fidx("Connection", "local_state")]["#d"]
            sends = count_calls(p, r"SinkExt<.*>>::send$")

            def replay_c12(m, d=d, err_d=err_d, which=which):
                st0 = model_value(m, d)
                names = {v_: k_ for k_, v_ in E.items()}
                if which == "send_open":
                    nxt_name = spec_open.get(names[st0])
                    cmd = f"conn_send_open {st0}"
                    frames_ok = lambda js: js["opens"] == 1 and js["closes"] == 0 and js["others"] == 0  # noqa: E731
                else:
                    e = model_value(m, err_d) == 1
                    nxt_name = (spec_close_error if e else spec_close_clean).get(names[st0])
                    cmd = f"conn_send_close {st0} {int(e)}"
                    frames_ok = lambda js, e=e: js["closes"] == 1 and js["opens"] == 0 and js["others"] == 0 and js["close_err"] == e  # noqa: E731
                want_state = E[nxt_name] if nxt_name else st0
                return cmd, (lambda js: js.get("panic") or not frames_ok(js) or js["state"] != want_state or js["ok"] != (nxt_name is not None))

            o.prove(f"path{i}:one-frame", hyp + p.cond, z3.BoolVal(sends == 1), replay=replay_c12)
            if z3.is_true(z3.simplify(is_ready)) and is_ok is not None:
                nready += 1
                if which == "send_open":
                    legal = z3.Or(*[d == E[k] for k in spec_open])
                    nxt = spec_if(d, {k: cs(vv) for k, vv in spec_open.items()}, d, E)
                else:
                    legal = z3.Or(*[d == E[k] for k in spec_close_clean])
                    nxt = z3.If(err_d == 1, spec_if(d, {k: cs(vv) for k, vv in spec_close_error.items()}, d, E), spec_if(d, {k: cs(vv) for k, vv in spec_close_clean.items()}, d, E))
                # a sink error is the only other way to fail: `is_ok` false with a legal state means the transport failed
                o.prove(f"path{i}:ok-implies-legal-and-next-state", hyp + p.cond + [is_ok], z3.And(legal, post == nxt), replay=replay_c12)
                o.prove(f"path{i}:illegal-state-fails-unchanged", hyp + p.cond + [z3.Not(legal)], z3.And(z3.Not(is_ok), post == d), replay=replay_c12)
            else:
                # pending: nothing decided yet, the state must be untouched
                o.prove(f"path{i}:pending-leaves-state", hyp + p.cond, post == d)
        o.cover("a ready path exists", [z3.BoolVal(nready > 0)])
        out.append(o)
    return out


# ---- plain-Python transcriptions of the same spec tables, used to judge native replays -------


def py_session_end(st, err):
    if st in (1, 2, 3):
        return 5, False
    if st in (4, 6):
        return 0, not err
    return st, False


def py_session_send_end(st, err):
    if st == 3:
        return (6 if err else 4), True
    if st == 5:
        return 0, True
    return st, False


def py_session_send_begin(st):
    return {0: (1, True), 2: (3, True)}.get(st, (st, False))


def py_link_detach(st, closed, err):
    attachish = (5, 1, 3, 6, 2, 4)
    if closed:
        if st in attachish:
            return 11, not err
        if st == 7:
            return 11, False
        if st == 10:
            return 12, not err
        return st, False
    if st == 5:
        return 8, not err
    if st == 7:
        return 9, not err
    return st, False


def py_link_send_detach(st, closed):
    if closed:
        return {5: (10, True), 11: (12, True)}.get(st, (st, False))
    return {5: (7, True), 8: (9, True)}.get(st, (st, False))


def session_state_cmd(m, d):
    return f"{model_value(m, d)} 0 0 10 10 0 0 0 0"


def c13_session(env):
    out = []
    E = env.enums["SessionState"]
    ss = lambda n: z3.BitVecVal(E[n], 64)  # noqa: E731
    # --- peer's end
    o = Obligation("c13_session_on_incoming_end", "C13")
    o.desc = "a peer's end moves a begun session to END_RCVD (it must still be answered) and completes a locally ended session (END_SENT/DISCARDING -> UNMAPPED); the peer's error is what the caller gets; an end in any other state is IllegalState with the state unchanged"
    fn = env.fn(r"^session::<impl at [^>]*>::on_incoming_end$")
    o.functions = [fn.name]
    o.bounds = ["one call from every SessionState; error present/absent"]
    ex = env.executor()
    S, v = session_pre(env)
    En = mir.Agg("end")
    er = mir.Agg("error")
    err_d = z3.BitVec("end.error.is_some", 64)
    er["#d"] = err_d
    En[env.fidx("End", "error")] = er
    paths = ex.run(fn, {"_1": mir.Ref(("@self",), True), "@self": S, "_3": En})
    d = v["local_state"]
    hyp = ex.assumptions + [state_valid(env, d), z3.ULE(err_d, 1)]
    EE = env.enums.get("SessionStateError", {})
    n = 0
    for i, p in enumerate(paths):
        if p.end != "return":
            continue
        n += 1
        post = session_post(env, p)["local_state"]
        ok = p.ret["#d"] == 0
        begun = z3.Or(d == E["BeginSent"], d == E["BeginReceived"], d == E["Mapped"])
        ending = z3.Or(d == E["EndSent"], d == E["Discarding"])
        nxt = z3.If(begun, ss("EndReceived"), z3.If(ending, ss("Unmapped"), d))
        def replay_end(m, d=d, err_d=err_d):
            st0, e = model_value(m, d), model_value(m, err_d) == 1
            want = py_session_end(st0, e)
            return f"end {session_state_cmd(m, d)} {int(e)}", (lambda js: js.get("panic") or (js["state"], js["ok"]) != want)

        o.prove(f"path{i}:next-state", hyp + p.cond, post == nxt, replay=replay_end)
        # clean completion only when we had ended first and the peer reports no error
        o.prove(f"path{i}:ok-iff-clean-completion", hyp + p.cond, ok == z3.And(ending, err_d == 0), replay=replay_end)
        if EE and ("as", "Err") in p.ret and isinstance(p.ret[("as", "Err")].get(0), mir.Agg) and "#d" in p.ret[("as", "Err")][0]:
            ed = p.ret[("as", "Err")][0]["#d"]
            want = z3.If(z3.Or(begun, ending), z3.If(err_d == 1, z3.BitVecVal(EE["RemoteEndedWithError"], 64), z3.BitVecVal(EE["RemoteEnded"], 64)), z3.BitVecVal(EE["IllegalState"], 64))
            o.prove(f"path{i}:error-kind", hyp + p.cond + [z3.Not(ok)], ed == want)
    o.cover("paths", [z3.BoolVal(n > 0)])
    out.append(o)

    # --- local end / begin (coroutines)
    for which, spec in (("send_end", None), ("send_begin", {"Unmapped": "BeginSent", "BeginReceived": "Mapped"})):
        o = Obligation(f"c13_session_{which}", "C13")
        fn = env.fn(rf"^session::<impl at [^>]*>::{which}::\{{closure#0\}}$")
        o.functions = [fn.name]
        o.bounds = ["coroutine body from its initial state through a poll in which the frame channel accepts the frame, fails, or stays pending; every SessionState; error present/absent"]
        o.desc = f"Session::{which}: at most one frame is queued; the state follows the AMQP 2.5.5 session diagram; in a state where the frame is illegal nothing is sent and the state is unchanged"
        ex = env.executor()
        S, v = session_pre(env)
        extra = {}
        err_d = None
        if which == "send_end":
            err = mir.Agg("error")
            err_d = z3.BitVec("end.error.is_some", 64)
            err["#d"] = err_d
            extra[2] = err
        pin, cor = coroutine_start(env, "@self", extra)
        paths = ex.run(fn, {"_1": pin, "@cor": cor, "@self": S})
        d = v["local_state"]
        hyp = ex.assumptions + [state_valid(env, d)] + ([z3.ULE(err_d, 1)] if err_d is not None else [])
        nready = 0
        for i, p in enumerate(paths):
            if p.end != "return":
                continue
            is_ready, is_ok = poll_ready_result(p.ret)
            post = session_post(env, p)["local_state"]
            sends = count_calls(p, r"mpsc::Sender::<.*>::send$")

            def replay_send(m, d=d, err_d=err_d, which=which):
                st0 = model_value(m, d)
                if which == "send_end":
                    e = model_value(m, err_d) == 1
                    want_state, legal_ = py_session_send_end(st0, e)
                    cmd = f"send_end {session_state_cmd(m, d)} {int(e)}"
                else:
                    want_state, legal_ = py_session_send_begin(st0)
                    cmd = f"send_begin {session_state_cmd(m, d)}"
                return cmd, (lambda js: js.get("panic") or js["state"] != want_state or (js["ok"] and not legal_) or (js["frames"] > 1) or (js["frames"] > 0 and not legal_))

            o.prove(f"path{i}:at-most-one-frame", hyp + p.cond, z3.BoolVal(sends <= 1))
            if which == "send_end":
                legal = z3.Or(d == E["Mapped"], d == E["EndReceived"])
                nxt = z3.If(d == E["Mapped"], z3.If(err_d == 1, ss("Discarding"), ss("EndSent")), z3.If(d == E["EndReceived"], ss("Unmapped"), d))
                # the state changes before the frame is queued (documented: "change the state whether sending succeeds or not")
                o.prove(f"path{i}:state", hyp + p.cond, post == nxt, replay=replay_send)
                o.prove(f"path{i}:illegal-sends-nothing", hyp + p.cond + [z3.Not(legal)], z3.BoolVal(sends == 0) if sends else z3.BoolVal(True))
                if sends:
                    o.prove(f"path{i}:frame-only-when-legal", hyp + p.cond, legal)
                if z3.is_true(z3.simplify(is_ready)) and is_ok is not None:
                    nready += 1
                    o.prove(f"path{i}:ok-implies-legal", hyp + p.cond + [is_ok], legal, replay=replay_send)
            else:
                legal = z3.Or(*[d == E[k] for k in spec])
                if sends:
                    o.prove(f"path{i}:frame-only-when-legal", hyp + p.cond, legal)
                if z3.is_true(z3.simplify(is_ready)) and is_ok is not None:
                    nready += 1
                    o.prove(f"path{i}:ok-implies-next-state", hyp + p.cond + [is_ok], z3.And(legal, post == spec_if(d, {k: ss(vv) for k, vv in spec.items()}, d, E)), replay=replay_send)
                    o.prove(f"path{i}:failure-leaves-state", hyp + p.cond + [z3.Not(is_ok)], post == d, replay=replay_send)
                else:
                    o.prove(f"path{i}:pending-leaves-state", hyp + p.cond, post == d)
        o.cover("a ready path exists", [z3.BoolVal(nready > 0)])
        out.append(o)
    return out


def c13_link(env):
    out = []
    E = env.enums["LinkState"]
    ls = lambda n: z3.BitVecVal(E[n], 64)  # noqa: E731
    attachish = ["Attached", "AttachSent", "AttachReceived", "IncompleteAttachExchanged", "IncompleteAttachSent", "IncompleteAttachReceived"]
    o = Obligation("c13_link_on_incoming_detach", "C13")
    o.desc = "a peer's detach: closing detach -> CLOSE_RCVD (to be answered with a closing detach) or completes our close (CLOSE_SENT -> CLOSED); non-closing detach -> DETACH_RCVD or completes our detach; a closing answer to our non-closing detach is reported as ClosedByRemote; the output handle is released only when the link reaches DETACHED/CLOSED; illegal elsewhere with the state unchanged"
    fn = env.fn(r"^link::<impl at [^>]*>::on_incoming_detach$", sig=r"_1: &mut link::Link<")
    o.functions = [fn.name]
    o.bounds = ["one call from every LinkState; closed true/false; error present/absent"]
    ex = env.executor()
    L = mir.Agg("link")
    st_a, d = enum_pre("pre.link_state", env, "LinkState")
    L[env.fidx("Link", "local_state")] = st_a
    oh = mir.Agg("output_handle")
    oh_d = z3.BitVec("pre.output_handle.is_some", 64)
    oh["#d"] = oh_d
    L[env.fidx("Link", "output_handle")] = oh
    D = mir.Agg("detach")
    closed = z3.Bool("detach.closed")
    D[env.fidx("Detach", "closed")] = closed
    er = mir.Agg("error")
    err_d = z3.BitVec("detach.error.is_some", 64)
    er["#d"] = err_d
    D[env.fidx("Detach", "error")] = er
    paths = ex.run(fn, {"_1": mir.Ref(("@self",), True), "@self": L, "_2": D})
    hyp = ex.assumptions + [state_valid(env, d, "LinkState"), z3.ULE(err_d, 1), z3.ULE(oh_d, 1)]
    n = 0
    for i, p in enumerate(paths):
        if p.end != "return":
            continue
        n += 1
        post = p.locals["@self"][env.fidx("Link", "local_state")]["#d"]
        ok = p.ret["#d"] == 0
        in_attach = z3.Or(*[d == E[k] for k in attachish])
        nxt_closed = z3.If(in_attach, ls("CloseReceived"), z3.If(d == E["DetachSent"], ls("CloseReceived"), z3.If(d == E["CloseSent"], ls("Closed"), d)))
        nxt_open = z3.If(d == E["Attached"], ls("DetachReceived"), z3.If(d == E["DetachSent"], ls("Detached"), d))
        def replay_ld(m, d=d, closed=closed, err_d=err_d, oh_d=oh_d):
            st0, c, e, h = model_value(m, d), model_value(m, closed) == 1, model_value(m, err_d) == 1, model_value(m, oh_d)
            want = py_link_detach(st0, c, e)
            return f"link_detach {st0} {h} {int(c)} {int(e)}", (lambda js: js.get("panic") or (js["state"], js["ok"]) != want or (h == 1 and not js["has_handle"] and js["state"] not in (9, 12)))

        o.prove(f"path{i}:next-state", hyp + p.cond, post == z3.If(closed, nxt_closed, nxt_open), replay=replay_ld)
        legal = z3.If(closed, z3.Or(in_attach, d == E["DetachSent"], d == E["CloseSent"]), z3.Or(d == E["Attached"], d == E["DetachSent"]))
        o.prove(f"path{i}:illegal-is-error", hyp + p.cond + [z3.Not(legal)], z3.Not(ok), replay=replay_ld)
        # the peer's error is surfaced; closing answered to a non-closing detach is surfaced
        o.prove(f"path{i}:peer-error-surfaced", hyp + p.cond + [err_d == 1], z3.Not(ok), replay=replay_ld)
        o.prove(f"path{i}:closed-by-remote-surfaced", hyp + p.cond + [closed, d == E["DetachSent"]], z3.Not(ok), replay=replay_ld)
        o.prove(f"path{i}:clean", hyp + p.cond + [legal, err_d == 0, z3.Not(z3.And(closed, d == E["DetachSent"]))], ok, replay=replay_ld)
        # handle release: the handle is taken (calls Option::take on the handle) only on -> Detached / Closed
        takes = count_calls(p, r"Option::<.*OutputHandle.*>::take$")
        if takes:
            o.prove(f"path{i}:handle-released-only-when-done", hyp + p.cond, z3.Or(post == E["Detached"], post == E["Closed"]), replay=replay_ld)
    o.cover("paths", [z3.BoolVal(n > 0)])
    out.append(o)

    o = Obligation("c13_link_send_detach", "C13")
    o.desc = "local detach/close: ATTACHED -> DETACH_SENT / CLOSE_SENT; answering the peer: DETACH_RCVD -> DETACHED (non-closing), CLOSE_RCVD -> CLOSED (closing: closing is answered with closing); a non-closing answer to a closing detach and a closing answer to a non-closing detach are refused; illegal elsewhere; at most one detach frame is queued and only in a legal state"
    fn = env.fn(r"^link::<impl at [^>]*>::send_detach::\{closure#0\}$")
    o.functions = [fn.name]
    o.bounds = ["coroutine body from its initial state through one poll; every LinkState; closed true/false"]
    ex = env.executor()
    L = mir.Agg("link")
    st_a, d = enum_pre("pre.link_state", env, "LinkState")
    L[env.fidx("Link", "local_state")] = st_a
    closed = z3.Bool("closed")
    pin, cor = coroutine_start(env, "@self", {2: closed})
    paths = ex.run(fn, {"_1": pin, "@cor": cor, "@self": L})
    hyp = ex.assumptions + [state_valid(env, d, "LinkState")]
    n = 0
    for i, p in enumerate(paths):
        if p.end != "return":
            continue
        n += 1
        post = p.locals["@self"][env.fidx("Link", "local_state")]["#d"]
        sends = count_calls(p, r"mpsc::Sender::<.*>::send$")
        nxt = z3.If(closed, z3.If(d == E["Attached"], ls("CloseSent"), z3.If(d == E["CloseReceived"], ls("Closed"), d)), z3.If(d == E["Attached"], ls("DetachSent"), z3.If(d == E["DetachReceived"], ls("Detached"), d)))
        def replay_sd(m, d=d, closed=closed):
            st0, c = model_value(m, d), model_value(m, closed) == 1
            want_state, legal_ = py_link_send_detach(st0, c)
            return f"link_send_detach {st0} 1 {int(c)}", (lambda js: js.get("panic") or js["state"] != want_state or (js["ok"] and not legal_) or js["frames"] > 1 or (js["frames"] > 0 and not legal_))

        o.prove(f"path{i}:next-state", hyp + p.cond, post == nxt, replay=replay_sd)
        legal = z3.If(closed, z3.Or(d == E["Attached"], d == E["CloseReceived"]), z3.Or(d == E["Attached"], d == E["DetachReceived"]))
        o.prove(f"path{i}:at-most-one-frame", hyp + p.cond, z3.BoolVal(sends <= 1))
        if sends:
            o.prove(f"path{i}:frame-only-when-legal", hyp + p.cond, legal, replay=replay_sd)
            # at most one detach per attach: the detach gives the output handle up, so that neither a
            # second call nor Drop can put another detach for the same attach on the wire
            takes = count_calls(p, r"Option::<.*OutputHandle.*>::take$")

            def replay_handle(m, d=d, closed=closed):
                c = model_value(m, closed) == 1
                cmds = [f"link_send_detach {s0} 1 {int(c)}" for s0 in (5, 8, 11)]
                return cmds, (lambda outs: any(js.get("panic") or (js["frames"] > 0 and js["has_handle"]) for js in outs))

            rdy, _ = poll_ready_result(p.ret)
            if z3.is_true(z3.simplify(rdy)):  # the poll that completes the send (a Pending poll has not sent yet)
                o.prove(f"path{i}:the-detach-gives-up-the-output-handle", hyp + p.cond, z3.BoolVal(takes >= 1), replay=replay_handle)
        is_ready, is_ok = poll_ready_result(p.ret)
        if z3.is_true(z3.simplify(is_ready)) and is_ok is not None:
            o.prove(f"path{i}:ok-implies-legal", hyp + p.cond + [is_ok], legal, replay=replay_sd)
            o.prove(f"path{i}:mismatched-answer-refused", hyp + p.cond + [z3.Or(z3.And(d == E["CloseReceived"], z3.Not(closed)), z3.And(d == E["DetachReceived"], closed))], z3.Not(is_ok))
    o.cover("paths", [z3.BoolVal(n > 0)])
    out.append(o)
    return out


def c17_allocate(env):
    o = Obligation("c17_allocate_session", "C17")
    o.desc = "a session is begun only on a channel <= the agreed channel-max (else ChannelMaxReached and nothing is inserted), only while the connection is open, and the channel handed out is exactly the slab's vacant key (the slab's contract: a vacant key is held by no live session)"
    fn = env.fn(r"^connection::<impl at fe2o3-amqp/src/connection/mod\.rs[^>]*>::allocate_session$", sig=r"_1: &mut connection::Connection,")
    o.functions = [fn.name]
    o.bounds = ["one call; every ConnectionState; every agreed channel-max (16 bit); every vacant key (64 bit) the slab may return"]
    o.assumes = ["slab::Slab::vacant_entry().key() returns an index not currently occupied (environment contract of the slab crate; Kani probe of slab alloc/free/realloc recorded in DESIGN section 2)"]
    ex = env.executor()
    C = mir.Agg("conn")
    st_a, d = enum_pre("pre.connection_state", env, "ConnectionState")
    C[env.fidx("Connection", "local_state")] = st_a
    mx = z3.BitVec("agreed_channel_max", 16)
    C[env.fidx("Connection", "agreed_channel_max")] = mx
    paths = ex.run(fn, {"_1": mir.Ref(("@self",), True), "@self": C})
    E = env.enums["ConnectionState"]
    hyp = ex.assumptions + [state_valid(env, d, "ConnectionState")]
    n = 0
    for i, p in enumerate(paths):
        if p.end != "return":
            continue
        n += 1
        ok = p.ret["#d"] == 0
        inserts = count_calls(p, r"VacantEntry::<.*>::insert$")
        okv = z3.is_true(z3.simplify(ok))
        key_any = call_result(p, r"VacantEntry::<.*>::key$")
        if key_any is None:
            key_any = call_result(p, r"^Slab::<.*>::insert$")

        def replay_alloc(m, d=d, mx=mx, key_any=key_any):
            # the model's own values when they are small, plus directed probes around the limit
            st0, mxv = model_value(m, d), model_value(m, mx)
            k0 = model_value(m, key_any) if key_any is not None else 0
            probes = [(st0, mxv, k0)] if (k0 <= 64 and mxv <= 64) else []
            probes += [(9, 0, 1), (9, 2, 3), (9, 2, 2), (9, 0, 0), (st0, 3, 1)]
            cmds = [f"alloc {a} {b} {c}" for a, b, c in probes]
            # histories with a hole: k sessions, an older one ends, a new one begins
            holes = [(3, 0), (3, 1), (2, 0), (4, 2)]
            cmds += [f"alloc 9 65535 {k} {h + 1}" for k, h in holes]

            def bad(outs):
                for (k, h), js in zip(holes, outs[len(probes):]):
                    if js.get("panic") or not js["ok"] or js["dup"] or js["channel"] != h:
                        return True
                for (a, b, c), js in zip(probes, outs):
                    opened = a not in (0, 1, 2, 3, 11, 12, 13)
                    want_ok = opened and c <= b
                    if js.get("panic") or js["ok"] != want_ok:
                        return True
                    if js["ok"] and (js["channel"] > b or js["channel"] != c or js["sessions_after"] != js["sessions_before"] + 1):
                        return True
                    if not js["ok"] and js["sessions_after"] != js["sessions_before"]:
                        return True
                return False

            return cmds, bad

        if okv:
            ch = p.ret[("as", "Ok")][0][0]
            key = key_any
            if key is None:
                raise mir.Unsupported("neither VacantEntry::key nor Slab::insert found on the allocating path")
            o.prove(f"path{i}:channel<=channel-max", hyp + p.cond, z3.ULE(ch, mx), replay=replay_alloc)
            o.prove(f"path{i}:channel-is-vacant-key", hyp + p.cond, z3.ZeroExt(48, ch) == key, replay=replay_alloc)
            o.prove(f"path{i}:recorded", hyp + p.cond, z3.BoolVal(inserts == 1), replay=replay_alloc)
            closed_or_unopened = z3.Or(*[d == E[k] for k in ("Start", "HeaderReceived", "HeaderSent", "HeaderExchange", "CloseSent", "Discarding", "End")])
            o.prove(f"path{i}:only-while-open", hyp + p.cond, z3.Not(closed_or_unopened), replay=replay_alloc)
        else:
            o.prove(f"path{i}:refusal-allocates-nothing", hyp + p.cond, z3.BoolVal(inserts == 0), replay=replay_alloc)
            key = call_result(p, r"VacantEntry::<.*>::key$")
            if key is not None:
                # refused after looking at the slab: only because the free channel exceeds channel-max
                o.prove(f"path{i}:refused-only-above-max", hyp + p.cond, z3.UGT(key, z3.ZeroExt(48, mx)), replay=replay_alloc)
    o.cover("paths", [z3.BoolVal(n > 0)])
    return [o]


def c11_ids(env):
    obls = c07_send_step(env)
    for o in obls:
        o.name = "c11_delivery_id_stamping"
        o.prop = "C11"
        o.desc = "delivery-ids: a frame that starts a delivery is stamped with the current next-outgoing-id, a continuation frame gets no id, and every frame advances next-outgoing-id by one -- so ids of successive deliveries strictly increase in serial arithmetic and none is reused within 2^32 frames"
    return obls + [x for x in c17_allocate(env) if _retag(x, "C11", "c11_channel_allocation")]


def _retag(o, prop, name):
    o.prop = prop
    o.name = name
    return True


REGISTRY.update({
    "C11": [c11_ids],
    "C12": [c12_send],
    "C13": [c13_session, c13_link, lambda env: [_retagged(o, "C13", "c13_" + o.name[4:]) for o in c07_receive_side(env) if "begin" in o.name]],
    "C17": [c17_allocate],
})


def _retagged(o, prop, name):
    o.prop = prop
    o.name = name
    return o


# ======================================================================================
# C08: lost wake-up -- the real waiter coroutine (MIR) against tokio::sync::Notify's documented
# contract, the grant landing at every call boundary of the waiter
# ======================================================================================


def c08_lost_wakeup(env):
    o = Obligation("c08_lost_wakeup", "C08")
    o.desc = "a send waiting for credit completes once sufficient credit has been granted, wherever the grant (flow applied + notify_waiters) lands relative to the waiter: before its first poll, at every call boundary inside the poll (including between the failed credit check and the creation of the wait future), or after it returned Pending"
    fn = env.fn(r"^state::<impl at [^>]*>::consume::\{closure#0\}$")
    inner = env.fn(r"^consume_link_credit$")
    o.functions = [fn.name, inner.name]
    o.bounds = ["one waiter, one grant; the grant is placed at each call terminator of the waiter's first poll (one symbolic run per position), then the waiter is polled once more; credit granted 1..2^32-1, count 1"]
    o.assumes = [
        "tokio::sync::Notify per its documented contract: notify_waiters() wakes exactly the Notified futures created before the call (a Notified captures the notify_waiters call counter when created; polling it is Ready iff the counter has moved)",
        "parking_lot RwLock modelled as uncontended (write() yields access to the protected state)",
        "the granting side is Producer::produce = update the flow state, then notify_waiters (its arithmetic is C08's Kani harness)",
    ]
    LC = env.fidx("LinkFlowStateInner", "link_credit")
    credit = BV32("grant.link_credit")
    hyp0 = [z3.UGE(credit, 1)]

    def grant(st):
        w = st.locals["@world"]
        fs = st.locals["@flowstate"]
        fs[LC] = credit
        w[0] = w[0] + 1
        w[1] = True

    def mk_executor(K):
        ex = env.executor(inline={r"^consume_link_credit$": r"^consume_link_credit$"}, max_visits=4)

        def on_call(ex_, st, callee, depth):
            if depth != 0:
                return  # inside consume_link_credit the write lock is held: the granter cannot run
            w = st.locals["@world"]
            w[2] = w[2] + 1
            if callee.endswith("schedule_point"):
                w[3] = w[2]
            if w[2] == K and not w[1]:
                grant(st)

        ex.on_call = on_call
        ref = lambda name: (lambda ex_, st, callee, args, argvals, dty: mir.Ref((name,), True))  # noqa: E731

        def notified(ex_, st, callee, args, argvals, dty):
            a = mir.Agg("Notified")
            a[0] = st.locals["@world"][0]
            return a

        def poll_notified(ex_, st, callee, args, argvals, dty):
            pin = argvals[0]
            tgt = pin[0] if isinstance(pin, mir.Agg) else pin
            cont, key = ex_.resolve(st, list(tgt.path))
            created = cont[key][0]
            r = mir.Agg("Poll")
            r["#d"] = z3.If(created != st.locals["@world"][0], z3.BitVecVal(0, 64), z3.BitVecVal(1, 64))
            return r

        def pin_new(ex_, st, callee, args, argvals, dty):
            a = mir.Agg("Pin")
            a[0] = argvals[0]
            return a

        ex.models = [
            (r"Consumer::<.*>::state$", ref("@arc")),
            (r"<Arc<LinkFlowState<.*>> as Deref>::deref$", ref("@lfs")),
            (r"RwLock::<.*>::write$", lambda ex_, st, callee, args, argvals, dty: mir.Agg("guard")),
            (r"RwLockWriteGuard<.*> as Deref(Mut)?>::deref(_mut)?$", ref("@flowstate")),
            (r"<Arc<Notify> as Deref>::deref$", ref("@notify")),
            (r"^Notify::notified$", notified),
            (r"IntoFuture>::into_future$", lambda ex_, st, callee, args, argvals, dty: argvals[0]),
            (r"^Pin::<.*>::new_unchecked$", pin_new),
            (r"<Notified<'_> as .*Future>::poll$", poll_notified),
            (r"schedule_point$", lambda ex_, st, callee, args, argvals, dty: mir.Agg("unit")),
        ]
        return ex

    def initial():
        fs = mir.Agg("flowstate")
        fs[LC] = z3.BitVecVal(0, 32)  # the sender has no credit: it has to wait
        fs[env.fidx("LinkFlowStateInner", "delivery_count")] = BV32("pre.delivery_count")
        world = mir.Agg("world")
        world[0] = z3.BitVecVal(0, 32)  # notify_waiters call counter
        world[1] = False  # granted yet?
        world[2] = 0  # call-boundary counter (the waiter's own calls; the locked section is atomic)
        world[3] = None  # index of the schedule_point boundary
        pin, cor = coroutine_start(env, "@consumer", {1: z3.BitVecVal(1, 32)})
        return {"_1": pin, "@cor": cor, "@consumer": mir.Agg("consumer"), "@flowstate": fs, "@world": world, "@lfs": mir.Agg("lfs"), "@arc": mir.Agg("arc"), "@notify": mir.Agg("notify")}

    # how many call boundaries does the first poll have (without any grant)?
    ex = mk_executor(-1)
    probe = ex.run(fn, initial())
    ncalls = max(p.locals["@world"][2] for p in probe)
    sched_idx = next((p.locals["@world"][3] for p in probe if p.locals["@world"][3] is not None), None)
    total = 0
    for K in range(0, ncalls + 2):
        ex = mk_executor(K)
        init = initial()
        if K == 0:
            st0 = mir.Path(cond=[], locals=init, calls=[], obligations=[])
            grant(st0)
        first = ex.run(fn, init)
        for i, p in enumerate(first):
            if p.end != "return":
                continue
            ready1 = z3.simplify(p.ret["#d"] == 0)
            if z3.is_true(ready1):
                # completed in the first poll: must have had credit
                total += 1
                continue
            # Pending (or symbolic): the grant has happened by now, or happens now (after the poll)
            loc = ex.clone_locals(p.locals)
            st1 = mir.Path(cond=list(p.cond), locals=loc, calls=[], obligations=[])
            if not loc["@world"][1]:
                grant(st1)
            loc["@world"][2] = -10**6  # no further grant
            pin = mir.Agg("pin")
            pin[0] = mir.Ref(("@cor",), True)
            loc["_1"] = pin
            second = ex.run(fn, loc, cond=list(p.cond))
            for j, q in enumerate(second):
                if q.end != "return":
                    continue
                total += 1
                where = "before the first poll" if K == 0 else (f"at call boundary {K} of the first poll" + (" (the cfg schedule_point: between the failed credit check and the creation of the wait future)" if K == sched_idx else "")) if K <= ncalls else "after the first poll returned Pending"
                pos = 0 if K == 0 else (1 if K == sched_idx else (2 if K > ncalls else None))

                def replay(m, pos=pos):
                    if pos is None:
                        raise RuntimeError("this grant position has no native hook")
                    # the waiter still pending after the grant -- or pending while it already holds the credit it was
                    # granted (a send dropped there loses the credit) -- is the failure
                    cmds = [f"wakeup {pos} {model_value(m, credit)}", f"wakeup 2 {max(model_value(m, credit), 1)}", f"wakeup 1 {max(model_value(m, credit), 1)}"]
                    return cmds, (lambda outs: any(js.get("panic") or not js["second_ready"] or js.get("held_while_pending") for js in outs))

                o.prove(f"grant {where}: second poll completes [poll1 path{i}, poll2 path{j}]", ex.assumptions + hyp0 + q.cond, q.ret["#d"] == 0, replay=replay)
    o.cover("schedules explored", [z3.BoolVal(total > 0 and sched_idx is not None)])
    return [o]


REGISTRY.setdefault("C08", []).append(c08_lost_wakeup)


# ======================================================================================
# C09: automatic credit replenishment
# ======================================================================================


def c09_topup(env):
    out = []
    # (a) every site that counts disposed deliveries hands the *updated* count to the top-up check
    sites = [
        ("c09_count_dispose_disposer", r"^receiver::<impl at [^>]*>::dispose::\{closure#0\}$", r"ReceiverDisposer::dispose\(\)", r"refresh_credit_if_needed$"),
        ("c09_count_dispose", r"^receiver::<impl at [^>]*>::dispose::\{closure#0\}$", r"ReceiverInner<L>::dispose<", r"update_credit_if_auto$"),
        ("c09_count_dispose_all", r"^receiver::<impl at [^>]*>::dispose_all::\{closure#0\}$", r"ReceiverInner<L>::dispose_all\(\)", r"update_credit_if_auto$"),
    ]
    for name, pat, sig, callee_pat in sites:
        o = Obligation(name, "C09")
        fn = env.fn(pat, sig=sig)
        o.functions = [fn.name]
        o.desc = "after disposing k deliveries the top-up check is evaluated on the processed count INCLUDING those k (previous count + k), so the disposal that reaches the threshold triggers the flow"
        o.bounds = ["coroutine body from its initial state, every await completing or pending; all 32-bit counts"]
        ex = env.executor(max_visits=3)
        pin, cor = coroutine_start(env, "@self")
        paths = ex.run(fn, {"_1": pin, "@cor": cor, "@self": mir.Agg("self")})
        n = 0
        import re as _re

        for i, p in enumerate(paths):
            fa = [c for c in p.calls if c[0].endswith("::fetch_add")]
            up = [c for c in p.calls if _re.search(callee_pat, c[0])]
            if not fa or not up:
                continue
            n += 1
            prev, amount = fa[0][3], fa[0][1][1]
            arg = up[0][1][1]
            single = 0 if "dispose_all" in name else 1

            def replay_count(m, single=single):
                # directed native probe of the same fact: Auto(n), nothing processed before, a disposal of
                # k = n (batch) resp. 1 with n = 2 (single) reaches the threshold only if it is counted
                n_, k_ = (4, 4) if not single else (2, 1)
                return f"topup {n_} 0 {k_} {single}", (lambda js: js.get("panic") or not js["ok"] or js["flows"] != 1 or js["processed_after"] != 0)

            if "disposer" in name:
                replay_count = None  # ReceiverDisposer has no native step in the facade
            o.prove(f"path{i}:threshold-check-sees-this-disposal", ex.assumptions + up[0][2], arg == prev + amount, replay=replay_count)
        for i, p in enumerate(paths):
            fa = [c for c in p.calls if c[0].endswith("::fetch_add")]
            up = [c for c in p.calls if _re.search(callee_pat, c[0])]
            if fa and not up and p.end == "return":
                # counted but never checked: only acceptable if the path fails before (unwind) -- a
                # normal return after counting without the check would starve the sender
                ready, ok = poll_ready_result(p.ret)
                if ok is not None:
                    o.prove(f"path{i}:counted-implies-checked", ex.assumptions + p.cond, z3.Not(z3.And(ready, ok)))
        o.cover("a path that counts and checks exists", [z3.BoolVal(n > 0)])
        out.append(o)
    # (b) the top-up itself: a flow with link-credit = n is produced exactly when processed >= n/2 in Auto(n)
    for name, pat, sig, send_pat in (
        ("c09_topup_threshold_inner", r"^receiver::<impl at [^>]*>::update_credit_if_auto::\{closure#0\}$", None, r"ReceiverLink>::send_flow$"),
        ("c09_topup_threshold_disposer", r"^receiver::<impl at [^>]*>::refresh_credit_if_needed::\{closure#0\}$", None, r"mpsc::Sender::<.*>::send$"),
    ):
        o = Obligation(name, "C09")
        fn = env.fn(pat, sig=sig)
        o.functions = [fn.name]
        o.desc = "automatic credit: with Auto(n) a flow re-issuing link-credit n is produced, and the processed counter reset, exactly when processed >= n/2 (so after every disposal for n = 1); Manual mode never does"
        o.bounds = ["coroutine body from its initial state; all n and processed (32 bit)"]
        ex = env.executor()
        struct = "ReceiverInner" if "inner" in name else "ReceiverDisposer"
        R = mir.Agg("recv")
        mode = mir.Agg("CreditMode")
        mode_d = z3.BitVec("credit_mode", 64)
        mode["#d"] = mode_d
        mx = BV32("auto.max_credit")
        sub = mir.Agg("Auto")
        sub[0] = mx
        mode[("as", "Auto")] = sub
        R[env.fidx(struct, "credit_mode")] = mode
        processed = BV32("processed")
        pin, cor = coroutine_start(env, "@self", {1: processed})
        cor[0] = mir.Ref(("@self",), False)
        paths = ex.run(fn, {"_1": pin, "@cor": cor, "@self": R})
        E = env.enums["CreditMode"]
        hyp = ex.assumptions + [z3.ULE(mode_d, 1)]
        due = z3.And(mode_d == E["Auto"], z3.UGE(processed, z3.UDiv(mx, z3.BitVecVal(2, 32))))
        n = 0
        for i, p in enumerate(paths):
            if p.end != "return":
                continue
            n += 1
            resets = count_calls(p, r"Atomic::<u32>::store$")
            sends = count_calls(p, send_pat)
            ready, ok = poll_ready_result(p.ret)
            def replay_thr(m, mx=mx, processed=processed, mode_d=mode_d):
                n_ = max(1, min(model_value(m, mx), 40))
                pr = min(model_value(m, processed), 40)
                # one single disposal on a receiver that had processed pr-1 before (so the check sees pr)
                if pr == 0 or model_value(m, mode_d) != E["Auto"]:
                    raise RuntimeError("no native probe for this model")
                want = 1 if pr >= n_ // 2 else 0
                return f"topup {n_} {pr - 1} 1 1", (lambda js: js.get("panic") or js["flows"] != want)

            if "disposer" in name:
                replay_thr = None
            if resets or sends:
                o.prove(f"path{i}:topup-only-when-due", hyp + p.cond, due, replay=replay_thr)
            else:
                # returned without producing a flow: only if not due, or failing
                if ok is not None:
                    o.prove(f"path{i}:due-topup-not-skipped", hyp + p.cond + [ready, ok], z3.Not(due), replay=replay_thr)
            if sends:
                o.prove(f"path{i}:counter-reset-with-topup", hyp + p.cond, z3.BoolVal(resets == 1))
        o.cover("paths", [z3.BoolVal(n > 0)])
        out.append(o)
    # (c) arithmetic lemma: with the threshold evaluated on the updated count, a sender that respects
    # credit and an application that disposes what it received can never be left with credit 0 and
    # nothing pending:  invariant  credit + undisposed + processed >= n  (n >= 1)
    o = Obligation("c09_no_stall_lemma", "C09")
    o.desc = "no-stall lemma over the counters (credit c, received-but-undisposed r, processed p, Auto(n)): the invariant c + r + p >= n is preserved by receive (c-1, r+1), dispose of k<=r (r-k, p+k, then top-up if p+k >= n/2: c:=n, p:=0), and with it c = 0 and r = 0 imply the last disposal triggered the top-up"
    o.functions = ["(lemma over the step relations established by c09_count_* and c09_topup_threshold_* and C09's Kani harness c09_receiver_consume)"]
    o.bounds = ["n, c, r, p < 2^30 (no wrap); single steps"]
    n_, c_, r_, p_, k_ = [z3.BitVec(x, 32) for x in ("n", "c", "r", "p", "k")]
    small = [z3.ULT(x, 1 << 30) for x in (n_, c_, r_, p_, k_)] + [z3.UGE(n_, 1)]
    inv = lambda c, r, p: z3.And(z3.UGE(c + r + p, n_), z3.ULT(p, z3.If(n_ == 1, z3.BitVecVal(1, 32), z3.UDiv(n_, z3.BitVecVal(2, 32))) + 0) if False else z3.UGE(c + r + p, n_))  # noqa: E731
    below = z3.ULT(p_, z3.UDiv(n_, z3.BitVecVal(2, 32)))  # no top-up pending before the step
    o.prove("receive-preserves", small + [inv(c_, r_, p_), z3.UGT(c_, 0)], inv(c_ - 1, r_ + 1, p_))
    due = z3.UGE(p_ + k_, z3.UDiv(n_, z3.BitVecVal(2, 32)))
    o.prove("dispose-preserves", small + [inv(c_, r_, p_), z3.ULE(k_, r_), z3.UGE(k_, 1)], z3.If(due, inv(n_, r_ - k_, z3.BitVecVal(0, 32)), inv(c_, r_ - k_, p_ + k_)))
    o.prove("no-stall", small + [inv(c_, r_, p_), z3.ULE(k_, r_), z3.UGE(k_, 1), c_ == 0, r_ - k_ == 0, below], due)
    o.cover("lemma hypotheses satisfiable", small + [inv(c_, r_, p_), z3.ULE(k_, r_), z3.UGE(k_, 1), c_ == 0, r_ == k_, below])
    out.append(o)
    return out


REGISTRY.setdefault("C09", []).append(c09_topup)


# ======================================================================================
# C12: the connection engine must surface the error of the peer's close
# ======================================================================================


def c12_engine_close(env):
    o = Obligation("c12_engine_close_error_surfaces", "C12")
    o.desc = "ConnectionEngine::on_incoming, Close arm: whatever Connection::on_incoming_close reports (peer closed first / peer's close carried an error) is never swallowed -- the engine step cannot complete Ok when the state function returned Err; and a peer-initiated close (state CLOSE_RCVD) is answered with exactly one close"
    fn = env.fn(r"^connection::engine::<impl at [^>]*>::on_incoming::\{closure#0\}$")
    o.functions = [fn.name]
    o.bounds = ["coroutine body from its initial state with a Close frame, every await completing, failing or pending; flush loop unrolled 3 times; all connection states"]
    o.assumes = ["Connection::on_incoming_close / local_state are the functions decided by c12_on_incoming_close (Kani); here their results are arbitrary"]
    ex = env.executor(max_visits=3)
    E = env.enums["FrameBody"]
    CS = env.enums["ConnectionState"]
    frame = mir.Agg("frame")
    body = mir.Agg("body")
    body["#d"] = z3.BitVecVal(E["Close"], 64)
    frame[env.fidx("Frame", "body")] = body
    r_d = z3.BitVec("on_incoming_close.result", 64)
    state_d = z3.BitVec("connection.local_state", 64)

    def close_model(ex_, st, callee, args, argvals, dty):
        r = mir.Agg("Result")
        r["#d"] = r_d
        return r

    def state_model(ex_, st, callee, args, argvals, dty):
        stt = st.locals.setdefault("@connstate", mir.Agg("ConnectionState"))
        # the state may change across awaits (send_close): fresh value per read, except the first
        # read right after on_incoming_close, which is `state_d`
        if "#d" not in stt:
            stt["#d"] = state_d
        return mir.Ref(("@connstate",), False)

    ex.models = [(r"Connection>::on_incoming_close$", close_model), (r"Connection>::local_state$", state_model)]
    pin, cor = coroutine_start(env, "@engine", {1: frame})
    paths = ex.run(fn, {"_1": pin, "@cor": cor, "@engine": mir.Agg("engine")})
    hyp = ex.assumptions + [z3.ULE(r_d, 1), state_valid(env, state_d, "ConnectionState")]
    n = 0
    for i, p in enumerate(paths):
        if p.end != "return":
            continue
        ready, ok = poll_ready_result(p.ret)
        if ok is None:
            continue
        n += 1

        def replay(m):
            err = model_value(m, r_d) == 1
            # natively: the peer answers our close with a close that carries an error -> the handle must report it
            return "peer_close 1 1", (lambda js: js.get("panic") or js["close_result"] != "remote_closed_with_error")

        o.prove(f"path{i}:close-error-not-swallowed", hyp + p.cond + [ready, ok], r_d == 0, replay=replay)
        closes = count_calls(p, r"Connection>::send_close$")
        if z3.is_true(z3.simplify(z3.And(ready, ok))) or True:
            o.prove(f"path{i}:answer-only-when-close-received", hyp + p.cond, z3.BoolVal(closes <= 1))
            if closes:
                o.prove(f"path{i}:answered-in-close-rcvd", hyp + p.cond, state_d == CS["CloseReceived"])
    o.cover("paths through the close arm", [z3.BoolVal(n > 0)])
    return [o]


REGISTRY["C12"].append(c12_engine_close)


# ======================================================================================
# C06: re-chunking of the encoded bytes by Transport::start_send;  C15: frame-size setters
# ======================================================================================

BV64 = lambda n: z3.BitVec(n, 64)  # noqa: E731


def c06_start_send_chunks(env):
    o = Obligation("c06_start_send_chunks", "C06")
    o.desc = "Transport::start_send hands the length-delimited layer a sequence of chunks that are each non-empty (an empty chunk would be written as a frame of size 4, which is malformed) and at most the encoder's max-frame-length, and together exactly the encoded bytes"
    fn = env.fn(r"^transport::<impl at [^>]*>::start_send$", sig=r"amqp::Frame")
    o.functions = [fn.name]
    o.bounds = ["encoded length E and max-frame-length M symbolic, 1 <= M < 2^16, 4 <= E <= 3*M (every AMQP frame has its 4 header bytes; up to three chunks)"]
    o.assumes = ["BytesMut::len / split_to / freeze per their documented contract (split_to(n) returns the first n bytes and leaves the rest)"]
    ex = env.executor(max_visits=4)
    E_, M_ = BV64("encoded.len"), BV64("max_frame_length")
    sent = []

    def lens(st):
        return st.locals.setdefault("@buf", mir.Agg("buf"))

    def m_new(ex_, st, callee, args, argvals, dty):
        a = mir.Agg("BytesMut")
        a[0] = z3.BitVecVal(0, 64)
        return a

    def m_encode(ex_, st, callee, args, argvals, dty):
        dst = argvals[2]
        cont, key = ex_.resolve(st, list(dst.path))
        cont[key][0] = E_
        r = mir.Agg("Result")
        r["#d"] = z3.BitVec(f"encode.result#{ex_.ctx.n}", 64)
        ex_.ctx.n += 1
        return r

    def m_len(ex_, st, callee, args, argvals, dty):
        cont, key = ex_.resolve(st, list(argvals[0].path))
        return cont[key][0]

    def m_split(ex_, st, callee, args, argvals, dty):
        cont, key = ex_.resolve(st, list(argvals[0].path))
        n = argvals[1]
        st.obligations.append(("split_to within bounds", z3.ULE(n, cont[key][0]), list(st.cond)))
        cont[key][0] = cont[key][0] - n
        a = mir.Agg("BytesMut")
        a[0] = n
        return a

    def m_freeze(ex_, st, callee, args, argvals, dty):
        a = mir.Agg("Bytes")
        a[0] = argvals[0][0]
        return a

    def m_send(ex_, st, callee, args, argvals, dty):
        w = st.locals.setdefault("@sent", mir.Agg("sent"))
        w[len(w)] = argvals[1][0]
        r = mir.Agg("Result")
        r["#d"] = z3.BitVec(f"send.result#{ex_.ctx.n}", 64)
        ex_.ctx.n += 1
        return r

    ex.models = [
        (r"^BytesMut::new$", m_new),
        (r"Encoder<amqp::Frame>>::encode$", m_encode),
        (r"^BytesMut::len$", m_len),
        (r"^BytesMut::split_to$", m_split),
        (r"^BytesMut::freeze$", m_freeze),
        (r"Sink<bytes::Bytes>>::start_send$", m_send),
        (r"LengthDelimitedCodec::max_frame_length$", lambda ex_, st, callee, args, argvals, dty: M_),
    ]
    paths = ex.run(fn, {"_1": mir.Agg("pin"), "_2": mir.Agg("frame")})
    hyp = ex.assumptions + [z3.UGE(M_, 1), z3.UGE(E_, 4), z3.ULE(E_, 3 * M_), z3.ULT(M_, 1 << 16)]
    n = 0

    def replay(m):
        mm, ee = model_value(m, M_), model_value(m, E_)
        # natively: an Open frame whose encoding is exactly the encoder's max-frame-length (508 for max-frame-size 512)
        return "chunks 508", (lambda js: js.get("panic") or js["empty_chunks"] > 0 or js["oversized"] > 0 or js["total"] != js["encoded"])

    for i, p in enumerate(paths):
        if p.end != "return":
            continue
        w = p.locals.get("@sent")
        if w is None:
            continue
        n += 1
        chunks = [w[k] for k in sorted(w.keys())]
        # only paths on which every send succeeded deliver the whole frame
        for j, c in enumerate(chunks):
            o.prove(f"path{i}:chunk{j}-non-empty", hyp + p.cond, z3.UGT(c, 0), replay=replay)
            o.prove(f"path{i}:chunk{j}<=max-frame-length", hyp + p.cond, z3.ULE(c, M_), replay=replay)
        if p.ret is not None and isinstance(p.ret, mir.Agg) and p.end == "return":
            total = chunks[0]
            for c in chunks[1:]:
                total = total + c
            all_ok = [c_[3]["#d"] == 0 for c_ in p.calls if c_[0].endswith("Sink<bytes::Bytes>>::start_send") and isinstance(c_[3], mir.Agg)]
            o.prove(f"path{i}:chunks-are-the-encoded-bytes", hyp + p.cond + all_ok, total == E_, replay=replay)
        for (d, ok, c) in p.obligations:
            o.prove(f"path{i}:{d}", hyp + c, ok)
    o.cover("paths that send", [z3.BoolVal(n > 0)])
    return [o]


def c15_frame_size_setters(env):
    out = []
    for which in ("set_encoder_max_frame_size", "set_decoder_max_frame_size"):
        o = Obligation(f"c15_{which}", "C15")
        o.desc = f"Transport::{which} is called with the max-frame-size of the PEER's open: for every value (including 0..7) it must not overflow, and the encoder's max-frame-length it installs must leave room for the 4 frame-header bytes (FrameEncoder::new subtracts 4 again)"
        fn = env.fn(rf"^transport::<impl at [^>]*>::{which}$")
        o.functions = [fn.name]
        o.bounds = ["every 64-bit value of the peer's max-frame-size"]
        ex = env.executor()
        x = BV64("peer.max_frame_size")
        captured = []
        ex.models = [(r"LengthDelimitedCodec::set_max_frame_length$", lambda ex_, st, callee, args, argvals, dty: (captured.append((argvals[1], list(st.cond))), mir.Agg("unit"))[1])]
        paths = ex.run(fn, {"_1": mir.Ref(("@self",), True), "@self": mir.Agg("transport"), "_2": x})

        def replay(m, which=which):
            v = model_value(m, x)
            probes = sorted({v, 512, 513, 515, 516, 1024})
            if "encoder" not in which:
                return f"setsize 0 {v}", (lambda js: js.get("panic") is True)
            return [f"setsize 1 {q}" for q in probes], (lambda outs: any(js.get("panic") is True or js["encoder_max"] + 4 != max(q, 512) for q, js in zip(probes, outs)))

        n = 0
        for i, p in enumerate(paths):
            if p.end != "return":
                continue
            n += 1
            for (d, ok, c) in p.obligations:
                o.prove(f"path{i}:{d}", ex.assumptions + c, ok, replay=replay)
        lim = z3.If(z3.UGE(x, z3.BitVecVal(512, 64)), x, z3.BitVecVal(512, 64))
        for j, (val, cond) in enumerate(captured):
            if "encoder" in which:
                o.prove(f"installed-length-leaves-room-for-the-header#{j}", ex.assumptions + cond, z3.UGE(val, 8), replay=replay)
                # the 4-byte size prefix is written on top of the encoder's limit: together they must stay within
                # what the peer advertised (not below the protocol minimum of 512), and use all of it
                o.prove(f"encoder-limit-plus-size-prefix-is-the-peers-max-frame-size#{j}", ex.assumptions + cond, val + 4 == lim, replay=replay)
            else:
                o.prove(f"decoder-limit-is-our-max-frame-size#{j}", ex.assumptions + cond, val == lim, replay=replay)
        o.cover("paths", [z3.BoolVal(n > 0 and len(captured) > 0)])
        out.append(o)
    return out


def c10_reader(env):
    o = Obligation("c10_reader_contiguous", "C10")
    o.desc = "the chained-buffer reader behind a multi-frame delivery (ByteReader::read): one read copies from consecutive chunks into consecutive, non-overlapping, gap-free ranges of the destination starting at 0, never past either side, and returns min(destination length, bytes buffered)"
    fn = env.fn(r"^util::<impl at [^>]*>::read$", sig=r"ByteReader<bytes::Bytes>")
    o.functions = [fn.name]
    o.bounds = ["3 chunks of symbolic lengths (each < 2^32, empty chunks included), destination of symbolic length < 2^32; one read"]
    o.assumes = ["bytes::Buf::remaining / split_to / copy_to_slice and slice indexing per their documented contracts (copy_to_slice fills the whole destination sub-slice and advances the source)"]
    ex = env.executor(max_visits=6)
    D = BV64("dst.len")
    L = [BV64(f"chunk{i}.len") for i in range(3)]

    def init():
        dst = mir.Agg("dst")
        dst["#len"] = D
        loc = {"_1": mir.Ref(("@reader",), True), "@reader": mir.Agg("reader"), "_2": mir.Ref(("@dst",), True), "@dst": dst}
        for i in range(3):
            c = mir.Agg(f"chunk{i}")
            c[0] = L[i]
            loc[f"@chunk{i}"] = c
        w = mir.Agg("world")
        w["next"] = 0
        w["writes"] = ()
        loc["@world"] = w
        return loc

    def m_next(ex_, st, callee, args, argvals, dty):
        w = st.locals["@world"]
        r = mir.Agg("Option")
        if w["next"] < 3:
            r["#d"] = z3.BitVecVal(1, 64)
            sub = mir.Agg("Some")
            sub[0] = mir.Ref((f"@chunk{w['next']}",), True)
            r[("as", "Some")] = sub
            w["next"] = w["next"] + 1
        else:
            r["#d"] = z3.BitVecVal(0, 64)
        return r

    def chunk_of(ex_, st, v):
        # &&mut Bytes / &mut Bytes -> the chunk aggregate
        while isinstance(v, mir.Ref):
            cont, key = ex_.resolve(st, list(v.path))
            v2 = cont.get(key)
            if isinstance(v2, mir.Ref):
                v = v2
                continue
            return v2
        return v

    def m_remaining(ex_, st, callee, args, argvals, dty):
        return chunk_of(ex_, st, argvals[0])[0]

    def m_split_to(ex_, st, callee, args, argvals, dty):
        c = chunk_of(ex_, st, argvals[0])
        n = argvals[1]
        st.obligations.append(("split_to within the chunk", z3.ULE(n, c[0]), list(st.cond)))
        c[0] = c[0] - n
        a = mir.Agg("Bytes")
        a[0] = n
        return a

    def m_index(ex_, st, callee, args, argvals, dty):
        rng = argvals[1]
        a = mir.Agg("subslice")
        kind = rng.label if isinstance(rng, mir.Agg) else ""
        if kind == "Range":
            start, end = rng[0], rng[1]
        elif kind == "RangeFrom":
            start, end = rng[0], D
        elif kind == "RangeTo":
            start, end = z3.BitVecVal(0, 64), rng[0]
        elif kind == "RangeFull" or "RangeFull" in callee:
            start, end = z3.BitVecVal(0, 64), D
        else:
            raise mir.Unsupported(f"slice index with {kind or callee[:60]}")
        st.obligations.append(("slice index in bounds", z3.And(z3.ULE(start, end), z3.ULE(end, D)), list(st.cond)))
        a["start"], a["end"] = start, end
        return a

    def m_copy(ex_, st, callee, args, argvals, dty):
        src = chunk_of(ex_, st, argvals[0])
        sub = argvals[1]
        n = sub["end"] - sub["start"]
        st.obligations.append(("copy_to_slice: source holds enough bytes", z3.UGE(src[0], n), list(st.cond)))
        src[0] = src[0] - n
        w = st.locals["@world"]
        w["writes"] = w["writes"] + ((sub["start"], sub["end"]),)
        return mir.Agg("unit")

    ex.models = [
        (r"IterMut<'_, bytes::Bytes> as Iterator>::next$", m_next),
        (r"as Buf>::remaining$", m_remaining),
        (r"^bytes::Bytes::split_to$", m_split_to),
        (r"as IndexMut<(std::ops::)?Range\w*(<usize>)?>>::index_mut$", m_index),
        (r"as Buf>::copy_to_slice$", m_copy),
    ]
    paths = ex.run(fn, init())
    small = [z3.ULT(x, 1 << 32) for x in L + [D]]
    hyp = ex.assumptions + small
    total = L[0] + L[1] + L[2]
    n = 0

    def replay(m):
        d, ls = model_value(m, D), [model_value(m, x) for x in L]
        cap = lambda v: min(v, 12)  # noqa: E731
        return f"reader {cap(d)} {cap(ls[0])} {cap(ls[1])} {cap(ls[2])}", (lambda js: js.get("panic") or not js["prefix_ok"])

    def replay_probe(m):
        # directed native probe: one read draining two chunks and part of a third
        return "reader 7 2 2 3", (lambda js: js.get("panic") or not js["prefix_ok"])

    for i, p in enumerate(paths):
        if p.end != "return":
            if p.end.startswith("loop-bound"):
                raise mir.Unsupported("reader loop not exhausted within the unrolling bound")
            continue
        n += 1
        writes = p.locals["@world"]["writes"]
        pos = z3.BitVecVal(0, 64)
        for j, (s_, e_) in enumerate(writes):
            o.prove(f"path{i}:write{j}-continues-where-the-last-ended", hyp + p.cond, s_ == pos, replay=replay_probe)
            pos = e_
        ret = p.ret[("as", "Ok")][0]
        o.prove(f"path{i}:returns-bytes-written", hyp + p.cond, ret == pos, replay=replay_probe)
        o.prove(f"path{i}:returns-min(dst,buffered)", hyp + p.cond, ret == z3.If(z3.ULE(D, total), D, total), replay=replay)
        for (d, ok, c) in p.obligations:
            o.prove(f"path{i}:{d}", hyp + c, ok, replay=replay)
    o.cover("paths", [z3.BoolVal(n > 0)])
    return [o]


REGISTRY.setdefault("C06", []).append(c06_start_send_chunks)
REGISTRY.setdefault("C15", []).append(c15_frame_size_setters)
REGISTRY.setdefault("C10", []).append(c10_reader)


# ======================================================================================
# C11: a link's output handle is released by OUR detach, indexed by OUR handle
# ======================================================================================


def c11_handle_release(env):
    o = Obligation("c11_output_handle_release", "C11")
    o.desc = "the table of local (output) handles is only ever indexed with OUR handle: Session::on_outgoing_detach releases (if anything) the handle carried by the outgoing detach (which is ours), and Session::on_incoming_detach never releases the handle number carried by the peer's detach (the peer numbers its handles independently, AMQP 2.6.2)"
    out_fn = env.fn(r"^session::<impl at [^>]*>::on_outgoing_detach$")
    in_fn = env.fn(r"^session::<impl at [^>]*>::on_incoming_detach::\{closure#0\}$")
    o.functions = [out_fn.name, in_fn.name]
    o.bounds = ["one call of each function; all 32-bit handle values; the incoming-detach coroutine from its initial state through every await completing or pending"]
    o.assumes = ["Handle -> OutputHandle/InputHandle conversions copy the number (they are newtypes over u32)"]
    h = BV32("detach.handle")

    def conv(ex_, st, callee, args, argvals, dty):
        v = argvals[0]
        if isinstance(v, mir.Ref):
            cont, key = ex_.resolve(st, list(v.path))
            v = cont.get(key)
        a = mir.Agg("handle")
        a[0] = v[0] if isinstance(v, mir.Agg) and 0 in v else ex_.ctx.fresh("u32", "h")
        return a

    models = [(r"Handle as Clone>::clone$", conv), (r"Handle as Into<endpoint::(Output|Input)Handle>>::into$", conv), (r"(Output|Input)Handle as From<fe2o3_amqp_types::definitions::Handle>>::from$", conv)]

    def replay(m):
        return ["handles 1 0", "handles 5 9"], (lambda outs: any(js.get("panic") or js["c"] != js["a"] or js["b_name_reused"] or not js["detach_ok"] for js in outs))

    # outgoing detach
    ex = env.executor()
    ex.models = list(models)
    D = mir.Agg("detach")
    hh = mir.Agg("Handle")
    hh[0] = h
    D[env.fidx("Detach", "handle")] = hh
    paths = ex.run(out_fn, {"_1": mir.Ref(("@self",), True), "@self": mir.Agg("session"), "_2": D})
    n = 0
    for i, p in enumerate(paths):
        if p.end != "return":
            continue
        n += 1
        rel = [c for c in p.calls if c[0].endswith("::deallocate_link")]
        # releasing later (e.g. once the peer has answered) would be legitimate too: at most once here
        o.prove(f"outgoing path{i}:releases-at-most-once", ex.assumptions + p.cond, z3.BoolVal(len(rel) <= 1), replay=replay)
        for c in rel:
            arg = c[1][1]
            o.prove(f"outgoing path{i}:releases-our-handle", ex.assumptions + c[2], arg[0] == h if isinstance(arg, mir.Agg) and 0 in arg else z3.BoolVal(False), replay=replay)
    # incoming detach
    ex = env.executor()
    ex.models = list(models)
    D = mir.Agg("detach")
    hh = mir.Agg("Handle")
    hh[0] = h
    D[env.fidx("Detach", "handle")] = hh
    pin, cor = coroutine_start(env, "@self", {1: D})
    paths = ex.run(in_fn, {"_1": pin, "@cor": cor, "@self": mir.Agg("session")})
    for i, p in enumerate(paths):
        if p.end != "return":
            continue
        n += 1
        for c in p.calls:
            if c[0].endswith("::deallocate_link") or ("link_name_by_output_handle" in c[0]):
                arg = c[1][1]
                same = isinstance(arg, mir.Agg) and 0 in arg and z3.is_true(z3.simplify(arg[0] == h))
                o.prove(f"incoming path{i}:peer-handle-never-indexes-our-handle-table", ex.assumptions + c[2], z3.BoolVal(not same), replay=replay)
    o.cover("paths", [z3.BoolVal(n > 0)])
    return [o]


REGISTRY["C11"].append(c11_handle_release)


# ======================================================================================
# C06: transfer splitting by FrameEncoder::encode_transfer
# ======================================================================================


def c06_transfer_split(env):
    o = Obligation("c06_transfer_split", "C06")
    o.desc = "FrameEncoder::encode_transfer: the bytes written are frames of header + performative + payload chunk; every frame but the last is exactly the frame size (so the transport's re-chunking cuts at frame boundaries), the last at most; the chunks add up to the payload; `more` is set on all but the last, which keeps the caller's; delivery-id, delivery-tag and message-format appear on the first frame only"
    fn = env.fn(r"^amqp::<impl at [^>]*>::encode_transfer$")
    hdr = env.fn(r"^write_header$")
    o.functions = [fn.name, hdr.name + " (modelled as: appends 4 bytes)"]
    o.bounds = ["frame body size B and payload length symbolic, 16 <= B < 2^16, payload <= 2*B (up to 5 frames; the middle-frame loop unrolled 4 times); every performative encoding of symbolic length 1..B/2"]
    o.assumes = ["the encoded transfer performative is at most half the frame body (it is a few dozen bytes unless the delivery state carries a large error description; max-frame-size is at least 512)", "BytesMut/Bytes len, clear, split_to, put per their documented contracts", "setting more=true does not shrink the performative's encoding; clearing delivery-id/tag/format/settled/rcv-settle-mode does not grow it"]
    ex = env.executor(max_visits=5)
    B = BV64("frame_body_size")
    PL = BV64("payload.len")
    orig_more = z3.Bool("transfer.more")
    P = []
    T = mir.Agg("transfer")
    f_more = env.fidx("Transfer", "more")
    T[f_more] = orig_more
    opt = {}
    for fld in ("delivery_id", "delivery_tag", "message_format"):
        a = mir.Agg(fld)
        opt[fld] = z3.BitVec(f"transfer.{fld}.is_some", 64)
        a["#d"] = opt[fld]
        T[env.fidx("Transfer", fld)] = a
    # fields that every frame of the delivery must keep: the (transactional) delivery state travels with each frame --
    # the resource side sorts incoming transfer FRAMES by it (TxnSession::on_incoming_transfer)
    kept = {}
    for fld in ("state",):
        a = mir.Agg(fld)
        kept[fld] = z3.BitVec(f"transfer.{fld}.is_some", 64)
        a["#d"] = kept[fld]
        T[env.fidx("Transfer", fld)] = a

    def buf_of(ex_, st, v):
        while isinstance(v, mir.Ref):
            cont, key = ex_.resolve(st, list(v.path))
            v2 = cont.get(key)
            if isinstance(v2, mir.Ref):
                v = v2
            else:
                return v2
        return v

    def m_new(ex_, st, callee, args, argvals, dty):
        a = mir.Agg("BytesMut")
        a[0] = z3.BitVecVal(0, 64)
        a["gen"] = None
        return a

    def m_writer(ex_, st, callee, args, argvals, dty):
        a = mir.Agg("writer")
        a[0] = argvals[0]
        return a

    def m_ser_from(ex_, st, callee, args, argvals, dty):
        a = mir.Agg("serializer")
        a[0] = argvals[0]
        return a

    def m_serialize(ex_, st, callee, args, argvals, dty):
        ser = buf_of(ex_, st, argvals[1])
        wr = ser[0]
        b = buf_of(ex_, st, wr[0])
        k = len(st.locals["@world"]["snaps"])
        while len(P) <= k:
            P.append(BV64(f"performative{len(P)}.len"))
        b[0] = b[0] + P[k]
        b["gen"] = k
        tr = buf_of(ex_, st, argvals[0])
        snap = {"more": tr[f_more], **{fld: tr[env.fidx("Transfer", fld)]["#d"] for fld in opt}}
        for fld in kept:
            kv = tr.get(env.fidx("Transfer", fld))
            snap[fld] = kv.get("#d") if isinstance(kv, mir.Agg) else None
        st.locals["@world"]["snaps"] = st.locals["@world"]["snaps"] + (snap,)
        r = mir.Agg("Result")
        r["#d"] = z3.BitVec(f"serialize.result#{ex_.ctx.n}", 64)
        ex_.ctx.n += 1
        return r

    def m_len(ex_, st, callee, args, argvals, dty):
        return buf_of(ex_, st, argvals[0])[0]

    def m_clear(ex_, st, callee, args, argvals, dty):
        b = buf_of(ex_, st, argvals[0])
        b[0] = z3.BitVecVal(0, 64)
        return mir.Agg("unit")

    def m_split(ex_, st, callee, args, argvals, dty):
        b = buf_of(ex_, st, argvals[0])
        n = argvals[1]
        st.obligations.append(("split_to within the payload", z3.ULE(n, b[0]), list(st.cond)))
        b[0] = b[0] - n
        a = mir.Agg("Bytes")
        a[0] = n
        return a

    def seg(st, kind, length, gen=None):
        w = st.locals["@world"]
        w["segs"] = w["segs"] + ((kind, length, gen),)

    def m_header(ex_, st, callee, args, argvals, dty):
        seg(st, "H", z3.BitVecVal(4, 64))
        return mir.Agg("unit")

    def m_put(ex_, st, callee, args, argvals, dty):
        src = buf_of(ex_, st, argvals[1])
        kind = "P" if ("&[u8]" in callee or "put::<BytesMut>" in callee) else "D"
        seg(st, kind, src[0], src.get("gen") if isinstance(src, mir.Agg) else None)
        return mir.Agg("unit")

    ex.models = [
        (r"^BytesMut::new$", m_new),
        (r"BufMut>::writer$", m_writer),
        (r"Serializer<.*> as From<.*>>::from$", m_ser_from),
        (r"Transfer as Serialize>::serialize::", m_serialize),
        (r"^BytesMut::len$|^bytes::Bytes::len$", m_len),
        (r"^BytesMut::clear$", m_clear),
        (r"^bytes::Bytes::split_to$", m_split),
        (r"^write_header$", m_header),
        (r"BytesMut as Deref>::deref$", lambda ex_, st, callee, args, argvals, dty: argvals[0]),
        (r"as Index<RangeFull>>::index$", lambda ex_, st, callee, args, argvals, dty: argvals[0]),
        (r"BytesMut as BufMut>::put::<", m_put),
    ]
    enc = mir.Agg("encoder")
    enc[env.fidx("FrameEncoder", "max_frame_body_size")] = B
    pay = mir.Agg("payload")
    pay[0] = PL
    world = mir.Agg("world")
    world["segs"] = ()
    world["snaps"] = ()
    dst = mir.Agg("dst")
    dst[0] = z3.BitVecVal(0, 64)
    paths = ex.run(fn, {"_1": mir.Ref(("@enc",), False), "@enc": enc, "_2": mir.Ref(("@dst",), True), "@dst": dst, "_4": T, "_5": pay, "@world": world})
    hyp = ex.assumptions + [z3.UGE(B, 16), z3.ULT(B, 1 << 16), z3.ULE(PL, 2 * B)] + [z3.ULE(opt[f], 1) for f in opt] + [z3.ULE(kept[f], 1) for f in kept]

    def phyp():
        h = [z3.And(z3.UGE(p, 1), z3.ULE(p, z3.LShR(B, 1))) for p in P]
        # monotonicity of the performative encoding (an assumption about the serializer):
        # #1 = #0 with more:=true (cannot shrink); #2 = #1 with first-frame fields cleared (cannot grow);
        # #3 = #2 with more:=caller's (cannot grow)
        if len(P) > 1:
            h.append(z3.UGE(P[1], P[0]))
        if len(P) > 2:
            h.append(z3.ULE(P[2], P[1]))
        if len(P) > 3:
            h.append(z3.ULE(P[3], P[2]))
        return h

    def replay(m):
        b = model_value(m, B)
        pl = model_value(m, PL)
        # natively at a small frame size: body 60 (frame 64), the model's payload scaled into range
        # every payload length over three frame periods (the frame boundaries -- where the last chunk fills its frame
        # exactly -- depend on the real serializer's performative sizes, which the encoding abstracts)
        probes = [(64, x, mo) for x in range(0, 200) for mo in (0, 1)]
        if 16 <= b <= 4096 and pl <= 3 * b:
            probes += [(b, x, mo) for x in sorted({max(pl + d, 0) for d in range(-48, 49)}) for mo in (0, 1)]
        cmds = [f"split {fs} {n} 1 {mo} 1" for fs, n, mo in probes]

        def bad(outs):
            for (fs, n, mo), js in zip(probes, outs):
                if js.get("panic") or not js["payload_ok"]:
                    return True
                fr = js["frames"]
                for i, f in enumerate(fr):
                    last = i == len(fr) - 1
                    if (not last and f["len"] != fs) or f["len"] > fs or f["more"] != ((mo == 1) if last else True):
                        return True
                    if (i > 0 and (f["has_id"] or f["has_tag"] or f["has_fmt"])) or (i == 0 and not (f["has_id"] and f["has_tag"])):
                        return True
                    if not f.get("has_state", True):
                        return True
            return False

        return cmds, bad

    n = 0
    for i, p in enumerate(paths):
        if p.end.startswith("loop-bound"):
            o.prove(f"path{i}:bound-of-4-frames-suffices", hyp + phyp() + p.cond, z3.BoolVal(False))
            continue
        if p.end != "return" or not isinstance(p.ret, mir.Agg):
            continue
        segs = p.locals["@world"]["segs"]
        snaps = p.locals["@world"]["snaps"]
        okd = p.ret.get("#d")
        if okd is None or not segs:
            continue
        is_ok = okd == 0
        H = hyp + phyp() + p.cond + [is_ok]
        # frames
        frames = []
        cur = None
        wellformed = True
        for (kind, ln, gen) in segs:
            if kind == "H":
                cur = {"P": None, "D": None, "gen": None}
                frames.append(cur)
            elif cur is None or cur[kind] is not None:
                wellformed = False
            else:
                cur[kind] = ln
                if kind == "P":
                    cur["gen"] = gen
        wellformed = wellformed and all(f["P"] is not None and f["D"] is not None for f in frames)
        n += 1
        o.prove(f"path{i}:every-frame-is-header+performative+payload", H, z3.BoolVal(wellformed), replay=replay)
        if not wellformed:
            continue
        total = z3.BitVecVal(0, 64)
        for j, f in enumerate(frames):
            last = j == len(frames) - 1
            size = f["P"] + f["D"]
            if last:
                o.prove(f"path{i}:frame{j}(last)<=frame-size", H, z3.ULE(size, B), replay=replay)
            else:
                o.prove(f"path{i}:frame{j}-exactly-frame-size", H, size == B, replay=replay)
            total = total + f["D"]
            snap = snaps[f["gen"]] if f["gen"] is not None and f["gen"] < len(snaps) else None
            if snap is None:
                o.prove(f"path{i}:frame{j}-performative-known", H, z3.BoolVal(False))
                continue
            o.prove(f"path{i}:frame{j}-more-flag", H, snap["more"] == (orig_more if last else z3.BoolVal(True)), replay=replay)
            for fld in opt:
                want = opt[fld] if j == 0 else z3.BitVecVal(0, 64)
                o.prove(f"path{i}:frame{j}-{fld}", H, snap[fld] == want, replay=replay)
            for fld in kept:
                o.prove(f"path{i}:frame{j}-keeps-{fld}", H, (snap[fld] == kept[fld]) if snap.get(fld) is not None else z3.BoolVal(False), replay=replay)
        o.prove(f"path{i}:chunks-add-up-to-the-payload", H, total == PL, replay=replay)
        for (d, ok, c) in p.obligations:
            o.prove(f"path{i}:{d}", hyp + phyp() + c, ok, replay=replay)
    o.cover("multi-frame path exists", [z3.BoolVal(n > 1)])
    return [o]


REGISTRY.setdefault("C06", []).append(c06_transfer_split)


# ---- C04: IoReader::fill_buffer never allocates what the wire merely claims -------------------


IO_SLACK = 4096  # one page-sized chunk beyond the bytes that actually arrived


def _io_fill_buffer(env, prop, which="fill_buffer"):
    """symbolic run of IoReader::fill_buffer (or of the default Read::read_bytes); the C04 and the C20 obligation read different facts off the same paths"""
    senv = env.crate("serde_amqp")
    fn = senv.fn(r"^ioread::<impl at [^>]*>::fill_buffer$" if which == "fill_buffer" else r"^read::Read::read_bytes$")
    ex = senv.executor(max_visits=6)
    N = BV64("len.requested")
    L0 = BV64("buf.len0")
    A0 = BV64("reader.available")

    def world(st):
        return st.locals["@world"]

    def grow(st, target):
        w = world(st)
        w["events"] = w["events"] + ((target, w["received"], list(st.cond)),)

    def m_len(ex_, st, callee, args, argvals, dty):
        return world(st)["len"]

    def m_resize(ex_, st, callee, args, argvals, dty):
        w = world(st)
        new = argvals[1]
        grow(st, new)
        w["len"] = new
        return mir.Agg("unit")

    def m_reserve(ex_, st, callee, args, argvals, dty):
        w = world(st)
        grow(st, w["len"] + argvals[1])
        return mir.Agg("unit")

    def m_with_capacity(ex_, st, callee, args, argvals, dty):
        w = world(st)
        grow(st, argvals[0])
        w["len"] = z3.BitVecVal(0, 64)
        return mir.Agg("vec")

    def m_truncate(ex_, st, callee, args, argvals, dty):
        w = world(st)
        n = argvals[1]
        w["len"] = z3.If(z3.ULT(n, w["len"]), n, w["len"])
        return mir.Agg("unit")

    def container_len(st, callee):
        m = re.search(r"<\[u8; (\w+)\] as", callee)
        if m:
            k = m.group(1)
            if k.isdigit():
                return z3.BitVecVal(int(k), 64), "chunk"
            if k in senv.consts:
                return z3.BitVecVal(senv.consts[k][0], 64), "chunk"
            raise mir.Unsupported(f"array length {k} unknown")
        if re.search(r"<Vec<u8> as|<\[u8\] as", callee):
            return None, None
        raise mir.Unsupported(f"index on {callee[:60]}")

    def m_index(ex_, st, callee, args, argvals, dty):
        clen, what = container_len(st, callee)
        base = argvals[0]
        if clen is None:
            if isinstance(base, mir.Agg) and base.label == "subslice":
                clen, what, off = base["end"] - base["start"], base["of"], base["start"]
            else:
                clen, what, off = world(st)["len"], "buf", z3.BitVecVal(0, 64)
        else:
            off = z3.BitVecVal(0, 64)
        rng = argvals[1]
        kind = rng.label if isinstance(rng, mir.Agg) else ""
        if kind == "Range":
            start, end = rng[0], rng[1]
        elif kind == "RangeFrom":
            start, end = rng[0], clen
        elif kind == "RangeTo":
            start, end = z3.BitVecVal(0, 64), rng[0]
        elif kind == "RangeFull" or "RangeFull" in callee:
            start, end = z3.BitVecVal(0, 64), clen
        else:
            raise mir.Unsupported(f"slice index with {kind or callee[:60]}")
        st.obligations.append(("slice index in bounds", z3.And(z3.ULE(start, end), z3.ULE(end, clen)), list(st.cond)))
        a = mir.Agg("subslice")
        a["start"], a["end"], a["of"] = off + start, off + end, what
        return a

    def sub_of(v):
        if isinstance(v, mir.Agg) and v.label == "subslice":
            return v
        # the whole stack chunk passed as a slice (`&mut chunk` / `&chunk`: an unsize coercion of `[u8; CHUNK]`)
        if isinstance(v, mir.Ref) and "CHUNK" in senv.consts:
            a = mir.Agg("subslice")
            a["start"], a["end"], a["of"] = z3.BitVecVal(0, 64), z3.BitVecVal(senv.consts["CHUNK"][0], 64), "chunk"
            return a
        raise mir.Unsupported("read into / copy from something that is not a tracked sub-slice")

    def m_read_exact(ex_, st, callee, args, argvals, dty):
        w = world(st)
        sub = sub_of(argvals[1])
        n = sub["end"] - sub["start"]
        ok = z3.UGE(w["avail"], n)
        w["reads"] = w["reads"] + ((sub["of"], sub["start"], sub["end"], ok, list(st.cond)),)
        w["received"] = z3.If(ok, w["received"] + n, w["received"])
        w["avail"] = z3.If(ok, w["avail"] - n, z3.BitVecVal(0, 64))
        r = mir.Agg("Result")
        r["#d"] = z3.If(ok, z3.BitVecVal(0, 64), z3.BitVecVal(1, 64))
        return r

    def m_read(ex_, st, callee, args, argvals, dty):
        # io::Read::read: Ok(k) with k <= buf.len() bytes written at the front (k may be short), or Err
        w = world(st)
        sub = sub_of(argvals[1])
        n = sub["end"] - sub["start"]
        k = z3.BitVec(f"read.k#{ex_.ctx.n}", 64)
        ok = z3.Bool(f"read.ok#{ex_.ctx.n}")
        ex_.ctx.n += 1
        ex_.assumptions += [z3.ULE(k, n), z3.ULE(k, w["avail"])]
        w["reads"] = w["reads"] + ((sub["of"], sub["start"], sub["start"] + k, ok, list(st.cond)),)
        w["received"] = z3.If(ok, w["received"] + k, w["received"])
        w["avail"] = z3.If(ok, w["avail"] - k, w["avail"])
        r = mir.Agg("Result")
        r["#d"] = z3.If(ok, z3.BitVecVal(0, 64), z3.BitVecVal(1, 64))
        okv = mir.Agg("Ok")
        okv[0] = k
        r[("as", "Ok")] = okv
        return r

    def m_extend(ex_, st, callee, args, argvals, dty):
        w = world(st)
        sub = sub_of(argvals[1])
        n = sub["end"] - sub["start"]
        grow(st, w["len"] + n)
        w["len"] = w["len"] + n
        return mir.Agg("unit")

    ex.models = [
        (r"^Vec::<u8>::len$", m_len),
        (r"^Vec::<u8>::resize$", m_resize),
        (r"^Vec::<u8>::(reserve|reserve_exact)$", m_reserve),
        (r"^Vec::<u8>::with_capacity$", m_with_capacity),
        (r"^Vec::<u8>::truncate$", m_truncate),
        (r"^Vec::<u8>::extend_from_slice$", m_extend),
        (r"as Index(Mut)?<(std::ops::)?Range\w*(<usize>)?>>::index(_mut)?$", m_index),
        (r"as (std::io::|read::)?Read(<'_>)?>::read_exact$", m_read_exact),
        (r"as (std::io::)?Read>::read$", m_read),
    ]
    w = mir.Agg("world")
    w["len"], w["avail"], w["received"] = L0, A0, z3.BitVecVal(0, 64)
    w["events"], w["reads"] = (), ()
    rd = mir.Agg("ioreader")
    paths = ex.run(fn, {"_1": mir.Ref(("@rd",), True), "@rd": rd, "_2": N, "@world": w})
    hyp = ex.assumptions + [z3.ULT(L0, 1 << 32), z3.ULT(A0, 3 * IO_SLACK)] + ([L0 == 0] if which != "fill_buffer" else [])
    bounds = [f"requested length: every 64-bit value; bytes already buffered < 2^32; bytes the reader can still deliver < {3 * IO_SLACK} (so at most 3 chunk iterations; more is shown infeasible)"]
    assumes = ["Vec<u8>::len/resize/reserve/truncate/extend_from_slice and slice indexing per their documented contracts", "io::Read::read_exact(buf) either fills buf completely (reader had >= buf.len() bytes) or fails; io::Read::read(buf) returns Ok(k) with any k <= buf.len() (short reads allowed) or fails"]
    return senv, fn, paths, hyp, (N, L0, A0), bounds, assumes


def c04_io_fill_buffer(env):
    return [_c04_io_buffer(env, "fill_buffer"), _c04_io_buffer(env, "read_bytes")]


def _c04_io_buffer(env, which):
    o = Obligation("c04_io_" + which, "C04")
    if which == "fill_buffer":
        o.desc = "IoReader::fill_buffer(len) with len taken from a size field on the wire (str/sym/vbin lengths, sym32 descriptors): at every point the internal buffer is asked to hold at most the bytes that really arrived plus one 4 KiB chunk, whatever len claims; no arithmetic overflow or out-of-range slice; the loop ends once the reader runs dry"
    else:
        o.desc = "Read::read_bytes(n) (default method, used by the io reader for owned str/symbol/binary with n from the size field): the vector is asked to hold at most the bytes that really arrived plus one 4 KiB chunk, whatever n claims; every read goes through a chunk of at most 4 KiB; no overflow or out-of-range slice; the loop ends once the reader runs dry"
    senv, fn, paths, hyp, (N, L0, A0), o.bounds, o.assumes = _io_fill_buffer(env, "C04", which)
    o.functions = [fn.name]

    def replay(m):
        n, a0 = model_value(m, N), model_value(m, A0)
        claimed = max(min(n, 0x7FFFFFF0), 1)
        cmds = [f"iofill {kind} {claimed} {min(a0, 64)}" for kind in ("performative", "stronly", "bytesonly")]
        # directed probes as well: a descriptor / string claiming 1 GiB with 2 bytes present
        cmds += [f"iofill {kind} 1073741824 2" for kind in ("performative", "stronly", "bytesonly")]

        def bad(outs):
            return any(js.get("panic") or js["max_alloc"] > js["input_len"] + 2 * IO_SLACK for js in outs)

        return cmds, bad

    n_ret = 0
    for i, p in enumerate(paths):
        if p.end.startswith("loop-bound"):
            o.prove(f"path{i}:three-iterations-suffice-for-the-bounded-reader", hyp + p.cond, z3.BoolVal(False), replay=replay)
            continue
        if p.end != "return" or not isinstance(p.ret, mir.Agg):
            continue
        n_ret += 1
        wd = p.locals["@world"]
        for j, (target, received, c) in enumerate(wd["events"]):
            o.prove(f"path{i}:growth{j}-within-arrived-bytes+4KiB", hyp + c, z3.ULE(target, L0 + received + IO_SLACK), replay=replay)
        for j, (of, s_, e_, ok, c) in enumerate(wd["reads"]):
            if of == "chunk":
                o.prove(f"path{i}:read{j}-chunk-at-most-4KiB", hyp + c, z3.ULE(e_ - s_, IO_SLACK), replay=replay)
        for (d, okc, c) in p.obligations:
            o.prove(f"path{i}:{d}", hyp + c, okc, replay=replay)
    o.cover("a call that needs two chunks returns", [z3.BoolVal(n_ret > 1)] + hyp + [z3.UGT(N, L0 + IO_SLACK), z3.UGE(A0, N - L0)])
    # no other function of IoReader grows the buffer by a wire-derived amount
    growers = []
    for name, f in senv.fns.items():
        if not re.match(r"^ioread::<impl at ", name) or name == fn.name:
            continue
        for callee in mir.callees(f):
            if re.search(r"Vec::<u8>::(resize|reserve|reserve_exact|with_capacity|extend_from_slice|from_elem)|vec::from_elem", callee):
                growers.append(f"{name.split('::')[-1]} -> {callee}")
    if which == "fill_buffer":
        o.prove("only-fill_buffer-sizes-the-buffer-from-a-length", [], z3.BoolVal(not growers), replay=replay)
        o.functions += [k for k in senv.fns if re.match(r"^ioread::<impl at ", k) and k != fn.name][:12]
    return o


def c20_io_fill_buffer(env):
    o = Obligation("c20_io_fill_buffer", "C20")
    o.desc = "IoReader::fill_buffer(len) (behind peek_bytes / borrowed str and bytes / uuid / decimals / descriptors): on Ok the buffer holds exactly max(len, what it held) bytes and every new byte was delivered by the underlying reader -- also when the reader returns short reads -- so the io reader sees the same bytes as the slice reader"
    senv, fn, paths, hyp, (N, L0, A0), o.bounds, o.assumes = _io_fill_buffer(env, "C20")
    o.functions = [fn.name]

    def replay(m):
        cmds = [f"iochunk {k}" for k in (1, 2, 3, 5, 1000)]
        return cmds, (lambda outs: any(js.get("panic") or not js["agree"] for js in outs))

    n_ok = 0
    for i, p in enumerate(paths):
        if p.end != "return" or not isinstance(p.ret, mir.Agg):
            continue
        wd = p.locals["@world"]
        okd = p.ret.get("#d")
        if okd is None:
            raise mir.Unsupported("fill_buffer result without discriminant")
        H = hyp + p.cond + [okd == 0]
        n_ok += 1
        o.prove(f"path{i}:ok-implies-len-bytes-buffered", H, z3.UGE(wd["len"], N), replay=replay)
        o.prove(f"path{i}:ok-implies-no-more-than-asked", H, wd["len"] == z3.If(z3.UGE(L0, N), L0, N), replay=replay)
        o.prove(f"path{i}:ok-implies-every-new-byte-came-from-the-reader", H, wd["len"] - L0 == wd["received"], replay=replay)
        pos = L0
        for j, (of, s_, e_, ok, c) in enumerate(wd["reads"]):
            if of == "buf":
                o.prove(f"path{i}:read{j}-lands-right-after-the-bytes-already-buffered", hyp + c, s_ == pos, replay=replay)
                pos = z3.If(ok, e_, pos)
    o.cover("a call that needs two chunks succeeds", [z3.BoolVal(n_ok > 1)] + hyp + [z3.UGT(N, L0 + IO_SLACK), z3.UGE(A0, N - L0)])
    return [o]


REGISTRY.setdefault("C20", []).append(c20_io_fill_buffer)
REGISTRY.setdefault("C04", []).append(c04_io_fill_buffer)


# ---- C04 / C15: the frame decoders' own buffer arithmetic, for frames of every length ------------


def _frame_decoder_bounds(env, prop, which):
    pat = {"amqp": r"^amqp::<impl at fe2o3-amqp/src/frames/amqp\.rs[^>]*>::decode$", "sasl": r"^frames::sasl::<impl at fe2o3-amqp/src/frames/sasl\.rs[^>]*>::decode$"}[which]
    o = Obligation(f"{prop.lower()}_{which}_frame_decoder_bounds", prop)
    o.desc = f"{which.upper()} frame decoder on a frame of ANY length with ANY header bytes (what a peer can put behind a size field): every get_u8/get_u16/get_u32, advance and split_to stays inside the bytes that are there, no arithmetic overflow -- the decoder's own code cannot panic, whatever doff, type and length say"
    fn = env.fn(pat)
    o.functions = [fn.name]
    o.bounds = ["frame length: every value < 2^32; doff, type, channel bytes symbolic; one decode call"]
    o.assumes = ["bytes::Buf::get_uN / advance / BytesMut::split_to panic exactly when fewer bytes remain than asked for (documented)", "deserializing the performative consumes some prefix of the remaining bytes and returns Ok or Err (the deserializer's own totality is C04's Kani harnesses)"]
    ex = env.executor(max_visits=4)
    R0 = BV64("frame.len")

    def world(st):
        return st.locals["@world"]

    def take(st, k, what):
        w = world(st)
        kk = z3.BitVecVal(k, 64) if isinstance(k, int) else k
        st.obligations.append((f"{what}: enough bytes remain", z3.ULE(kk, w["rem"]), list(st.cond)))
        w["rem"] = w["rem"] - kk

    def m_len(ex_, st, callee, args, argvals, dty):
        return world(st)["rem"]

    def m_is_empty(ex_, st, callee, args, argvals, dty):
        return world(st)["rem"] == 0

    def m_get(ex_, st, callee, args, argvals, dty):
        m = re.search(r"::get_([ui])(\d+)(_le|_ne)?$", callee)
        bits = int(m.group(2))
        take(st, bits // 8, f"get_{m.group(1)}{bits}")
        w = world(st)
        v = z3.BitVec(f"hdr.byte{len(w['gets'])}.{m.group(1)}{bits}", bits)
        w["gets"] = w["gets"] + (v,)
        return v

    def m_advance(ex_, st, callee, args, argvals, dty):
        take(st, argvals[1], "advance")
        return mir.Agg("unit")

    def m_split_to(ex_, st, callee, args, argvals, dty):
        take(st, argvals[1], "split_to")
        return mir.Agg("BytesMut")

    def m_split(ex_, st, callee, args, argvals, dty):
        world(st)["rem"] = z3.BitVecVal(0, 64)
        return mir.Agg("BytesMut")

    def m_truncate(ex_, st, callee, args, argvals, dty):
        w = world(st)
        w["rem"] = z3.If(z3.ULT(argvals[1], w["rem"]), argvals[1], w["rem"])
        return mir.Agg("unit")

    def m_deser(ex_, st, callee, args, argvals, dty):
        w = world(st)
        r2 = z3.BitVec(f"rem.after.deserialize#{ex_.ctx.n}", 64)
        ex_.ctx.n += 1
        ex_.assumptions.append(z3.ULE(r2, w["rem"]))
        w["rem"] = r2
        w["deser"] = w["deser"] + 1
        r = mir.Agg("Result")
        ex_.new_discr(st, r, "Result")
        okv = mir.Agg("Ok")
        val = mir.Agg("value")
        okv[0] = val
        r[("as", "Ok")] = okv
        return r

    def m_keep(ex_, st, callee, args, argvals, dty):
        return mir.Agg("opaque")

    ex.models = [
        (r"^BytesMut::len$|as Buf>::remaining$", m_len),
        (r"^BytesMut::is_empty$|as Buf>::has_remaining$", lambda *a: z3.Not(m_is_empty(*a)) if a[2].endswith("has_remaining") else m_is_empty(*a)),
        (r"as Buf>::get_[ui](8|16|32|64)(_le|_ne)?$", m_get),
        (r"as Buf>::advance$", m_advance),
        (r"^BytesMut::split_to$", m_split_to),
        (r"^BytesMut::split$|^BytesMut::split_off$", m_split),
        (r"^BytesMut::truncate$|^BytesMut::clear$", m_truncate),
        (r"as Buf>::reader$|^IoReader::<.*>::new$|Deserializer::<.*>::new$", m_keep),
        (r"as Deserialize<'_>>::deserialize::<", m_deser),
    ]
    w = mir.Agg("world")
    w["rem"], w["gets"], w["deser"] = R0, (), 0
    paths = ex.run(fn, {"_1": mir.Ref(("@dec",), True), "@dec": mir.Agg("decoder"), "_2": mir.Ref(("@src",), True), "@src": mir.Agg("src"), "@world": w})
    hyp = ex.assumptions + [z3.ULT(R0, 1 << 32)]

    def replay(m):
        n = model_value(m, R0)
        hdr = [0, 0, 0, 0]
        for d in m.decls():
            mm = re.match(r"hdr\.byte(\d+)\.u(\d+)$", d.name())
            if mm and int(mm.group(1)) < 4:
                hdr[int(mm.group(1))] = m[d].as_long()
        cmds = [f"framedec {which} {hdr[0]} {hdr[1]} {min(n, 70000)}"]
        # directed probes around the model: the model's header and the small data offsets with every short length
        cmds += [f"framedec {which} {d} {hdr[1]} {k}" for d in sorted({hdr[0], 0, 1, 2, 3, 4, 5, 255}) for k in range(0, 24)]
        return cmds, (lambda outs: any(js.get("panic") for js in outs))

    n = 0
    for i, p in enumerate(paths):
        if p.end.startswith("loop-bound"):
            raise mir.Unsupported("frame decoder contains a loop that the unrolling bound does not exhaust")
        for (d, okc, c) in p.obligations:
            n += 1
            o.prove(f"path{i}:{d}", hyp + c, okc, replay=replay)
    o.cover("a frame with a body reaches the performative deserializer", [z3.BoolVal(any(p.locals["@world"]["deser"] > 0 for p in paths if p.end == "return"))] + hyp + [z3.UGT(R0, 4)])
    return o


def c15_frame_decoder_bounds(env):
    return [_frame_decoder_bounds(env, "C15", "amqp"), _frame_decoder_bounds(env, "C15", "sasl")]


def c04_frame_decoder_bounds(env):
    return [_frame_decoder_bounds(env, "C04", "amqp"), _frame_decoder_bounds(env, "C04", "sasl")]


REGISTRY.setdefault("C15", []).append(c15_frame_decoder_bounds)
REGISTRY.setdefault("C04", []).append(c04_frame_decoder_bounds)


# ---- C03 / C05: hand-written format-code tables of typed protocol items ---------------------------

# AMQP 1.0 part 1 section 1.6 (constructors) and part 3 (restricted types), written from the spec
SPEC_CODES = {"ulong": (0x80, 0x53, 0x44), "uuid": (0x98,), "binary": (0xA0, 0xB0), "string": (0xA1, 0xB1), "symbol": (0xA3, 0xB3)}
CODE_TABLES = {
    # item: (source file, function pattern, {variant of the item's Field enum: AMQP source type}, native command)
    "message_id": ("/repo/fe2o3-amqp-types/src/messaging/format/message_id.rs", r"^message_id::<impl at [^>]*>::visit_u8$", {"Ulong": "ulong", "Uuid": "uuid", "Binary": "binary", "String": "string"}, "msgid"),
    "annotation_key": ("/repo/fe2o3-amqp-types/src/messaging/format/annotations.rs", r"^annotations::<impl at [^>]*>::visit_u8$", {"Symbol": "symbol", "Ulong": "ulong"}, "annkey"),
}


def c03_code_tables(env):
    import engine as _engine

    out = []
    tenv = env.crate("fe2o3-amqp-types")
    senv = env.crate("serde_amqp")
    tryfrom = senv.fn(r"^format_code::<impl at [^>]*>::try_from$", sig=r"_1: u8")
    for item, (src, pat, spec, cmd) in CODE_TABLES.items():
        o = Obligation(f"c03_code_table_{item}", "C03")
        o.desc = f"{item}: the hand-written table that maps the format code on the wire to the variant accepts exactly the constructors the AMQP type system assigns to each variant (every width spelling of it) and rejects every other byte"
        fn = tenv.fn(pat)
        o.functions = [fn.name, tryfrom.name + " (inlined from serde_amqp)"]
        o.bounds = ["every byte value 0..255 as the format code"]
        o.assumes = ["the variant's payload is then decoded by the primitive deserializer (C03/C05 Kani harnesses)"]
        _, enums_item = mir.parse_layouts([src])
        _, enums_codes = mir.parse_layouts(["/repo/serde_amqp/src/format_code.rs"])
        if "Field" not in enums_item or "EncodingCodes" not in enums_codes:
            raise mir.Unsupported("Field / EncodingCodes enum not found in the source")
        fns = dict(tenv.fns)
        fns[tryfrom.name] = tryfrom
        enums = dict(tenv.enums)
        enums["Field"] = enums_item["Field"]
        enums["EncodingCodes"] = enums_codes["EncodingCodes"]
        ex = mir.Executor(fns, tenv.structs, enums, inline={r"^<u8 as (std::convert::)?TryInto<.*EncodingCodes>>::try_into$": r"^format_code::<impl at [^>]*>::try_from$"}, max_visits=3, consts=tenv.consts)
        V = z3.BitVec("format.code", 8)
        paths = ex.run(fn, {"_1": mir.Agg("visitor"), "_2": V})
        hyp = ex.assumptions
        want = {}
        for variant, ty in spec.items():
            if variant not in enums_item["Field"]:
                raise mir.Unsupported(f"variant {variant} not in {item}'s Field enum")
            for c in SPEC_CODES[ty]:
                want[c] = enums_item["Field"][variant]
        in_table = z3.Or(*[V == c for c in want])

        def replay(m, cmd=cmd, want=want):
            v = model_value(m, V)
            codes = sorted(set(list(want) + [v, 0x40, 0x00, 0x70, 0xC0]))
            cmds = [f"{cmd} {c}" for c in codes]
            return cmds, (lambda outs: any(js.get("panic") or js["variant"] != want.get(c, -1) for c, js in zip(codes, outs)))

        n = 0
        for i, p in enumerate(paths):
            if p.end != "return" or not isinstance(p.ret, mir.Agg):
                continue
            d = p.ret.get("#d")
            if d is None:
                raise mir.Unsupported("result without discriminant")
            n += 1
            okv = p.ret.get(("as", "Ok"))
            fld = okv[0].get("#d") if isinstance(okv, mir.Agg) and isinstance(okv.get(0), mir.Agg) else None
            H = hyp + p.cond
            o.prove(f"path{i}:accepted-only-if-the-code-belongs-to-a-variant", H + [d == 0], in_table, replay=replay)
            o.prove(f"path{i}:rejected-only-if-the-code-belongs-to-no-variant", H + [d != 0], z3.Not(in_table), replay=replay)
            if fld is not None:
                o.prove(f"path{i}:accepted-code-selects-its-own-variant", H + [d == 0], z3.And(*[z3.Implies(V == c, fld == idx) for c, idx in want.items()]), replay=replay)
            else:
                o.prove(f"path{i}:accepted-path-names-a-variant", H, d != 0, replay=replay)
        o.cover("an accepting path exists", [z3.BoolVal(n > 1)])
        out.append(o)
    return out


def c05_code_tables(env):
    return [x for x in c03_code_tables(env) if _retag(x, "C05", x.name.replace("c03_", "c05_"))]


REGISTRY.setdefault("C03", []).append(c03_code_tables)
REGISTRY.setdefault("C05", []).append(c05_code_tables)


# ---- C12 / C15: frames for a channel the connection has no session for ----------------------------


def _conn_dispatch(env, prop):
    out = []
    E = env.enums["ConnectionState"]
    occ = z3.Function("slot_is_live", z3.BitVecSort(64), z3.BoolSort())

    # -- begin naming a local channel (remote-channel is chosen by the peer)
    o = Obligation(f"{prop.lower()}_begin_for_unknown_channel", prop)
    o.desc = "an incoming begin whose remote-channel names a local channel: accepted (and recorded exactly once) only while the connection is OPENED and a live locally-begun session holds that channel; otherwise an error comes back (which the engine turns into close-with-error) and nothing is recorded; the peer-chosen number never indexes the session table unchecked (no panic)"
    fn = env.fn(r"^connection::<impl at fe2o3-amqp/src/connection/mod\.rs[^>]*>::on_incoming_begin_inner$")
    o.functions = [fn.name]
    o.bounds = ["one call; every ConnectionState; remote-channel absent or any 16-bit value; the named slot live or not"]
    o.assumes = ["slab::Slab::get(k) is Some exactly for live keys; Slab indexing (slab[k]) panics for a key that is not live (documented)"]
    ex = env.executor()
    C = mir.Agg("conn")
    st_a, d = enum_pre("pre.connection_state", env, "ConnectionState")
    C[env.fidx("Connection", "local_state")] = st_a
    rc = mir.Agg("remote_channel")
    rc_d = z3.BitVec("begin.remote_channel.is_some", 64)
    rc_v = z3.BitVec("begin.remote_channel", 16)
    rc["#d"] = rc_d
    some = mir.Agg("Some")
    some[0] = rc_v
    rc[("as", "Some")] = some
    B = mir.Agg("begin")
    B[env.fidx("Begin", "remote_channel")] = rc

    def key64(k):
        return z3.ZeroExt(64 - k.size(), k) if k.size() < 64 else k

    def m_get(ex_, st, callee, args, argvals, dty):
        r = mir.Agg("Option")
        r["#d"] = z3.If(occ(key64(argvals[1])), z3.BitVecVal(1, 64), z3.BitVecVal(0, 64))
        sm = mir.Agg("Some")
        sm[0] = mir.Agg("relay")
        r[("as", "Some")] = sm
        return r

    def m_contains(ex_, st, callee, args, argvals, dty):
        return occ(key64(argvals[1]))

    def m_index(ex_, st, callee, args, argvals, dty):
        st.obligations.append(("the session table is indexed with a key that is known to be live", occ(key64(argvals[1])), list(st.cond)))
        return mir.Agg("relay")

    ex.models = [
        (r"^Slab::<.*>::get(_mut)?$", m_get),
        (r"^Slab::<.*>::contains$", m_contains),
        (r"<Slab<.*> as Index(Mut)?<usize>>::index(_mut)?$", m_index),
    ]
    ch_v = z3.BitVec("frame.channel", 16)
    CH = mir.Agg("IncomingChannel")
    CH[0] = ch_v
    paths = ex.run(fn, {"_1": mir.Ref(("@self",), True), "@self": C, "_2": CH, "_3": mir.Ref(("@begin",), False), "@begin": B})
    hyp = ex.assumptions + [state_valid(env, d, "ConnectionState"), z3.ULE(rc_d, 1)]
    live = occ(z3.ZeroExt(48, rc_v))

    def replay(m):
        v = model_value(m, rc_v)
        probes = sorted({min(v, 9), 0, 3, 9})
        cmds = [f"peer_inject begin {x}" for x in probes]
        return cmds, (lambda outs: any(js.get("panic") or js["peer"] != "close_err" for js in outs))

    n = 0
    for i, p in enumerate(paths):
        if p.end != "return" or not isinstance(p.ret, mir.Agg):
            continue
        n += 1
        ok = p.ret["#d"] == 0
        inserts = count_calls(p, r"HashMap::<.*>::insert$")
        H = hyp + p.cond
        o.prove(f"path{i}:accepted-only-when-opened", H + [ok], d == E["Opened"], replay=replay)
        o.prove(f"path{i}:unknown-local-channel-is-refused", H + [rc_d == 1, z3.Not(live)], z3.Not(ok), replay=replay)
        o.prove(f"path{i}:recorded-at-most-once", H, z3.BoolVal(inserts <= 1), replay=replay)
        if inserts:
            o.prove(f"path{i}:recorded-only-for-a-live-session-while-opened", H, z3.And(ok, d == E["Opened"], rc_d == 1, live), replay=replay)
        if prop == "C11":
            # routing: the session is the one the peer's remote-channel names (our channel), and it is recorded
            # under the channel the peer's frame arrived on (the peer's channel) -- the two number spaces are independent
            def replay_shift(m):
                return ["scn shifted_channels 7", "scn shifted_channels 1"], (lambda outs: any(js.get("panic") or js["client"] != "ok" for js in outs))

            gets = [c for c in p.calls if re.search(r"^Slab::<.*>::get(_mut)?$", c[0])]
            ins = [c for c in p.calls if re.search(r"HashMap::<.*>::insert$", c[0])]
            for c in gets:
                k = c[1][1]
                o.prove(f"path{i}:the-session-is-looked-up-by-the-remote-channel-field", H + [rc_d == 1], (key64(k) == z3.ZeroExt(48, rc_v)) if z3.is_bv(k) else z3.BoolVal(False), replay=replay_shift)
            for c in ins:
                k = c[1][1]
                kv = k.get(0) if isinstance(k, mir.Agg) else k
                o.prove(f"path{i}:the-session-is-recorded-under-the-channel-the-frame-arrived-on", H, (kv == ch_v) if (kv is not None and z3.is_bv(kv) and kv.size() == 16) else z3.BoolVal(False), replay=replay_shift)
        for (dsc, okc, c) in p.obligations:
            o.prove(f"path{i}:{dsc}", hyp + c, okc, replay=replay)
    o.cover("paths", [z3.BoolVal(n > 1)])
    out.append(o)

    # -- end on a channel without a session
    o = Obligation(f"{prop.lower()}_end_for_unknown_channel", prop)
    o.desc = "an incoming end: forwarded to the session that holds the channel (and the channel unmapped) only while OPENED; an end on a channel that no session holds, or outside OPENED, comes back as an error (close-with-error in the engine) -- it is never swallowed"
    fn = env.fn(r"^connection::<impl at fe2o3-amqp/src/connection/mod\.rs[^>]*>::on_incoming_end::\{closure#0\}$")
    o.functions = [fn.name]
    o.bounds = ["coroutine body from its initial state through one poll; every ConnectionState; channel mapped or not"]
    o.assumes = ["HashMap::remove(k) is Some exactly when k is mapped"]
    ex = env.executor()
    C = mir.Agg("conn")
    st_a, d = enum_pre("pre.connection_state", env, "ConnectionState")
    C[env.fidx("Connection", "local_state")] = st_a
    mapped = z3.Bool("channel.is_mapped")

    def m_remove(ex_, st, callee, args, argvals, dty):
        r = mir.Agg("Option")
        r["#d"] = z3.If(mapped, z3.BitVecVal(1, 64), z3.BitVecVal(0, 64))
        sm = mir.Agg("Some")
        sm[0] = mir.Agg("relay")
        r[("as", "Some")] = sm
        return r

    ex.models = [(r"^HashMap::<.*>::remove::<", m_remove), (r"^HashMap::<.*>::(get|get_mut)::<", m_remove)]
    pin, cor = coroutine_start(env, "@self", {})
    paths = ex.run(fn, {"_1": pin, "@cor": cor, "@self": C})
    hyp = ex.assumptions + [state_valid(env, d, "ConnectionState")]

    def replay_end(m):
        cmds = [f"peer_inject end {x}" for x in (0, 7)] + ["peer_inject flow 2", "peer_inject attach 1"]
        return cmds, (lambda outs: any(js.get("panic") or js["peer"] != "close_err" for js in outs))

    n = 0
    for i, p in enumerate(paths):
        if p.end != "return":
            continue
        is_ready, is_ok = poll_ready_result(p.ret)
        if not z3.is_true(z3.simplify(is_ready)) or is_ok is None:
            continue
        n += 1
        sends = count_calls(p, r"mpsc::Sender::<.*>::send$")
        H = hyp + p.cond
        o.prove(f"path{i}:ok-only-when-opened-and-mapped", H + [is_ok], z3.And(d == E["Opened"], mapped), replay=replay_end)
        if sends:
            o.prove(f"path{i}:forwarded-only-when-opened-and-mapped", H, z3.And(d == E["Opened"], mapped), replay=replay_end)
    o.cover("paths", [z3.BoolVal(n > 1)])
    out.append(o)
    return out


def c12_conn_dispatch(env):
    return _conn_dispatch(env, "C12")


def c15_conn_dispatch(env):
    return _conn_dispatch(env, "C15")


def c11_conn_dispatch(env):
    o = _conn_dispatch(env, "C11")[0]
    o.name = "c11_begin_is_routed_by_remote_channel"
    o.desc = "an incoming begin that answers ours: the session it is attached to is the one whose (local) channel the remote-channel field names, and from then on frames arriving on the peer's channel (the channel of this very frame) are routed to that session -- the peer numbers its channels independently of ours"
    return [o]


REGISTRY.setdefault("C12", []).append(c12_conn_dispatch)
REGISTRY.setdefault("C15", []).append(c15_conn_dispatch)
REGISTRY.setdefault("C11", []).append(c11_conn_dispatch)


# ---- C08: the granting side publishes the credit before it wakes the waiters ---------------------


def c08_producer_order(env):
    o = Obligation("c08_grant_publishes_before_waking", "C08")
    o.desc = "the granting side (Producer::produce, run for every incoming flow): the new credit is stored in the flow state BEFORE notify_waiters() wakes the waiting sends -- the premise under which c08_lost_wakeup shows that no wake-up is lost (a waiter woken first re-reads the old credit, parks again and is never notified)"
    fn = env.fn(r"^producer::<impl at [^>]*>::produce::\{closure#0\}$")
    o.functions = [fn.name]
    o.bounds = ["coroutine body from its initial state through one poll (it has no await point); every path"]
    o.assumes = ["ProducerState::update_state is where the flow is applied (LinkFlowState::on_incoming_flow, C08's Kani harness)"]
    ex = env.executor()
    pin, cor = coroutine_start(env, "@self", {})
    paths = ex.run(fn, {"_1": pin, "@cor": cor, "@self": mir.Agg("producer")})

    def replay(m):
        cmds = ["wakeup 3 1", "wakeup 3 4", "wakeup 2 1", "wakeup 1 1"]
        return cmds, (lambda outs: any(js.get("panic") or not js["second_ready"] for js in outs))

    n = 0
    for i, p in enumerate(paths):
        if p.end != "return":
            continue
        n += 1
        names = [c[0] for c in p.calls]
        upd = [k for k, c in enumerate(names) if re.search(r"ProducerState>::update_state$", c)]
        ntf = [k for k, c in enumerate(names) if re.search(r"Notify::notify_(waiters|one)$", c)]
        o.prove(f"path{i}:the-flow-is-applied-exactly-once", ex.assumptions + p.cond, z3.BoolVal(len(upd) == 1), replay=replay)
        o.prove(f"path{i}:the-waiters-are-woken", ex.assumptions + p.cond, z3.BoolVal(len(ntf) >= 1), replay=replay)
        o.prove(f"path{i}:credit-is-published-before-the-wake-up", ex.assumptions + p.cond, z3.BoolVal(bool(upd) and bool(ntf) and max(upd) < min(ntf)), replay=replay)
    o.cover("paths", [z3.BoolVal(n > 0)])
    return [o]


REGISTRY.setdefault("C08", []).append(c08_producer_order)


# ---- C10: an aborted delivery is dropped whatever the abort frame carries ------------------------


def c10_abort(env):
    o = Obligation("c10_abort_discards_the_partial_delivery", "C10")
    o.desc = "ReceiverInner::on_incoming_transfer on a frame with aborted=true: whatever else the frame carries (delivery-tag present, absent or different -- continuation frames may omit it), the buffered partial delivery is discarded, no delivery is produced, and the frame is not appended to anything; so the next delivery starts clean. For aborted=false the frame goes to exactly one of the incomplete / resuming / complete handlers"
    fn = env.fn(r"^receiver::<impl at [^>]*>::on_incoming_transfer::\{closure#0\}$")
    o.functions = [fn.name]
    o.bounds = ["coroutine body from its initial state through one poll; aborted/more/resume symbolic, a partial delivery buffered or not, all other fields of the frame unconstrained (comparisons on them are havocked, i.e. may go either way)"]
    o.assumes = ["Option::take leaves None behind (std contract)"]
    ex = env.executor(max_visits=4)
    R = mir.Agg("receiver")
    inc = mir.Agg("incomplete_transfer")
    inc_d = z3.BitVec("pre.incomplete_transfer.is_some", 64)
    inc["#d"] = inc_d
    f_inc = env.fidx("ReceiverInner", "incomplete_transfer")
    R[f_inc] = inc
    T = mir.Agg("transfer")
    aborted, more, resume = z3.Bool("transfer.aborted"), z3.Bool("transfer.more"), z3.Bool("transfer.resume")
    T[env.fidx("Transfer", "aborted")] = aborted
    T[env.fidx("Transfer", "more")] = more
    T[env.fidx("Transfer", "resume")] = resume

    def m_take(ex_, st, callee, args, argvals, dty):
        ref = argvals[0]
        if not isinstance(ref, mir.Ref):
            raise mir.Unsupported("Option::take on something that is not a tracked place")
        cont, key = ex_.resolve(st, list(ref.path))
        old = cont.get(key)
        new = mir.Agg("None")
        new["#d"] = z3.BitVecVal(0, 64)
        cont[key] = new
        return old if old is not None else mir.Agg("taken")

    ex.models = [(r"Option::<Box<IncompleteTransfer>>::take$", m_take)]
    pin, cor = coroutine_start(env, "@self", {1: T, 2: mir.Agg("payload")})
    paths = ex.run(fn, {"_1": pin, "@cor": cor, "@self": R})
    hyp = ex.assumptions + [z3.ULE(inc_d, 1)]

    def replay(m):
        cmds = [f"xfer {sc} {k}" for sc in (2, 1) for k in (0, 5, 9)] + ["xfer 0 5", "xfer 3 6"]
        return cmds, (lambda outs: any(js.get("panic") or js["deliveries"] != 1 or not (js["last_is_delivery"] and js["last_body_ok"] and js["last_id_ok"]) or js["buffered_at_end"] for js in outs))

    handlers = r"::(on_incomplete_transfer|on_resuming_transfer|on_complete_transfer)(::<.*>)?$"
    n_abort = 0
    for i, p in enumerate(paths):
        if p.end != "return":
            continue
        rdy, is_ok = poll_ready_result(p.ret)
        H = hyp + p.cond
        nh = count_calls(p, handlers)
        recv_now = p.locals["@self"]
        post = recv_now.get(f_inc) if isinstance(recv_now, mir.Agg) else None
        post_d = post.get("#d") if isinstance(post, mir.Agg) else None
        # aborted frames (a path on which the receiver was handed to an opaque handler has no known
        # buffer state: such a path must not be an abort path at all)
        o.prove(f"path{i}:abort-goes-to-no-handler", H + [aborted], z3.BoolVal(nh == 0), replay=replay)
        o.prove(f"path{i}:abort-leaves-nothing-buffered", H + [aborted], (post_d == 0) if post_d is not None else z3.BoolVal(False), replay=replay)
        if z3.is_true(z3.simplify(rdy)) and is_ok is not None:
            inner = p.ret[("as", "Ready")][0]
            okp = inner.get(("as", "Ok"))
            dd = okp[0].get("#d") if isinstance(okp, mir.Agg) and isinstance(okp.get(0), mir.Agg) else None
            if dd is not None:
                o.prove(f"path{i}:abort-yields-no-delivery", H + [aborted, is_ok], dd == 0, replay=replay)
            o.prove(f"path{i}:abort-is-not-an-error", H + [aborted], is_ok, replay=replay)
        o.prove(f"path{i}:at-most-one-handler", H, z3.BoolVal(nh <= 1), replay=replay)
        s = z3.Solver()
        s.add(*(H + [aborted]))
        if s.check() == z3.sat:
            n_abort += 1
    o.cover("an aborting path exists", [z3.BoolVal(n_abort > 0)])
    return [o]


REGISTRY.setdefault("C10", []).append(c10_abort)


# ---- C19: the SASL client side: SCRAM server proof and the outcome code ---------------------------


def c19_scram_outcome(env):
    o = Obligation("c19_scram_client_needs_the_server_proof", "C19")
    o.desc = "SaslProfile::on_frame on a sasl-outcome: with a SCRAM profile an OK outcome is passed on as success only after validate_server_final has checked the server signature carried in additional-data and returned Ok -- an OK outcome without additional-data is an error, not a success"
    fn = env.fn(r"^sasl_profile::<impl at [^>]*>::on_frame$")
    o.functions = [fn.name]
    o.bounds = ["one call; every SaslProfile variant; every outcome code; additional-data present or absent"]
    o.assumes = ["ScramClient::validate_server_final returns Ok only for a valid server signature over the exchange (the crate's RFC-vector unit tests; HMAC/PBKDF2 are outside solver reach)"]
    if "SaslProfile" not in env.enums or "ScramSha256" not in env.enums["SaslProfile"]:
        raise mir.Unsupported("SaslProfile enum with SCRAM variants not found")
    P = env.enums["SaslProfile"]
    F = env.enums["Frame"]
    if "Outcome" not in F:
        raise mir.Unsupported("sasl Frame enum not found")
    ex = env.executor(max_visits=3)
    prof = mir.Agg("profile")
    prof_d = z3.BitVec("profile.variant", 64)
    prof["#d"] = prof_d
    frame = mir.Agg("frame")
    frame["#d"] = z3.BitVecVal(F["Outcome"], 64)
    outcome = mir.Agg("outcome")
    code = mir.Agg("code")
    code_d = z3.BitVec("outcome.code", 64)
    code["#d"] = code_d
    data = mir.Agg("additional_data")
    data_d = z3.BitVec("outcome.additional_data.is_some", 64)
    data["#d"] = data_d
    outcome[env.fidx("SaslOutcome", "code")] = code
    outcome[env.fidx("SaslOutcome", "additional_data")] = data
    v = mir.Agg("Outcome")
    v[0] = outcome
    frame[("as", "Outcome")] = v

    def m_as_ref(ex_, st, callee, args, argvals, dty):
        x = argvals[0]
        if isinstance(x, mir.Ref):
            cont, key = ex_.resolve(st, list(x.path))
            x = cont.get(key)
        r = mir.Agg("Option")
        if isinstance(x, mir.Agg):
            if "#d" not in x:
                ex_.new_discr(st, x, "Option")
            r["#d"] = x["#d"]
        sm = mir.Agg("Some")
        sm[0] = mir.Agg("ref")
        r[("as", "Some")] = sm
        return r

    ex.models = [(r"Option::<.*>::as_ref$", m_as_ref)]
    paths = ex.run(fn, {"_1": mir.Ref(("@prof",), True), "@prof": prof, "_2": frame, "_3": mir.Agg("hostname")})
    scram = [P[k] for k in ("ScramSha1", "ScramSha256", "ScramSha512")]
    is_scram = z3.Or(*[prof_d == k for k in scram])
    hyp = ex.assumptions + [z3.Or(*[prof_d == k for k in P.values()]), z3.ULE(code_d, 4), z3.ULE(data_d, 1)]

    def replay(m):
        cmds = ["scram_rogue 0", "scram_rogue 1", "scram_rogue 2"]
        return cmds, (lambda outs: any(js.get("panic") or js["client_proceeded"] for js in outs))

    n = 0
    for i, p in enumerate(paths):
        if p.end != "return" or not isinstance(p.ret, mir.Agg):
            continue
        ok = p.ret["#d"] == 0
        H = hyp + p.cond + [ok, is_scram, code_d == 0]
        s = z3.Solver()
        s.add(*H)
        if s.check() != z3.sat:
            continue
        n += 1
        vals = [c for c in p.calls if re.search(r"ScramClient::validate_server_final$", c[0])]
        o.prove(f"path{i}:success-only-with-additional-data", H, data_d == 1, replay=replay)
        o.prove(f"path{i}:success-only-after-checking-the-server-signature", H, z3.BoolVal(len(vals) == 1), replay=replay)
        if len(vals) == 1 and isinstance(vals[0][3], mir.Agg) and "#d" in vals[0][3]:
            o.prove(f"path{i}:success-only-if-the-check-passed", H, vals[0][3]["#d"] == 0, replay=replay)
    o.cover("a SCRAM success path exists", [z3.BoolVal(n > 0)])
    return [o]


REGISTRY.setdefault("C19", []).append(c19_scram_outcome)


def c19_client_outcome_code(env):
    o = Obligation("c19_client_non_ok_outcome_is_failure", "C19")
    o.desc = "the client's SASL negotiation loop (Builder::negotiate_sasl): it returns Ok -- the only way on to the AMQP header -- only from an outcome frame that SaslProfile::on_frame accepted and whose code is OK; auth / sys / sys-perm / sys-temp, an on_frame error, a transport error and end-of-stream all return an error"
    fn = env.fn(r"^connection::builder::<impl at [^>]*>::negotiate_sasl::\{closure#0\}$")
    o.functions = [fn.name]
    o.bounds = ["coroutine body from its initial state through one poll: first frame of the exchange (every later iteration re-enters the same loop head); every result of Transport::next, of on_frame and every outcome code"]
    o.assumes = ["SaslProfile::on_frame is C19's other obligation"]
    ex = env.executor(max_visits=3)
    f_code = env.fidx("SaslOutcome", "code")
    NE = env.enums.get("Negotiation")
    if not NE or "Outcome" not in NE:
        raise mir.Unsupported("Negotiation enum not found")
    seen = []

    def m_on_frame(ex_, st, callee, args, argvals, dty):
        k = len(seen)
        r = mir.Agg("on_frame.result")
        r["#d"] = z3.BitVec(f"on_frame#{k}.is_err", 64)
        neg = mir.Agg("negotiation")
        neg["#d"] = z3.BitVec(f"on_frame#{k}.negotiation", 64)
        outc = mir.Agg("outcome")
        code = mir.Agg("code")
        code["#d"] = z3.BitVec(f"on_frame#{k}.outcome.code", 64)
        outc[f_code] = code
        ov = mir.Agg("Outcome")
        ov[0] = outc
        neg[("as", "Outcome")] = ov
        okv = mir.Agg("Ok")
        okv[0] = neg
        r[("as", "Ok")] = okv
        ex_.assumptions += [z3.ULE(r["#d"], 1), z3.Or(*[neg["#d"] == v for v in NE.values()]), z3.ULE(code["#d"], 4)]
        seen.append((r["#d"], neg["#d"], code["#d"]))
        return r

    ex.models = [(r"^SaslProfile::on_frame$", m_on_frame)]
    pin, cor = coroutine_start(env, "@self", {})
    paths = ex.run(fn, {"_1": pin, "@cor": cor, "@self": mir.Agg("builder")})
    hyp = ex.assumptions

    def replay(m):
        cmds = [f"sasl_outcome {c}" for c in (0, 1, 2, 3, 4)]
        return cmds, (lambda outs: any(js.get("panic") or js["client_proceeded"] != (c == 0) for c, js in zip((0, 1, 2, 3, 4), outs)))

    n = 0
    for i, p in enumerate(paths):
        if p.end != "return":
            continue
        rdy, is_ok = poll_ready_result(p.ret)
        if not z3.is_true(z3.simplify(rdy)) or is_ok is None:
            continue
        H = hyp + p.cond + [is_ok]
        s = z3.Solver()
        s.add(*H)
        if s.check() != z3.sat:
            continue
        n += 1
        calls = [c for c in p.calls if re.search(r"^SaslProfile::on_frame$", c[0])]
        o.prove(f"path{i}:success-only-after-on_frame", H, z3.BoolVal(len(calls) >= 1), replay=replay)
        if not calls or not isinstance(calls[-1][3], mir.Agg):
            continue
        r = calls[-1][3]
        try:
            neg = r[("as", "Ok")][0]
            err_d, neg_d, code_d = r["#d"], neg["#d"], neg[("as", "Outcome")][0][f_code]["#d"]
        except (KeyError, TypeError):
            o.prove(f"path{i}:success-path-reads-the-outcome-code", H, z3.BoolVal(False), replay=replay)
            continue
        o.prove(f"path{i}:success-only-if-on_frame-accepted", H, err_d == 0, replay=replay)
        o.prove(f"path{i}:success-only-from-an-outcome-frame", H, neg_d == NE["Outcome"], replay=replay)
        o.prove(f"path{i}:success-only-with-code-ok", H, code_d == 0, replay=replay)
    o.cover("a success path exists", [z3.BoolVal(n > 0)])
    return [o]


REGISTRY.setdefault("C19", []).append(c19_client_outcome_code)


# ---- C17: which idle time-out value reaches the transport, and which one is advertised -----------


def c17_idle_timeout_plumbing(env):
    out = []

    def run_closure(pat, arg):
        cfn = env.fn(pat)
        sub = env.executor()

        def m_millis(ex_, st, callee, args, argvals, dty):
            a = mir.Agg("Duration")
            a["ms"] = argvals[0]
            return a

        sub.models = [(r"^Duration::from_millis$", m_millis)]
        ps = [p for p in sub.run(cfn, {"_1": mir.Agg("closure"), "_2": arg}) if p.end == "return"]
        if len(ps) != 1:
            raise mir.Unsupported(f"closure {pat} has {len(ps)} returning paths")
        return ps[0], sub.assumptions

    def mk_map_model(closure_pat, extra):
        def m_map(ex_, st, callee, args, argvals, dty):
            x = argvals[0]
            if not isinstance(x, mir.Agg):
                raise mir.Unsupported("Option::map on an untracked value")
            if "#d" not in x:
                ex_.new_discr(st, x, "Option")
            if not (isinstance(x.get(("as", "Some")), mir.Agg) and 0 in x[("as", "Some")]):
                sm0 = mir.Agg("Some")
                sm0[0] = z3.BitVec(f"opaque.option.payload#{ex_.ctx.n}", 32)
                ex_.ctx.n += 1
                x[("as", "Some")] = sm0
            r = mir.Agg("Option")
            r["#d"] = x["#d"]
            sm = mir.Agg("Some")
            p, assum = run_closure(closure_pat, x[("as", "Some")][0])
            extra.extend(assum)
            for (dsc, okc, c) in p.obligations:
                extra_obl.append((dsc, okc, c))
            sm[0] = p.ret
            r[("as", "Some")] = sm
            return r

        return m_map

    extra_obl = []
    # `Builder` names three different structs in the crate: take the connection builder's own layout
    bstructs, _ = mir.parse_layouts(["/repo/fe2o3-amqp/src/connection/builder.rs"])
    if "idle_time_out" not in bstructs.get("Builder", []):
        raise mir.Unsupported("connection::builder::Builder.idle_time_out not found")
    F_ITO = bstructs["Builder"].index("idle_time_out")
    T = z3.BitVec("configured.idle_time_out.ms", 32)
    has = z3.BitVec("configured.idle_time_out.is_some", 64)

    def opt_T():
        a = mir.Agg("idle_time_out")
        a["#d"] = has
        sm = mir.Agg("Some")
        sm[0] = T
        a[("as", "Some")] = sm
        return a

    def replay(m):
        cmds = ["idle 400 280", "idle 400 0"]
        return cmds, (lambda outs: any(js.get("panic") or not js["ok"] for js in outs))

    for side, pat, clos, holder in (
        ("connector", r"^connection::builder::<impl at [^>]*>::connect_amqp_with_framed::\{closure#0\}$", r"^connection::builder::<impl at [^>]*>::connect_amqp_with_framed::\{closure#0\}::\{closure#0\}$", "builder"),
    ):
        o = Obligation(f"c17_{side}_enforces_the_configured_idle_timeout", "C17")
        o.desc = f"{side}: the idle time-out handed to the transport (after which silence tears the connection down) is exactly the configured value in milliseconds -- present iff configured, not the halved value that is advertised to the peer -- so the connection is not torn down while frames keep arriving within the configured time"
        fn = env.fn(pat)
        o.functions = [fn.name, env.fn(clos).name]
        o.bounds = ["coroutine body from its initial state up to the header exchange; every 32-bit idle time-out, configured or not"]
        o.assumes = ["Transport::negotiate_amqp_header/bind_to_framed_codec arm a timer with the Duration they are given (zero = none) and Transport::poll_next resets it on every frame (tokio timers are outside solver reach)"]
        ex = env.executor(max_visits=3)
        extra = []
        ex.models = [(r"Option::<u32>::map::<Duration, ", mk_map_model(clos, extra))]
        B = mir.Agg("builder")
        B[F_ITO] = opt_T()
        pin, cor = coroutine_start(env, "@self", {0: B})
        paths = ex.run(fn, {"_1": pin, "@cor": cor, "@self": mir.Agg("unused")})
        hyp = ex.assumptions + extra + [z3.ULE(has, 1)]
        n = 0
        for i, p in enumerate(paths):
            calls = [c for c in p.calls if re.search(r"::negotiate_amqp_header$", c[0])]
            if not calls:
                continue
            n += 1
            arg = calls[0][1][3]
            if not (isinstance(arg, mir.Agg) and "#d" in arg):
                o.prove(f"path{i}:the-time-out-argument-is-derived-from-the-configuration", hyp + p.cond, z3.BoolVal(False), replay=replay)
                continue
            o.prove(f"path{i}:armed-iff-configured", hyp + p.cond, arg["#d"] == has, replay=replay)
            d = arg.get(("as", "Some"))
            ms = d[0].get("ms") if isinstance(d, mir.Agg) and isinstance(d.get(0), mir.Agg) else None
            if ms is None:
                o.prove(f"path{i}:the-time-out-is-the-configured-one", hyp + p.cond + [has == 1], z3.BoolVal(False), replay=replay)
            else:
                o.prove(f"path{i}:the-time-out-is-the-configured-one", hyp + p.cond + [has == 1], ms == z3.ZeroExt(32, T), replay=replay)
        o.cover("the header exchange is reached", [z3.BoolVal(n > 0)])
        out.append(o)

    # what is advertised: half of it
    o = Obligation("c17_advertised_idle_timeout_is_half", "C17")
    o.desc = "Open::from(Builder): the idle-time-out advertised to the peer is half the configured one (AMQP 2.4.5: advertise half the actual threshold), absent iff not configured"
    fn = env.fn(r"^connection::builder::<impl at [^>]*>::from$", sig=r"-> fe2o3_amqp_types::performatives::Open")
    clos = r"^connection::builder::<impl at [^>]*>::from::\{closure#0\}$"
    o.functions = [fn.name, env.fn(clos).name]
    o.bounds = ["every 32-bit value"]
    ex = env.executor(max_visits=3)
    extra = []

    def m_map_u32(ex_, st, callee, args, argvals, dty):
        x = argvals[0]
        r = mir.Agg("Option")
        r["#d"] = x["#d"]
        sm = mir.Agg("Some")
        p, assum = run_closure(clos, x[("as", "Some")][0])
        extra.extend(assum)
        sm[0] = p.ret
        r[("as", "Some")] = sm
        return r

    ex.models = [(r"Option::<u32>::map::<u32, ", m_map_u32)]
    B = mir.Agg("builder")
    B[F_ITO] = opt_T()
    paths = ex.run(fn, {"_1": B})
    hyp = ex.assumptions + extra + [z3.ULE(has, 1)]
    n = 0
    f_ito = env.fidx("Open", "idle_time_out")
    for i, p in enumerate(paths):
        if p.end != "return" or not isinstance(p.ret, mir.Agg):
            continue
        n += 1
        adv = p.ret.get(f_ito)
        if not (isinstance(adv, mir.Agg) and "#d" in adv):
            o.prove(f"path{i}:advertised-value-derived-from-the-configuration", hyp + p.cond, z3.BoolVal(False), replay=replay)
            continue
        o.prove(f"path{i}:advertised-iff-configured", hyp + p.cond, adv["#d"] == has, replay=replay)
        v = adv.get(("as", "Some"))
        v = v[0] if isinstance(v, mir.Agg) and 0 in v else None
        o.prove(f"path{i}:advertised-is-half", hyp + p.cond + [has == 1], (v == z3.LShR(T, 1)) if v is not None and not isinstance(v, mir.Agg) else z3.BoolVal(False), replay=replay)
    o.cover("paths", [z3.BoolVal(n > 0)])
    out.append(o)
    return out


REGISTRY.setdefault("C17", []).append(c17_idle_timeout_plumbing)


# ---- C12 / C17: what a heartbeat tick does in each connection state -------------------------------


def _heartbeat_tick(env, prop):
    o = Obligation(f"{prop.lower()}_heartbeat_tick", prop)
    o.desc = "ConnectionEngine::on_heartbeat (run at every tick of the timer armed with the peer's idle-time-out): while the connection is OPENED every tick writes exactly one empty frame and keeps the engine running -- whatever else was sent since the last tick (C17: no idle-time-out interval without a frame); once our close is on the wire (CLOSE_SENT, END) a tick writes nothing (C12: nothing after the close)"
    fn = env.fn(r"^connection::engine::<impl at [^>]*>::on_heartbeat::\{closure#0\}$")
    o.functions = [fn.name]
    o.bounds = ["coroutine body from its initial state through one poll; every connection state; the send future ready (ok / error) or pending; every other field of the engine unconstrained (a flag the tick might consult may hold any value)"]
    o.assumes = ["the timer ticks once per period (tokio::time::interval contract); Transport::send writes the frame it is given (C06)"]
    CS = env.enums["ConnectionState"]
    RUN = env.enums["Running"]
    ex = env.executor(max_visits=3)
    state_d = z3.BitVec("connection.local_state", 64)

    def state_model(ex_, st, callee, args, argvals, dty):
        stt = st.locals.setdefault("@connstate", mir.Agg("ConnectionState"))
        if "#d" not in stt:
            stt["#d"] = state_d
        return mir.Ref(("@connstate",), False)

    def empty_model(ex_, st, callee, args, argvals, dty):
        f = mir.Agg("Frame::empty")
        f["@empty"] = True
        return f

    ex.models = [(r"Connection>::local_state$", state_model), (r"amqp::Frame::empty$", empty_model)]
    pin, cor = coroutine_start(env, "@engine", {})
    paths = ex.run(fn, {"_1": pin, "@cor": cor, "@engine": mir.Agg("engine")})
    hyp = ex.assumptions + [state_valid(env, state_d, "ConnectionState")]

    def replay(m):
        if prop == "C12":
            return "hb_after_close", (lambda js: js.get("panic") or js["frames_after_close"] != 0)
        return "hb_gap", (lambda js: js.get("panic") or js["max_gap_ms"] > js["idle_ms"] + js["tolerance_ms"])

    sends = r"SinkExt<amqp::Frame>>::(send|feed|send_all)$|Sink<amqp::Frame>>::start_send$"
    n_open = 0
    for i, p in enumerate(paths):
        if p.end != "return":
            continue
        H = hyp + p.cond
        sent = [c for c in p.calls if re.search(sends, c[0])]
        if prop == "C17":
            o.prove(f"path{i}:a-tick-while-opened-writes-a-frame", H + [state_d == CS["Opened"]], z3.BoolVal(len(sent) == 1), replay=replay)
            if len(sent) == 1:
                a = sent[0][1][1] if len(sent[0][1]) > 1 else None
                o.prove(f"path{i}:the-frame-is-the-empty-frame", H + [state_d == CS["Opened"]], z3.BoolVal(isinstance(a, mir.Agg) and a.get("@empty") is True), replay=replay)
            rdy, is_ok = poll_ready_result(p.ret)
            if is_ok is not None:
                run = p.ret[("as", "Ready")][0].get(("as", "Ok"))
                rd = run[0].get("#d") if isinstance(run, mir.Agg) and isinstance(run.get(0), mir.Agg) else None
                if rd is not None:
                    o.prove(f"path{i}:a-successful-tick-keeps-the-engine-running", H + [state_d == CS["Opened"], rdy, is_ok], rd == RUN["Continue"], replay=replay)
            s = z3.Solver()
            s.add(*(H + [state_d == CS["Opened"]]))
            if s.check() == z3.sat:
                n_open += 1
        else:
            o.prove(f"path{i}:no-frame-after-our-close", H + [z3.Or(state_d == CS["CloseSent"], state_d == CS["End"])], z3.BoolVal(len(sent) == 0), replay=replay)
            s = z3.Solver()
            s.add(*(H + [z3.Or(state_d == CS["CloseSent"], state_d == CS["End"])]))
            if s.check() == z3.sat:
                n_open += 1
    o.cover("paths for the states in question", [z3.BoolVal(n_open > 0)])
    return [o]


def c12_heartbeat_tick(env):
    return _heartbeat_tick(env, "C12")


def c17_heartbeat_tick(env):
    return _heartbeat_tick(env, "C17")


REGISTRY.setdefault("C12", []).append(c12_heartbeat_tick)
REGISTRY.setdefault("C17", []).append(c17_heartbeat_tick)


# ---- C13: a peer's closing detach is answered in kind, also when it answers our non-closing detach --


def c13_detach_answered_in_kind(env):
    o = Obligation("c13_detach_answers_a_closing_detach_in_kind", "C13")
    o.desc = "LinkEndpointInnerDetach::detach_with_error (Sender::detach / Receiver::detach): whenever the peer's detach that arrives while we are detaching has closed=true -- with or without an error, whatever else it carries -- the link re-attaches and closes (reattach_and_then_close) and the caller gets an error; the peer's detach is handed to the plain on_incoming_detach only when closed=false"
    fn = env.fn(r"^shared_inner::<impl at [^>]*>::detach_with_error::\{closure#0\}$")
    o.functions = [fn.name]
    o.bounds = ["coroutine body from its initial state through one poll in which every inner future may be ready (ok / error) or pending; every link state; closed and error of the peer's detach symbolic"]
    o.assumes = ["reattach_and_then_close sends the attach and the closing detach (its own frames are C13's send_detach obligations)"]
    ex = env.executor(max_visits=2)
    ex.max_paths = 3000
    f_closed = env.fidx("Detach", "closed")
    f_error = env.fidx("Detach", "error")
    seen = []

    def m_poll(ex_, st, callee, args, argvals, dty):
        k = len(seen)
        closed = z3.Bool(f"remote_detach#{k}.closed")
        err_d = z3.BitVec(f"remote_detach#{k}.error.is_some", 64)
        pd = z3.BitVec(f"recv_remote_detach#{k}.poll", 64)
        rd = z3.BitVec(f"recv_remote_detach#{k}.is_err", 64)
        det = mir.Agg("Detach")
        det[f_closed] = closed
        e = mir.Agg("error")
        e["#d"] = err_d
        det[f_error] = e
        res = mir.Agg("Result")
        res["#d"] = rd
        okv = mir.Agg("Ok")
        okv[0] = det
        res[("as", "Ok")] = okv
        poll = mir.Agg("Poll")
        poll["#d"] = pd
        rv = mir.Agg("Ready")
        rv[0] = res
        poll[("as", "Ready")] = rv
        ex_.assumptions += [z3.ULE(pd, 1), z3.ULE(rd, 1), z3.ULE(err_d, 1)]
        seen.append((closed, err_d, pd, rd, det))
        return poll

    LS = env.enums["LinkState"]
    state_d = z3.BitVec("link.local_state", 64)

    def m_state(ex_, st, callee, args, argvals, dty):
        stt = st.locals.setdefault("@linkstate", mir.Agg("LinkState"))
        if "#d" not in stt:
            stt["#d"] = state_d
        return mir.Ref(("@linkstate",), False)

    ex.models = [(r"recv_remote_detach<.*>\(\)\} as (futures_util::|std::future::)?Future>::poll$", m_poll), (r"::local_state$", m_state)]
    pin, cor = coroutine_start(env, "@self", {})
    paths = ex.run(fn, {"_1": pin, "@cor": cor, "@self": mir.Agg("link_endpoint")})
    hyp = ex.assumptions + [state_valid(env, state_d, "LinkState")]

    def replay(m):
        cmds = ["scn detach_kind 0", "scn detach_kind 1"]
        return cmds, (lambda outs: any(js.get("panic") or not js["answered_in_kind"] or js["client"] != "detach_err" for js in outs))

    n = 0
    for i, p in enumerate(paths):
        if p.end != "return":
            continue
        polls = [c for c in p.calls if re.search(r"recv_remote_detach<.*>\(\)\} as (futures_util::|std::future::)?Future>::poll$", c[0])]
        if not polls:
            continue
        r = polls[-1][3]
        k = [j for j, sn in enumerate(seen) if r[("as", "Ready")][0][("as", "Ok")][0] is sn[4] or (isinstance(r, mir.Agg) and r.get("#d") is sn[2])]
        if not k:
            continue
        closed, err_d, pd, rd, _ = seen[k[0]]
        H = hyp + p.cond + [pd == 0, rd == 0]
        s = z3.Solver()
        s.add(*H)
        if s.check() != z3.sat:
            continue
        n += 1
        n_re = count_calls(p, r"^(\w+::)*reattach_and_then_close::<")
        n_in = count_calls(p, r"::on_incoming_detach$")
        o.prove(f"path{i}:a-closing-detach-makes-the-link-reattach-and-close", H + [closed], z3.BoolVal(n_re == 1 and n_in == 0), replay=replay)
        # (in CLOSE_SENT -- we asked to close -- the link is closed whatever the peer answers)
        o.prove(f"path{i}:a-non-closing-detach-is-completed-as-a-detach", H + [z3.Not(closed), state_d != LS["CloseSent"]], z3.BoolVal(n_re == 0 and n_in == 1), replay=replay)
        rdy, is_ok = poll_ready_result(p.ret)
        if is_ok is not None:
            o.prove(f"path{i}:a-closing-detach-is-reported-to-the-caller", H + [closed, rdy], z3.Not(is_ok), replay=replay)
    o.cover("paths on which the peer's detach arrives", [z3.BoolVal(n > 0)])
    return [o]


REGISTRY.setdefault("C13", []).append(c13_detach_answered_in_kind)


# ---- C06: switching codecs must not lose bytes that were read together with the previous item -------


CODEC_SWITCH_SITES = [
    # (obligation suffix, MIR function, what it switches)
    ("amqp_header", r"^transport::<impl at [^>]*>::negotiate_amqp_header::\{closure#0\}$", "protocol-header codec -> AMQP frame codec (client and listener)"),
    ("sasl_header", r"^transport::<impl at [^>]*>::negotiate_sasl_header::\{closure#0\}$", "protocol-header codec -> SASL frame codec (client)"),
    ("client_after_sasl", r"^connection::builder::<impl at [^>]*>::connect_with_stream::\{closure#0\}$", "SASL frame codec -> protocol-header codec (client, after the outcome)"),
    ("listener_after_sasl", r"^acceptor::connection::<impl at [^>]*>::negotiate_sasl_with_framed::\{closure#0\}$", "SASL frame codec -> protocol-header codec (listener, after the outcome)"),
]


def c06_codec_switch(env):
    out = []
    for suffix, pat, what in CODEC_SWITCH_SITES:
        o = Obligation(f"c06_codec_switch_keeps_read_bytes_{suffix}", "C06")
        o.desc = f"{what}: the reader that goes on decoding after the switch holds exactly the bytes the previous reader had already taken from the stream but not yet consumed (a peer may pipeline its next frame behind the header / outcome; one read then delivers both) -- for every number n of such bytes. tokio-util's contract: map_decoder keeps the read buffer, into_inner / a new FramedRead start with an empty one"
        try:
            fn = env.fn(pat)
        except Exception as e:  # noqa: BLE001
            raise mir.Unsupported(f"codec switch site {suffix} not found: {e}")
        o.functions = [fn.name]
        o.bounds = ["coroutine body from its initial state through one poll in which every inner future may be ready or pending; loops unrolled 2 times; n is any 64-bit value"]
        o.assumes = ["tokio_util::codec::FramedRead: map_decoder preserves the buffer, new()/with_capacity() start empty, into_inner() discards it (tokio-util documentation)"]
        ex = env.executor(max_visits=2)
        ex.max_paths = 3000
        cnt = [0]

        def buf_of(x):
            if "@buffered" not in x:
                x["@buffered"] = z3.BitVec(f"bytes_buffered_by_reader#{cnt[0]}", 64)
                cnt[0] += 1
            return x["@buffered"]

        def as_agg(ex_, st, v):
            if isinstance(v, mir.Ref):
                cont, key = ex_.resolve(st, list(v.path))
                v = cont.get(key)
                if not isinstance(v, mir.Agg):
                    v = mir.Agg("FramedRead")
                    cont[key] = v
            if not isinstance(v, mir.Agg):
                v = mir.Agg("FramedRead")
            return v

        def m_map(ex_, st, callee, args, argvals, dty):
            src = as_agg(ex_, st, argvals[0])
            r = mir.Agg("FramedRead")
            r["@buffered"] = buf_of(src)
            r["@from"] = ("consumed", buf_of(src))
            return r

        def m_into_inner(ex_, st, callee, args, argvals, dty):
            src = as_agg(ex_, st, argvals[0])
            r = mir.Agg("io")
            r["@dropped"] = buf_of(src)
            return r

        def m_new(ex_, st, callee, args, argvals, dty):
            r = mir.Agg("FramedRead")
            r["@buffered"] = z3.BitVecVal(0, 64)
            io = argvals[0] if argvals else None
            if isinstance(io, mir.Agg) and "@dropped" in io:
                r["@from"] = ("consumed", io["@dropped"])
            return r

        def m_into_framed(ex_, st, callee, args, argvals, dty):
            t = mir.Agg("(FramedWrite, FramedRead)")
            t[0] = mir.Agg("FramedWrite")
            fr = mir.Agg("FramedRead")
            buf_of(fr)
            t[1] = fr
            return t

        ex.models = [
            (r"^FramedRead::<.*>::map_decoder::<", m_map),
            (r"^FramedRead::<.*>::into_inner$", m_into_inner),
            (r"^FramedRead::<.*>::(new|with_capacity)$", m_new),
            (r"^Transport::<.*>::into_framed_codec$", m_into_framed),
        ]
        pin, cor = coroutine_start(env, "@self", {})
        init = {"_1": pin, "@cor": cor, "@self": mir.Agg("self")}
        # the reader is an argument of the async fn: a field of the coroutine in its initial state
        paths = ex.run(fn, init)
        hyp = ex.assumptions

        def replay(m, suffix=suffix):
            cmds = ["scn pipelined_open", "scn pipelined_sasl"]
            return cmds, (lambda outs: any(js.get("panic") or js["client"] != "opened" for js in outs))

        sinks = r"bind_to_framed_codec$|::connect_amqp_with_framed::<|::negotiate_amqp_with_framed::<"
        n = 0
        for i, p in enumerate(paths):
            for c in p.calls:
                if not re.search(sinks, c[0]):
                    continue
                n += 1
                frs = [a for a in c[1] if isinstance(a, mir.Agg) and a.label == "FramedRead"]
                H = hyp + list(c[2])
                if len(frs) != 1 or "@from" not in frs[0]:
                    o.prove(f"path{i}:the-reader-handed-on-is-derived-from-the-previous-reader", H, z3.BoolVal(False), replay=replay)
                    continue
                o.prove(f"path{i}:no-buffered-byte-is-lost-at-the-switch", H, frs[0]["@buffered"] == frs[0]["@from"][1], replay=replay)
        o.cover("paths that reach the switch", [z3.BoolVal(n > 0)])
        out.append(o)
    return out


REGISTRY.setdefault("C06", []).append(c06_codec_switch)


# ---- C19: the server signature is compared in full (no prefix of it is accepted) -------------------


def c19_scram_signature_full_length(env):
    o = Obligation("c19_scram_server_signature_is_compared_in_full", "C19")
    o.desc = "ScramVersion::validate_server_final: it returns Ok only if the verifier the server sent has the same length as the signature the client computed (under the std contract that slice/Vec equality implies equal lengths) -- an empty or truncated `v=` is never accepted as proof that the server knows the password"
    fn = env.fn(r"^auth::scram::<impl at [^>]*>::validate_server_final$")
    o.functions = [fn.name]
    o.bounds = ["one call; every result of utf-8 / split / base64 decoding; lengths of both byte strings any 64-bit value"]
    o.assumes = ["<Vec<u8> as PartialEq<[u8]>>::eq(a, b) implies a.len() == b.len() (std); len() reports the length; iterator adaptors (zip, fold, ...) are unconstrained: they promise nothing about lengths"]
    ex = env.executor(max_visits=3)
    la, lb = z3.BitVec("len(verifier sent by the server)", 64), z3.BitVec("len(signature computed by the client)", 64)
    expected = mir.Agg("server_signature")
    expected["@len"] = lb

    def deref(ex_, st, v, depth=0):
        while isinstance(v, mir.Ref) and depth < 4:
            cont, key = ex_.resolve(st, list(v.path))
            v = cont.get(key)
            depth += 1
        return v

    def m_decode(ex_, st, callee, args, argvals, dty):
        r = mir.Agg("Result")
        r["#d"] = z3.BitVec("base64.decode.is_err", 64)
        ex_.assumptions.append(z3.ULE(r["#d"], 1))
        okv = mir.Agg("Ok")
        vec = mir.Agg("decoded_verifier")
        vec["@len"] = la
        okv[0] = vec
        r[("as", "Ok")] = okv
        return r

    def m_len(ex_, st, callee, args, argvals, dty):
        x = deref(ex_, st, argvals[0])
        if isinstance(x, mir.Agg) and "@len" in x:
            return x["@len"]
        return None

    def m_eq(ex_, st, callee, args, argvals, dty):
        a, b = deref(ex_, st, argvals[0]), deref(ex_, st, argvals[1])
        e = z3.Bool(f"eq#{ex_.ctx.n}")
        ex_.ctx.n += 1
        if isinstance(a, mir.Agg) and isinstance(b, mir.Agg) and "@len" in a and "@len" in b:
            ex_.assumptions.append(z3.Implies(e, a["@len"] == b["@len"]))
        return e

    def m_ne(ex_, st, callee, args, argvals, dty):
        return z3.Not(m_eq(ex_, st, callee, args, argvals, dty))

    def m_deref(ex_, st, callee, args, argvals, dty):
        # Vec<u8> -> &[u8]: the same bytes
        x = deref(ex_, st, argvals[0])
        return x if isinstance(x, mir.Agg) and "@len" in x else None

    ex.models = [
        (r"Engine>::decode::<", m_decode),
        (r"^(Vec::<u8>|core::slice::<impl \[u8\]>)::len$", m_len),
        (r"as PartialEq<.*>>::eq$", m_eq),
        (r"as PartialEq<.*>>::ne$", m_ne),
        (r"^<Vec<u8> as (std::ops::)?Deref>::deref$|^Vec::<u8>::as_slice$|as AsRef<\[u8\]>>::as_ref$", m_deref),
    ]
    paths = ex.run(fn, {"_1": mir.Ref(("@self",), False), "@self": mir.Agg("version"), "_2": mir.Agg("server_final"), "_3": expected})
    hyp = ex.assumptions

    def replay(m):
        cmds = ["scram_rogue 3", "scram_rogue 4"]
        return cmds, (lambda outs: any(js.get("panic") or js["client_proceeded"] for js in outs))

    n = 0
    for i, p in enumerate(paths):
        if p.end != "return" or not isinstance(p.ret, mir.Agg) or "#d" not in p.ret:
            continue
        H = hyp + p.cond + [p.ret["#d"] == 0]
        s = z3.Solver()
        s.add(*H)
        if s.check() != z3.sat:
            continue
        n += 1
        o.prove(f"path{i}:accepted-only-if-the-lengths-are-equal", H, la == lb, replay=replay)
    o.cover("an accepting path exists", [z3.BoolVal(n > 0)])
    return [o]


REGISTRY.setdefault("C19", []).append(c19_scram_signature_full_length)


# ---- C15: waiting for the peer's close ends when the transport reports an error or ends ------------


def c15_wait_for_remote_close(env):
    o = Obligation("c15_wait_for_close_ends_on_transport_error", "C15")
    o.desc = "ConnectionEngine::wait_for_remote_close (the loop the engine sits in after it sent its own close, incl. DISCARDING): when the transport yields an error (decode error, io error, the local idle time-out -- which stays elapsed) or the end of the stream, the wait ends with that error in the same step; it is never retried (a retry on a sticky error is a busy loop that never yields and never reports)"
    fn = env.fn(r"^connection::engine::<impl at [^>]*>::wait_for_remote_close::\{closure#0\}$")
    o.functions = [fn.name]
    m = re.search(r"switchInt\(move _\d+\) -> \[(.*)\]", fn.blocks["bb0"][1])
    states = [int(x.split(":")[0]) for x in m.group(1).split(", ") if x.split(":")[0].isdigit()] if m else [0]
    states = [k for k in states if k not in (1, 2)]
    o.bounds = [f"coroutine body from every resume state {states} through one poll; loop unrolled 3 times; every connection state; every frame"]
    o.assumes = ["futures StreamExt::next: Ready(None) = end of stream, Ready(Some(Err)) = transport error"]
    pat_poll = r"^<(futures_util::stream::)?Next<.*> as (futures_util::|std::future::)?Future>::poll$"

    def replay(m):
        return "scn silent_after_error_close", (lambda js: js.get("panic") or js["client"] == "still_running")

    n = 0
    for k0 in states:
        ex = env.executor(max_visits=3)
        ex.max_paths = 2000
        seen = []

        def m_poll(ex_, st, callee, args, argvals, dty, seen=seen):
            k = len(seen)
            pd = z3.BitVec(f"next#{k}.poll", 64)
            od = z3.BitVec(f"next#{k}.option", 64)
            rd = z3.BitVec(f"next#{k}.result", 64)
            res = mir.Agg("Result")
            res["#d"] = rd
            opt = mir.Agg("Option")
            opt["#d"] = od
            sm = mir.Agg("Some")
            sm[0] = res
            opt[("as", "Some")] = sm
            poll = mir.Agg("Poll")
            poll["#d"] = pd
            rv = mir.Agg("Ready")
            rv[0] = opt
            poll[("as", "Ready")] = rv
            ex_.assumptions += [z3.ULE(pd, 1), z3.ULE(od, 1), z3.ULE(rd, 1)]
            seen.append((pd, od, rd))
            return poll

        ex.models = [(pat_poll, m_poll)]
        cor = mir.Agg("coroutine")
        cor["#d"] = z3.BitVecVal(k0, 64)
        cor[0] = mir.Ref(("@engine",), True)
        pin = mir.Agg("pin")
        pin[0] = mir.Ref(("@cor",), True)
        paths = ex.run(fn, {"_1": pin, "@cor": cor, "@engine": mir.Agg("engine")})
        hyp = ex.assumptions
        for i, p in enumerate(paths):
            polls = [c for c in p.calls if re.search(pat_poll, c[0])]
            if not polls:
                continue
            # the first poll of this step
            r0 = polls[0][3]
            j = [t for t, sn in enumerate(seen) if r0.get("#d") is sn[0]]
            if not j:
                continue
            pd, od, rd = seen[j[0]]
            bad = z3.And(pd == 0, z3.Or(od == 0, z3.And(od == 1, rd == 1)))
            H = hyp + p.cond + [bad]
            s = z3.Solver()
            s.add(*H)
            if s.check() != z3.sat:
                continue
            n += 1
            o.prove(f"state{k0}.path{i}:the-wait-is-not-retried-after-an-error", H, z3.BoolVal(len(polls) == 1 and p.end == "return"), replay=replay)
            if p.end == "return" and isinstance(p.ret, mir.Agg):
                rdy, is_ok = poll_ready_result(p.ret)
                o.prove(f"state{k0}.path{i}:the-error-ends-the-wait", H, z3.And(rdy, z3.Not(is_ok)) if is_ok is not None else z3.BoolVal(False), replay=replay)
    o.cover("paths on which the transport fails", [z3.BoolVal(n > 0)])
    return [o]


REGISTRY.setdefault("C15", []).append(c15_wait_for_remote_close)


# ---- C08: the sender's answer to a flow (echo / drain) is passed on unchanged -----------------------


def c08_flow_reply_is_sent(env):
    o = Obligation("c08_flow_reply_is_passed_on", "C08")
    o.desc = "LinkRelay::on_incoming_flow, sender side: the flow the link's flow state produces in answer to an incoming flow (C08's Kani harness: present when the peer asked for an echo or for a drain, showing zero credit after a drain) is handed to the session for sending exactly when it was produced -- no answer is dropped and none is invented"
    fn = env.fn(r"^link::<impl at [^>]*>::on_incoming_flow::\{closure#0\}$", sig=r"LinkRelay<endpoint::OutputHandle>|LinkRelay<OutputHandle>")
    o.functions = [fn.name]
    o.bounds = ["coroutine body from its initial state through one poll, the Sender variant of the relay; every incoming flow; the produced answer present or absent"]
    o.assumes = ["Producer::produce applies the flow and returns LinkFlowState::on_incoming_flow's answer (c08_grant_publishes_before_waking, c08_sender_on_incoming_flow)"]
    R = env.enums["LinkRelay"]
    ex = env.executor(max_visits=3)
    relay = mir.Agg("relay")
    relay["#d"] = z3.BitVecVal(R["Sender"], 64)
    reply_d = z3.BitVec("produced_answer.is_some", 64)
    pat = r"produce::<.*>\(\)\} as (futures_util::|std::future::)?Future>::poll$|async fn body of .*produce.* as (futures_util::|std::future::)?Future>::poll$"

    def m_poll(ex_, st, callee, args, argvals, dty):
        opt = mir.Agg("Option<LinkFlow>")
        opt["#d"] = reply_d
        sm = mir.Agg("Some")
        sm[0] = mir.Agg("answer")
        sm[0]["@answer"] = True
        opt[("as", "Some")] = sm
        poll = mir.Agg("Poll")
        poll["#d"] = z3.BitVec(f"produce.poll#{ex_.ctx.n}", 64)
        ex_.ctx.n += 1
        ex_.assumptions.append(z3.ULE(poll["#d"], 1))
        rv = mir.Agg("Ready")
        rv[0] = opt
        poll[("as", "Ready")] = rv
        return poll

    ex.models = [(pat, m_poll)]
    cor = mir.Agg("coroutine")
    cor["#d"] = z3.BitVecVal(0, 64)
    cor[0] = mir.Ref(("@relay",), True)
    cor[1] = mir.Agg("flow")
    pin = mir.Agg("pin")
    pin[0] = mir.Ref(("@cor",), True)
    paths = ex.run(fn, {"_1": pin, "@cor": cor, "@relay": relay})
    hyp = ex.assumptions + [z3.ULE(reply_d, 1)]

    def replay(m):
        cmds = ["scn drain_reply 0", "scn drain_reply 1"]
        return cmds, (lambda outs: any(js.get("panic") or not js["answered_with_zero_credit"] for js in outs))

    n = 0
    for i, p in enumerate(paths):
        if p.end != "return" or not isinstance(p.ret, mir.Agg):
            continue
        if not [c for c in p.calls if re.search(pat, c[0])]:
            continue
        rdy, is_ok = poll_ready_result(p.ret)
        if is_ok is None:
            continue
        H = hyp + p.cond + [rdy]
        s = z3.Solver()
        s.add(*H)
        if s.check() != z3.sat:
            continue
        n += 1
        okv = p.ret[("as", "Ready")][0].get(("as", "Ok"))
        out_d = okv[0].get("#d") if isinstance(okv, mir.Agg) and isinstance(okv.get(0), mir.Agg) else None
        o.prove(f"path{i}:handling-a-flow-does-not-fail", H, is_ok, replay=replay)
        o.prove(f"path{i}:the-answer-is-sent-exactly-when-one-was-produced", H + [is_ok], (out_d == reply_d) if out_d is not None else z3.BoolVal(False), replay=replay)
    o.cover("paths through the sender arm", [z3.BoolVal(n > 0)])
    return [o]


REGISTRY.setdefault("C08", []).append(c08_flow_reply_is_sent)


# ---- C09: a complete delivery consumes its credit before anything can fail --------------------------


def c09_credit_before_decode(env):
    o = Obligation("c09_every_complete_delivery_consumes_credit", "C09")
    o.desc = "ReceiverLink::on_complete_transfer: the credit for a delivery is taken (LinkFlowState::consume(1), which also advances the mirrored delivery-count and rejects an overrun) before the payload is decoded -- a delivery whose body does not decode as the requested type still counts against the credit issued and the delivery-count reported"
    fn = env.fn(r"^receiver_link::<impl at [^>]*>::on_complete_transfer$")
    o.functions = [fn.name]
    o.bounds = ["one call; every link state; every transfer; decoding succeeds or fails"]
    o.assumes = ["LinkFlowState<Receiver>::consume is C09's Kani harness"]
    ex = env.executor(max_visits=3)
    ex.max_paths = 3000
    paths = ex.run(fn, {"_1": mir.Ref(("@link",), True), "@link": mir.Agg("link"), "_2": mir.Agg("transfer"), "_3": mir.Agg("payload")})
    hyp = ex.assumptions

    def replay(m):
        return ["scn undecodable_delivery 0", "scn undecodable_delivery 1"], (lambda outs: any(js.get("panic") or js["flow_delivery_count"] != 2 or js["third_accepted"] for js in outs))

    n = 0
    for i, p in enumerate(paths):
        if p.end != "return":
            continue
        names = [c[0] for c in p.calls]
        cons = [k for k, c in enumerate(names) if re.search(r"LinkFlowState::<.*>::consume$", c)]
        dec = [k for k, c in enumerate(names) if re.search(r"DecodeIntoMessage>::decode_message_from_reader", c)]
        H = hyp + p.cond
        if dec:
            n += 1
            o.prove(f"path{i}:credit-is-taken-before-the-payload-is-decoded", H, z3.BoolVal(len(cons) == 1 and cons[0] < dec[0]), replay=replay)
        if isinstance(p.ret, mir.Agg) and "#d" in p.ret:
            o.prove(f"path{i}:a-delivery-is-produced-only-after-taking-one-credit", H + [p.ret["#d"] == 0], z3.BoolVal(len(cons) == 1), replay=replay)
    o.cover("paths that decode a payload", [z3.BoolVal(n > 0)])
    return [o]


REGISTRY.setdefault("C09", []).append(c09_credit_before_decode)


# ---- C03 / C20: the "next primitive is really a <restricted type>" mode is consumed by that primitive


NNT_SITES = [
    # (obligation, property, crate, function, struct, which modes the function consumes, what is at stake)
    ("c03_ser_bytes_consumes_the_type_mode", "C03", r"^ser::<impl at [^>]*>::serialize_bytes$", "ser::Serializer", ("Dec32", "Dec64", "Dec128", "Uuid"), True),
    ("c03_ser_str_consumes_the_type_mode", "C03", r"^ser::<impl at [^>]*>::serialize_str$", "ser::Serializer", ("Symbol", "SymbolRef"), True),
    ("c03_ser_i64_consumes_the_type_mode", "C03", r"^ser::<impl at [^>]*>::serialize_i64$", "ser::Serializer", ("Timestamp",), True),
    ("c20_value_ser_bytes_consumes_the_type_mode", "C20", r"^value::ser::<impl at [^>]*>::serialize_bytes$", "value::ser::Serializer", ("Dec32", "Dec64", "Dec128", "Uuid"), False),
    ("c20_value_ser_str_consumes_the_type_mode", "C20", r"^value::ser::<impl at [^>]*>::serialize_str$", "value::ser::Serializer", ("Symbol", "SymbolRef"), False),
    ("c20_value_ser_i64_consumes_the_type_mode", "C20", r"^value::ser::<impl at [^>]*>::serialize_i64$", "value::ser::Serializer", ("Timestamp",), False),
]


def _nnt_obligations(env, prop):
    out = []
    senv = env.crate("serde_amqp")
    NN = senv.enums["NonNativeType"]
    for name, pr, pat, struct, modes, has_array in NNT_SITES:
        if pr != prop:
            continue
        o = Obligation(name, prop)
        o.desc = "a restricted type (uuid, decimal, timestamp, symbol) is serialized as `mode := its type; serialize the underlying primitive`: the primitive serializer must clear the mode when it used it, otherwise the NEXT primitive written through the same serializer (the value of a map entry whose key was that type) is encoded as that type as well -- decode(encode(x)) != x, and the byte encoder and the value-tree encoder disagree"
        fn = senv.fn(pat)
        o.functions = [fn.name + " (serde_amqp)"]
        o.bounds = ["one call; every mode the function accepts; every string / byte length; outside arrays (array elements keep the mode for the whole array)"]
        o.assumes = ["the writer only writes (opaque; it cannot touch the mode)"]
        ex = mir.Executor(senv.fns, senv.structs, senv.enums, max_visits=3, consts=senv.consts)
        S = mir.Agg("serializer")
        f_nnt = senv.fidx(struct, "non_native_type")
        opt = mir.Agg("non_native_type")
        opt["#d"] = z3.BitVecVal(1, 64)
        inner = mir.Agg("NonNativeType")
        nn_d = z3.BitVec("mode", 64)
        inner["#d"] = nn_d
        sm = mir.Agg("Some")
        sm[0] = inner
        opt[("as", "Some")] = sm
        S[f_nnt] = opt
        arr_d = None
        if has_array:
            f_arr = senv.fidx(struct, "is_array_elem")
            arr = mir.Agg("is_array_elem")
            arr_d = z3.BitVec("is_array_elem", 64)
            arr["#d"] = arr_d
            S[f_arr] = arr
        paths = ex.run(fn, {"_1": mir.Ref(("@ser",), True), "@ser": S, "_2": mir.Agg("value")})
        hyp = ex.assumptions + [z3.Or(*[nn_d == NN[m] for m in modes])]
        if arr_d is not None:
            hyp = hyp + [arr_d == senv.enums["IsArrayElement"]["False"]]

        def replay(m, prop=prop):
            cmds = ["nnt_map uuid", "nnt_map dec32", "nnt_map symbol", "nnt_map timestamp"] if prop == "C03" else ["nnt_value symbol", "nnt_value uuid", "nnt_value timestamp"]
            return cmds, (lambda outs: any(js.get("panic") or not js["agree"] for js in outs))

        n = 0
        for i, p in enumerate(paths):
            if p.end != "return" or not isinstance(p.ret, mir.Agg) or "#d" not in p.ret:
                continue
            H = hyp + p.cond + [p.ret["#d"] == 0]
            s = z3.Solver()
            s.add(*H)
            if s.check() != z3.sat:
                continue
            n += 1
            cur = p.locals["@ser"].get(f_nnt) if isinstance(p.locals.get("@ser"), mir.Agg) else None
            post_d = cur.get("#d") if isinstance(cur, mir.Agg) else None
            o.prove(f"path{i}:the-mode-is-cleared-once-used", H, (post_d == 0) if post_d is not None else z3.BoolVal(False), replay=replay)
        o.cover("a path that uses the mode", [z3.BoolVal(n > 0)])
        out.append(o)
    return out


def c03_nnt(env):
    return _nnt_obligations(env, "C03")


def c20_nnt(env):
    return _nnt_obligations(env, "C20")


REGISTRY.setdefault("C03", []).append(c03_nnt)
REGISTRY.setdefault("C20", []).append(c20_nnt)


# ======================================================================================
# C14: every handle learns why it stopped -- the engines publish the stop reason, with the peer's
# error, before anything that wakes the waiters (channel closure / the outcome oneshot / engine drop)
# ======================================================================================


def _coroutine_states(fn):
    m = re.search(r"switchInt\(move _\d+\) -> \[(.*)\]", fn.blocks["bb0"][1])
    if not m:
        raise mir.Unsupported("coroutine dispatch not found in bb0")
    return [int(x.split(":")[0]) for x in m.group(1).split(", ") if x.split(":")[0].isdigit() and int(x.split(":")[0]) not in (1, 2)]


def _run_from_state(env, fn, k, models=None, max_visits=1, stop=r"^std::future::poll_fn::<"):
    ex = env.executor(max_visits=_mv(max_visits, max_visits + 1))
    ex.max_paths = 4000
    ex.stop_calls = stop
    if models:
        ex.models = models
    cor = mir.Agg("coroutine")
    cor["#d"] = z3.BitVecVal(k, 64)
    pin = mir.Agg("pin")
    pin[0] = mir.Ref(("@cor",), True)
    paths = ex.run(fn, {"_1": pin, "@cor": cor})
    return ex, paths


def _end_state(p):
    c = p.locals.get("@cor")
    d = c.get("#d") if isinstance(c, mir.Agg) else None
    d = z3.simplify(d) if d is not None else None
    return d.as_long() if d is not None and z3.is_bv_value(d) else None


class _Batch:
    """one query per (resume state, goal) instead of one per path: the conjunction of `path condition => goal`"""

    def __init__(self, o, replay):
        self.o, self.replay, self.items = o, replay, {}

    def add(self, k, goal_name, hyps, goal):
        self.items.setdefault((k, goal_name), []).append(z3.Implies(z3.And(*hyps) if hyps else z3.BoolVal(True), goal))

    def flush(self):
        for (k, g), imps in self.items.items():
            self.o.prove(f"state{k}:{g} ({len(imps)} paths)", [], z3.And(*imps), replay=self.replay)


def c14_connection_stop_reason(env):
    o = Obligation("c14_connection_engine_publishes_the_stop_reason", "C14")
    o.desc = "ConnectionEngine::event_loop, every way the task can finish: the stop reason is stored (set_connection_stop_reason) exactly once, BEFORE the control / session-frame channels are closed and before the outcome is sent to the ConnectionHandle (so every session that wakes on the closure can read it), and it says what the handle is told: RemoteClosedWithError when the result is Err(RemoteClosedWithError) -- carrying the peer's error --, RemoteClosed for Err(RemoteClosed), Closed otherwise"
    fn = env.fn(r"^connection::engine::<impl at [^>]*>::event_loop::\{closure#0\}$")
    o.functions = [fn.name]
    states = _coroutine_states(fn)
    o.bounds = [f"coroutine body from every resume state {states} through one poll, up to the start of the next loop iteration; inner loops cut after one visit (their continuations are the resume states); every result of every await"]
    o.assumes = ["tokio mpsc Receiver::close / oneshot send wake the other side (tokio contract); OnceLock::set stores the first value"]
    SR = env.enums["ConnectionStopReason"]
    CE = env.enums["connection::error::Error"]

    def replay(m):
        cmds = ["scn stop_reason close_err", "scn stop_reason close"]
        return cmds, (lambda outs: any(js.get("panic") or not js["as_expected"] for js in outs))

    n = 0
    B = _Batch(o, replay)
    for k in states:
        ex, paths = _run_from_state(env, fn, k)
        for i, p in enumerate(paths):
            if p.end != "return" or _end_state(p) != 1:
                continue
            n += 1
            names = [c[0] for c in p.calls]
            sets = [j for j, c in enumerate(names) if re.search(r"Connection>::set_connection_stop_reason$", c)]
            closes = [j for j, c in enumerate(names) if re.search(r"mpsc::(bounded::)?Receiver::<.*>::close$", c)]
            sends = [j for j, c in enumerate(names) if re.search(r"oneshot::Sender::<.*>::send$", c)]
            H = ex.assumptions + p.cond
            B.add(k, "the-reason-is-stored-exactly-once", H, z3.BoolVal(len(sets) == 1))
            B.add(k, "before-the-channels-close-and-the-outcome-is-sent", H, z3.BoolVal(bool(sets) and all(sets[0] < j for j in closes + sends) and len(closes) >= 2 and len(sends) == 1))
            if len(sets) == 1 and len(sends) == 1:
                reason = p.calls[sets[0]][1][1]
                result = p.calls[sends[0]][1][1]
                try:
                    rd = reason["#d"]
                    res_d = result["#d"]
                    errv = result.get(("as", "Err"))
                    err_d = errv[0]["#d"] if isinstance(errv, mir.Agg) and isinstance(errv.get(0), mir.Agg) and "#d" in errv[0] else None
                except (KeyError, TypeError):
                    B.add(k, "the-reason-is-derived-from-the-result", H, z3.BoolVal(False))
                    continue
                if err_d is None:
                    # the error payload was never inspected on this path: the reason must be the default
                    B.add(k, "reason-matches-result", H + [res_d == 0], rd == SR["Closed"])
                    B.add(k, "an-error-result-is-inspected", H, res_d == 0)
                else:
                    want = z3.If(z3.And(res_d == 1, err_d == CE["RemoteClosedWithError"]), z3.BitVecVal(SR["RemoteClosedWithError"], 64), z3.If(z3.And(res_d == 1, err_d == CE["RemoteClosed"]), z3.BitVecVal(SR["RemoteClosed"], 64), z3.BitVecVal(SR["Closed"], 64)))
                    B.add(k, "reason-matches-result", H, rd == want)
    B.flush()
    o.cover("paths on which the engine task finishes", [z3.BoolVal(n > 0)])
    return [o]


def c14_session_stop_reason(env):
    o = Obligation("c14_session_engine_publishes_the_stop_reason", "C14")
    o.desc = "SessionEngine::event_loop, every way the task can finish: set_session_stop_reason has run before the task completes (completion drops the engine, i.e. the link relays and channels whose closure wakes the links) and before the outcome is sent to the SessionHandle -- also across the suspension at deallocate_session --, and the reason says why: ConnectionStopped(reason) / RemoteEndedWithError(peer's error) / RemoteEnded / Ended according to the loop's outcome"
    fn = env.fn(r"^session::engine::<impl at [^>]*>::event_loop::\{closure#0\}$")
    o.functions = [fn.name]
    states = _coroutine_states(fn)
    o.bounds = [f"coroutine body from every resume state {states} through one poll, up to the start of the next loop iteration; inner loops cut after one visit; suspension states reachable without the reason stored are followed to a fixed point"]
    o.assumes = ["dropping the engine / oneshot send wake the other side (tokio contract)"]
    SR = env.enums["SessionStopReason"]
    SIE = env.enums["SessionInnerError"]

    def m_from(ex_, st, callee, args, argvals, dty):
        r = mir.Agg("SessionStopReason::ConnectionStopped")
        r["#d"] = z3.BitVecVal(SR["ConnectionStopped"], 64)
        return r

    def replay(m):
        cmds = ["scn stop_reason end_err", "scn stop_reason close_err"]
        return cmds, (lambda outs: any(js.get("panic") or not js["as_expected"] for js in outs))

    per_state = {}
    exs = {}
    for k in states:
        ex, paths = _run_from_state(env, fn, k, models=[(r"^<(link::error::)?SessionStopReason as From<(connection::)?ConnectionStopReason>>::from$", m_from)])
        per_state[k] = paths
        exs[k] = ex
    # states reachable with the reason NOT yet stored
    not_yet = {0}
    changed = True
    while changed:
        changed = False
        for k in list(not_yet):
            for p in per_state.get(k, []):
                if p.end != "return":
                    continue
                if any(re.search(r"Session>::set_session_stop_reason$", c[0]) for c in p.calls):
                    continue
                e = _end_state(p)
                if e is not None and e not in (1, 2) and e not in not_yet and e in per_state:
                    not_yet.add(e)
                    changed = True
    n = 0
    B = _Batch(o, replay)
    outcome_place = fn.debug.get("outcome") if isinstance(fn.debug, dict) else None
    for k in states:
        ex = exs[k]
        for i, p in enumerate(per_state[k]):
            if p.end != "return":
                continue
            names = [c[0] for c in p.calls]
            sets = [j for j, c in enumerate(names) if re.search(r"Session>::set_session_stop_reason$", c)]
            sends = [j for j, c in enumerate(names) if re.search(r"oneshot::Sender::<.*>::send$", c)]
            H = ex.assumptions + p.cond
            done = _end_state(p) == 1
            if done:
                n += 1
                B.add(k, "the-task-does-not-finish-without-the-reason", H, z3.BoolVal(bool(sets) or k not in not_yet))
            if sends:
                B.add(k, "the-outcome-is-sent-after-the-reason", H, z3.BoolVal((bool(sets) and sets[0] < sends[0]) or (not sets and k not in not_yet)))
            B.add(k, "the-reason-is-stored-at-most-once-per-step", H, z3.BoolVal(len(sets) <= 1))
            if len(sets) == 1:
                reason = p.calls[sets[0]][1][1]
                rd = reason.get("#d") if isinstance(reason, mir.Agg) else None
                if rd is None or outcome_place is None:
                    B.add(k, "the-reason-is-derived-from-the-outcome", H, z3.BoolVal(False))
                    continue
                try:
                    oc = ex.read_place(p, outcome_place)
                except Exception:  # noqa: BLE001
                    oc = None
                if not isinstance(oc, mir.Agg) or "#d" not in oc:
                    B.add(k, "the-reason-is-derived-from-the-outcome", H, z3.BoolVal(False))
                    continue
                out_d = oc["#d"]
                errv = oc.get(("as", "Err"))
                err_d = errv[0]["#d"] if isinstance(errv, mir.Agg) and isinstance(errv.get(0), mir.Agg) and "#d" in errv[0] else None
                if err_d is None:
                    B.add(k, "reason-matches-outcome", H + [out_d == 0], rd == SR["Ended"])
                    B.add(k, "an-error-outcome-is-inspected", H, out_d == 0)
                else:
                    want = z3.BitVecVal(SR["Ended"], 64)
                    for ev, rv in (("RemoteEnded", "RemoteEnded"), ("RemoteEndedWithError", "RemoteEndedWithError"), ("ConnectionStopped", "ConnectionStopped")):
                        want = z3.If(z3.And(out_d == 1, err_d == SIE[ev]), z3.BitVecVal(SR[rv], 64), want)
                    B.add(k, "reason-matches-outcome", H, rd == want)
    B.flush()
    o.cover("paths on which the engine task finishes", [z3.BoolVal(n > 0)])
    return [o]


REGISTRY.setdefault("C14", []).append(c14_connection_stop_reason)
REGISTRY.setdefault("C14", []).append(c14_session_stop_reason)


# ======================================================================================
# C18: work for a transaction is withheld from the plain session; work for an unknown id is refused
# ======================================================================================


def _txn_state_agg(env, tag):
    """Option<DeliveryState> of a transfer / disposition with symbolic discriminants"""
    DS = env.enums["DeliveryState"]
    st = mir.Agg("state")
    opt_d = z3.BitVec(f"{tag}.state.is_some", 64)
    st["#d"] = opt_d
    inner = mir.Agg("DeliveryState")
    ds_d = z3.BitVec(f"{tag}.state.variant", 64)
    inner["#d"] = ds_d
    sm = mir.Agg("Some")
    sm[0] = inner
    st[("as", "Some")] = sm
    return st, opt_d, ds_d, DS


def c18_txn_session(env):
    out = []
    known = z3.Bool("txn_id.is_live")

    def m_get(ex_, st, callee, args, argvals, dty):
        r = mir.Agg("Option<&mut ResourceTransaction>")
        r["#d"] = z3.If(known, z3.BitVecVal(1, 64), z3.BitVecVal(0, 64))
        sm = mir.Agg("Some")
        sm[0] = mir.Agg("txn")
        r[("as", "Some")] = sm
        return r

    def m_map(ex_, st, callee, args, argvals, dty):
        x = argvals[0]
        r = mir.Agg("Option")
        r["#d"] = x["#d"] if isinstance(x, mir.Agg) and "#d" in x else z3.BitVec(f"map#{ex_.ctx.n}", 64)
        sm = mir.Agg("Some")
        t = mir.Agg("(txn, txn_id)")
        t[0] = mir.Agg("txn")
        t[1] = mir.Agg("txn_id")
        sm[0] = t
        r[("as", "Some")] = sm
        return r

    models = [(r"OrderedMap::<.*ResourceTransaction>::get(_mut)?::<", m_get), (r"IndexMap::<.*ResourceTransaction.*>::get(_mut)?::<", m_get), (r"Option::<&mut ResourceTransaction>::map::<", m_map)]

    def replay(m):
        return "scn txn_late_post", (lambda js: js.get("panic") or js["late_delivered"] or js["late_accepted"] or not js["commit_delivered_in_order"] or js["delivered_before_commit"] or js["rolled_back_delivered"])

    # -- posts
    o = Obligation("c18_posts_are_withheld_or_refused", "C18")
    o.desc = "TxnSession::on_incoming_transfer: a transfer that carries a transactional state is never handed to the plain session (i.e. to the receiving application) -- it is buffered under its transaction (ResourceTransaction::on_incoming_post) when the id names a live transaction, and refused with an error when it does not (never declared, already committed / rolled back / aborted); only transfers without a transactional state go to the plain session"
    fn = env.fn(r"^transaction::session::<impl at [^>]*>::on_incoming_transfer::\{closure#0\}$")
    o.functions = [fn.name]
    o.bounds = ["coroutine body from its initial state through one poll; every delivery-state variant (or none); the id live or not; the plain session's future ready or pending"]
    o.assumes = ["OrderedMap::get_mut(id) is Some exactly for the ids of live transactions (TransactionManager::txns holds exactly the declared, undischarged ones: C18's coordinator obligations are outside)"]
    ex = env.executor(max_visits=3)
    ex.models = models
    T = mir.Agg("transfer")
    stt, opt_d, ds_d, DS = _txn_state_agg(env, "transfer")
    T[env.fidx("Transfer", "state")] = stt
    pin, cor = coroutine_start(env, "@self", {1: T, 2: mir.Agg("payload")})
    paths = ex.run(fn, {"_1": pin, "@cor": cor, "@self": mir.Agg("txn_session")})
    hyp = ex.assumptions + [z3.ULE(opt_d, 1), state_valid(env, ds_d, "DeliveryState")]
    is_txn = z3.And(opt_d == 1, ds_d == DS["TransactionalState"])
    n = 0
    for i, p in enumerate(paths):
        if p.end != "return":
            continue
        n += 1
        H = hyp + p.cond
        plain = count_calls(p, r"Session>::on_incoming_transfer$")
        posts = count_calls(p, r"ResourceTransaction::on_incoming_post$")
        o.prove(f"path{i}:transactional-work-never-reaches-the-plain-session", H + [is_txn], z3.BoolVal(plain == 0), replay=replay)
        o.prove(f"path{i}:work-for-an-unknown-id-is-not-buffered", H + [is_txn, z3.Not(known)], z3.BoolVal(posts == 0), replay=replay)
        o.prove(f"path{i}:work-for-a-live-id-is-buffered-once", H + [is_txn, known], z3.BoolVal(posts == 1), replay=replay)
        o.prove(f"path{i}:plain-work-goes-to-the-plain-session", H + [z3.Not(is_txn)], z3.BoolVal(plain == 1 and posts == 0), replay=replay)
        rdy, is_ok = poll_ready_result(p.ret)
        if is_ok is not None:
            o.prove(f"path{i}:work-for-an-unknown-id-is-refused", H + [is_txn, z3.Not(known), rdy], z3.Not(is_ok), replay=replay)
    o.cover("paths", [z3.BoolVal(n > 2)])
    out.append(o)

    # -- retirements
    o = Obligation("c18_retirements_are_withheld_or_refused", "C18")
    o.desc = "TxnSession::on_incoming_disposition: a disposition that carries a transactional state is buffered under its live transaction or refused for an unknown id; it is never applied through the plain session before the discharge"
    fn = env.fn(r"^transaction::session::<impl at [^>]*>::on_incoming_disposition$")
    o.functions = [fn.name]
    o.bounds = ["one call; every delivery-state variant (or none); the id live or not"]
    o.assumes = ["as for posts"]
    ex = env.executor(max_visits=3)
    ex.models = models
    D = mir.Agg("disposition")
    stt, opt_d, ds_d, DS = _txn_state_agg(env, "disposition")
    D[env.fidx("fe2o3_amqp_types::performatives::Disposition", "state")] = stt
    paths = ex.run(fn, {"_1": mir.Ref(("@self",), True), "@self": mir.Agg("txn_session"), "_2": D})
    hyp = ex.assumptions + [z3.ULE(opt_d, 1), state_valid(env, ds_d, "DeliveryState")]
    is_txn = z3.And(opt_d == 1, ds_d == DS["TransactionalState"])
    n = 0
    for i, p in enumerate(paths):
        if p.end != "return" or not isinstance(p.ret, mir.Agg):
            continue
        n += 1
        H = hyp + p.cond
        plain = count_calls(p, r"Session>::on_incoming_disposition$")
        pushes = count_calls(p, r"Vec::<TxnWorkFrame>::push$")
        o.prove(f"path{i}:transactional-retirement-never-reaches-the-plain-session", H + [is_txn], z3.BoolVal(plain == 0), replay=replay)
        o.prove(f"path{i}:retirement-for-a-live-id-is-buffered-once", H + [is_txn, known], z3.BoolVal(pushes == 1), replay=replay)
        o.prove(f"path{i}:retirement-for-an-unknown-id-is-refused", H + [is_txn, z3.Not(known)], z3.And(z3.BoolVal(pushes == 0), p.ret["#d"] != 0) if "#d" in p.ret else z3.BoolVal(False), replay=replay)
        o.prove(f"path{i}:plain-retirement-goes-to-the-plain-session", H + [z3.Not(is_txn)], z3.BoolVal(plain == 1 and pushes == 0), replay=replay)
    o.cover("paths", [z3.BoolVal(n > 2)])
    out.append(o)
    return out


REGISTRY.setdefault("C18", []).append(c18_txn_session)


# ======================================================================================
# C02: the settling echo covers every delivery the receiver reported an outcome for
# ======================================================================================


def c02_settling_echo_covers_all(env):
    o = Obligation("c02_settling_echo_covers_every_reported_delivery", "C02")
    o.desc = "Session::on_incoming_disposition, non-settled disposition from a receiver that settles second: the delivery-ids whose links ask for a settling echo are cut into runs of consecutive ids and one settling disposition is emitted per run; the runs emitted are exactly a partition of the whole list -- the first starts at the beginning, each starts where the previous ended, the last ends at the end of the list -- so no reported delivery is left without its settling disposition (the receiver would keep it unsettled for ever)"
    fn = env.fn(r"^session::<impl at fe2o3-amqp/src/session/mod\.rs[^>]*>::on_incoming_disposition$")
    o.functions = [fn.name]
    o.bounds = ["one call; the id list grows by at most 3 pushes (loop unrolled 3 times), at most 3 chunk boundaries; which ids ask for an echo is arbitrary"]
    o.assumes = ["consecutive_chunk_indices returns strictly increasing interior indices (1..len-1) -- its closure is a two-line window test; Vec/slice indexing contracts of std"]
    ex = env.executor(max_visits=_mv(4, 4))
    ex.max_paths = 20000
    n64 = lambda v: z3.BitVecVal(v, 64)  # noqa: E731

    def tgt(ex_, st, v):
        k = 0
        while isinstance(v, mir.Ref) and k < 4:
            cont, key = ex_.resolve(st, list(v.path))
            v = cont.get(key)
            k += 1
        return v

    def new_slice(st, ln, tag):
        name = f"@slice{len([x for x in st.locals if str(x).startswith('@slice')])}"
        a = mir.Agg(tag)
        a["#len"] = ln
        st.locals[name] = a
        return mir.Ref((name,), False)

    def m_new(ex_, st, callee, args, argvals, dty):
        a = mir.Agg("ids")
        a["@len"] = n64(0)
        return a

    def m_push(ex_, st, callee, args, argvals, dty):
        v = tgt(ex_, st, argvals[0])
        if isinstance(v, mir.Agg) and "@len" in v:
            v["@len"] = v["@len"] + 1
        return mir.Agg("()")

    def m_full(ex_, st, callee, args, argvals, dty):
        v = tgt(ex_, st, argvals[0])
        ln = v["@len"] if isinstance(v, mir.Agg) and "@len" in v else ex_.ctx.fresh("usize", "len")
        return new_slice(st, ln, "all ids")

    def m_chunks(ex_, st, callee, args, argvals, dty):
        s_ = tgt(ex_, st, argvals[0])
        a = mir.Agg("chunk_inds")
        a["@n"] = s_["#len"] if isinstance(s_, mir.Agg) and "#len" in s_ else ex_.ctx.fresh("usize", "len")
        a["@prev"] = n64(0)
        return a

    def m_into_iter(ex_, st, callee, args, argvals, dty):
        return argvals[0]

    def m_next(ex_, st, callee, args, argvals, dty):
        it = tgt(ex_, st, argvals[0])
        r = mir.Agg("Option<usize>")
        d = z3.BitVec(f"chunk.has_next#{ex_.ctx.n}", 64)
        ind = z3.BitVec(f"chunk.index#{ex_.ctx.n}", 64)
        ex_.ctx.n += 1
        r["#d"] = d
        sm = mir.Agg("Some")
        sm[0] = ind
        r[("as", "Some")] = sm
        ex_.assumptions.append(z3.ULE(d, 1))
        if isinstance(it, mir.Agg) and "@n" in it:
            ex_.assumptions.append(z3.Implies(d == 1, z3.And(z3.ULT(it["@prev"], ind), z3.ULT(ind, it["@n"]))))
            it["@prev"] = z3.If(d == 1, ind, it["@prev"])
        return r

    def m_index_range(ex_, st, callee, args, argvals, dty):
        rng = argvals[1]
        s0, e0 = rng.get(0), rng.get(1)
        return new_slice(st, e0 - s0, "run")

    def m_deref(ex_, st, callee, args, argvals, dty):
        v = tgt(ex_, st, argvals[0])
        ln = v["@len"] if isinstance(v, mir.Agg) and "@len" in v else ex_.ctx.fresh("usize", "len")
        return new_slice(st, ln, "all ids")

    def m_get_from(ex_, st, callee, args, argvals, dty):
        s_ = tgt(ex_, st, argvals[0])
        start = argvals[1].get(0)
        ln = s_["#len"]
        r = mir.Agg("Option<&[u32]>")
        r["#d"] = z3.If(z3.ULE(start, ln), n64(1), n64(0))
        sm = mir.Agg("Some")
        ref = new_slice(st, ln - start, "tail")
        sm[0] = ref
        r[("as", "Some")] = sm
        r["@tail_from"] = start
        r["@tail_len"] = ln - start
        return r

    def m_filter(ex_, st, callee, args, argvals, dty):
        x = argvals[0]
        r = mir.Agg("Option<&[u32]>")
        r["#d"] = z3.If(z3.And(x["#d"] == 1, x["@tail_len"] != 0), n64(1), n64(0))
        r[("as", "Some")] = x[("as", "Some")]
        r["@tail_from"] = x["@tail_from"]
        return r

    ex.models = [
        (r"^Vec::<u32>::new$", m_new),
        (r"^Vec::<u32>::push$", m_push),
        (r"^<Vec<u32> as Index<(std::ops::)?RangeFull>>::index$", m_full),
        (r"^session::consecutive_chunk_indices$", m_chunks),
        (r"^<Vec<usize> as IntoIterator>::into_iter$", m_into_iter),
        (r"^<std::vec::IntoIter<usize> as Iterator>::next$", m_next),
        (r"^<Vec<u32> as Index<(std::ops::)?Range<usize>>>::index$", m_index_range),
        (r"^<Vec<u32> as Deref>::deref$", m_deref),
        (r"^core::slice::<impl \[u32\]>::get::<(std::ops::)?RangeFrom<usize>>$", m_get_from),
        (r"^(std::option::)?Option::<&\[u32\]>::filter::<", m_filter),
    ]
    D = mir.Agg("disposition")
    settled = z3.Bool("disposition.settled")
    D[env.fidx("fe2o3_amqp_types::performatives::Disposition", "settled")] = settled
    stt, opt_d, ds_d, DS = _txn_state_agg(env, "disposition")
    D[env.fidx("fe2o3_amqp_types::performatives::Disposition", "state")] = stt
    paths = ex.run(fn, {"_1": mir.Ref(("@self",), True), "@self": mir.Agg("session"), "_2": D})
    hyp = ex.assumptions + [z3.ULE(opt_d, 1), state_valid(env, ds_d, "DeliveryState")]

    def replay_progress(m):
        return "scn settle_second_progress", (lambda js: js.get("panic") or js["resolved"] != js["n"] or not js["all_settled_by_sender"])

    def replay(m):
        cmds = ["scn settle_second 1", "scn settle_second 3"]
        return cmds, (lambda outs: any(js.get("panic") or not js["all_settled_by_sender"] or js["accepted"] != js["n"] for js in outs))

    n = 0
    B1, B2 = _Batch(o, replay), _Batch(o, replay_progress)
    for i, p in enumerate(paths):
        if p.end != "return":
            continue
        ch = [c for c in p.calls if re.search(r"^session::consecutive_chunk_indices$", c[0])]
        if not ch:
            continue
        n += 1
        H = hyp + p.cond
        total = ch[0][3]["@n"]
        runs = []
        for c in p.calls:
            if re.search(r"^<Vec<u32> as Index<(std::ops::)?Range<usize>>>::index$", c[0]):
                runs.append((c[1][1].get(0), c[1][1].get(1), None))
            elif re.search(r"^(std::option::)?Option::<&\[u32\]>::filter::<", c[0]) and isinstance(c[3], mir.Agg):
                runs.append((c[3]["@tail_from"], total, c[3]["#d"] == 1))
        pushes = count_calls(p, r"^Vec::<(fe2o3_amqp_types::performatives::)?Disposition>::push$")
        # coverage: walk the runs in order
        covered = n64(0)
        ok = z3.BoolVal(True)
        emitted = n64(0)
        for (s0, e0, present) in runs:
            here = z3.BoolVal(True) if present is None else present
            ok = z3.And(ok, z3.Implies(here, s0 == covered))
            covered = z3.If(here, e0, covered)
            emitted = emitted + z3.If(here, n64(1), n64(0))
        B1.add(0, "the-runs-partition-the-list", H, z3.And(ok, covered == total))
        B1.add(0, "one-settling-disposition-per-run", H, emitted == n64(pushes))
        # a non-settled disposition that only reports progress (`received`) must leave the delivery routable:
        # the terminal outcome for the same delivery-id is still to come
        removes = count_calls(p, r"^HashMap::<\((fe2o3_amqp_types::definitions::)?Role, u32\), .*>::remove::<")
        B2.add(0, "a-progress-report-does-not-forget-the-delivery", H + [opt_d == 1, ds_d == DS["Received"]], z3.BoolVal(removes == 0))
        for (dsc, okc, c) in p.obligations:
            B1.add(0, dsc, hyp + c, okc)
    B1.flush()
    B2.flush()
    o.cover("paths through the echo branch", [z3.BoolVal(n > 0)])
    return [o]


REGISTRY.setdefault("C02", []).append(c02_settling_echo_covers_all)


def c02_receiver_runs_share_a_settle_mode(env):
    o = Obligation("c02_batched_dispositions_do_not_mix_settle_modes", "C02")
    o.desc = "receiver_link::consecutive_chunk_indices (Receiver::accept_all / reject_all / ...: one disposition per run, its `settled` flag taken from the run's first delivery): two neighbouring deliveries stay in one run only if their ids are consecutive AND their rcv-settle-mode (a transfer may override the link's) is the same -- otherwise a delivery that is to be settled second would be settled by the receiver on its own (or one to be settled first would be left unsettled)"
    fn = env.fn(r"^receiver_link::consecutive_chunk_indices::\{closure#0\}$")
    o.functions = [fn.name]
    o.bounds = ["one call of the window test; every index; both comparisons may go either way"]
    o.assumes = ["windows(2) hands the test every neighbouring pair; Option<ReceiverSettleMode> equality is structural (derive)"]
    ex = env.executor(max_visits=3)
    consecutive, same_mode = z3.Bool("ids_are_consecutive"), z3.Bool("settle_modes_are_equal")
    called = []

    def m_cons(ex_, st, callee, args, argvals, dty):
        called.append("cons")
        return consecutive

    def m_eq(ex_, st, callee, args, argvals, dty):
        called.append("eq")
        return same_mode

    ex.models = [(r"(^|::)is_consecutive$", m_cons), (r"^<(std::option::)?Option<.*ReceiverSettleMode> as PartialEq>::(eq|ne)$", m_eq)]
    idx = z3.BitVec("window.index", 64)
    arg = mir.Agg("(usize, &[DeliveryInfo])")
    arg[0] = idx
    sl = mir.Agg("window")
    sl["#len"] = z3.BitVecVal(2, 64)
    arg[1] = mir.Ref(("@window",), False)
    paths = ex.run(fn, {"_1": mir.Ref(("@closure",), True), "@closure": mir.Agg("closure"), "_2": arg, "@window": sl})
    hyp = ex.assumptions

    def replay(m):
        return "scn mixed_settle_modes", (lambda js: js.get("panic") or not js["second_mode_delivery_left_unsettled"])

    n = 0
    for i, p in enumerate(paths):
        if p.end != "return" or not isinstance(p.ret, mir.Agg) or "#d" not in p.ret:
            continue
        n += 1
        H = hyp + p.cond
        o.prove(f"path{i}:one-run-only-if-consecutive-and-same-mode", H + [p.ret["#d"] == 0], z3.And(consecutive, same_mode), replay=replay)
        o.prove(f"path{i}:otherwise-a-new-run-starts-at-the-second-delivery", H + [z3.Not(z3.And(consecutive, same_mode))], p.ret["#d"] == 1, replay=replay)
        sm = p.ret.get(("as", "Some"))
        if isinstance(sm, mir.Agg) and 0 in sm and z3.is_bv(sm[0]):
            o.prove(f"path{i}:the-boundary-is-the-second-delivery", H + [p.ret["#d"] == 1], sm[0] == idx + 1, replay=replay)
    o.cover("paths", [z3.BoolVal(n > 1)])
    return [o]


REGISTRY.setdefault("C02", []).append(c02_receiver_runs_share_a_settle_mode)


# ======================================================================================
# C16: a recv future that is dropped while pending must not own a delivery
# ======================================================================================


def _short_callee(c):
    m = re.search(r"async fn body of (.*)\(\)\}", c)
    if m:
        c = m.group(1)
    for _ in range(4):
        c = re.sub(r"<[^<>]*>", "", c)
    return c[-60:]


def c16_recv_holds_nothing_across_await(env):
    out = []
    sites = [
        ("on_complete_transfer", r"^receiver::<impl at [^>]*>::on_complete_transfer::\{closure#0\}$", "the final frame of a delivery (decoded into the Delivery that recv returns)"),
        ("on_resuming_transfer", r"^receiver::<impl at [^>]*>::on_resuming_transfer::\{closure#0\}$", "the final frame of a resumed delivery"),
    ]
    for short, pat, what in sites:
        o = Obligation(f"c16_recv_{short}_does_not_suspend_holding_the_delivery", "C16")
        o.collect_all = True
        o.desc = f"ReceiverInner::{short}: it is entered owning {what}, taken out of the link's incoming channel; the Delivery it builds lives only in this future until it is returned. If the future suspends (an inner await is pending) and the application drops the recv future -- select!, timeout -- the delivery is gone although the link has counted it: so on no path may this function suspend (Poll::Pending) -- unless it first put what it holds back into the receiver's own state"
        fn = env.fn(pat)
        o.functions = [fn.name]
        states = _coroutine_states(fn)
        o.bounds = [f"coroutine body from every resume state {states} through one poll; every inner future ready or pending; every value of auto_accept, of the frame and of the receiver's state"]
        o.assumes = ["dropping a future drops its locals (Rust semantics); tokio mpsc Sender::send is pending when the channel is full"]

        def replay(m):
            return "scn cancel_recv_auto_accept", (lambda js: js.get("panic") or js["lost"] > 0)

        n = 0
        seen_q = set()
        for k in states:
            ex, paths = _run_from_state(env, fn, k, max_visits=2, stop=None)
            for i, p in enumerate(paths):
                if p.end != "return" or not isinstance(p.ret, mir.Agg) or "#d" not in p.ret:
                    continue
                n += 1
                polls = [c for c in p.calls if re.search(r"Future>::poll$", c[0])]
                H = ex.assumptions + p.cond + [p.ret["#d"] == 1]
                s = z3.Solver()
                s.add(*H)
                if s.check() != z3.sat:
                    continue
                awaited = _short_callee(polls[-1][0]) if polls else "?"
                if re.search(r"ReceiverInner::(on_complete_transfer|on_resuming_transfer)$", awaited):
                    # the frame was moved into that future: its own obligation speaks for it
                    continue
                # what was written back into the receiver before suspending? (nothing is, today)
                qn = f"suspends-while-holding-the-delivery:awaiting {awaited}"
                if (k, qn) in seen_q:
                    continue
                seen_q.add((k, qn))
                o.prove(f"state{k}:{qn}", H, z3.BoolVal(False), replay=replay)
        o.cover("paths", [z3.BoolVal(n > 0)])
        out.append(o)
    return out


REGISTRY.setdefault("C16", []).append(c16_recv_holds_nothing_across_await)


# ---- C17: the heartbeat timer is armed with (at most) the peer's idle-time-out ---------------------


def c17_heartbeat_period(env):
    o = Obligation("c17_heartbeat_period_is_the_peers_idle_timeout", "C17")
    o.desc = "ConnectionEngine::open_inner, on the peer's open: when the peer advertises a non-zero idle-time-out T the heartbeat timer is armed (HeartBeat::new) exactly once with a period that is non-zero and not longer than T milliseconds; when it advertises none (or 0) no timer is armed (a zero period would panic in tokio::time::interval)"
    fn = env.fn(r"^connection::engine::<impl at [^>]*>::open_inner::\{closure#0\}$")
    o.functions = [fn.name]
    states = _coroutine_states(fn)
    o.bounds = [f"coroutine body from every resume state {states} through one poll; the frame read from the transport is an open with every 32-bit idle-time-out (present or absent); every other await ready or pending"]
    o.assumes = ["Duration::from_millis(x) is x milliseconds; each tick of the timer runs on_heartbeat (c17_heartbeat_tick)"]
    FB = env.enums["FrameBody"]
    f_body = env.fidx("Frame", "body")
    f_ito = env.fidx("Open", "idle_time_out")
    pat_poll = r"^<(futures_util::stream::)?Next<.*> as (futures_util::|std::future::)?Future>::poll$"

    def replay(m):
        return "hb_gap", (lambda js: js.get("panic") or js["max_gap_ms"] > js["idle_ms"] + js["tolerance_ms"])

    n = 0
    for k0 in states:
        ex = env.executor(max_visits=2)
        ex.max_paths = 3000
        has = z3.BitVec("peer.idle_time_out.is_some", 64)
        T = z3.BitVec("peer.idle_time_out", 32)
        pd, od, rd = z3.BitVec("next.poll", 64), z3.BitVec("next.option", 64), z3.BitVec("next.result", 64)
        polled = []

        def m_poll(ex_, st, callee, args, argvals, dty):
            polled.append(1)
            ito = mir.Agg("idle_time_out")
            ito["#d"] = has
            sm = mir.Agg("Some")
            sm[0] = T
            ito[("as", "Some")] = sm
            op = mir.Agg("Open")
            op[f_ito] = ito
            body = mir.Agg("FrameBody")
            body["#d"] = z3.BitVecVal(FB["Open"], 64)
            v = mir.Agg("Open")
            v[0] = op
            body[("as", "Open")] = v
            frame = mir.Agg("Frame")
            frame[f_body] = body
            res = mir.Agg("Result")
            res["#d"] = rd
            okv = mir.Agg("Ok")
            okv[0] = frame
            res[("as", "Ok")] = okv
            opt = mir.Agg("Option")
            opt["#d"] = od
            s2 = mir.Agg("Some")
            s2[0] = res
            opt[("as", "Some")] = s2
            poll = mir.Agg("Poll")
            poll["#d"] = pd
            rv = mir.Agg("Ready")
            rv[0] = opt
            poll[("as", "Ready")] = rv
            return poll

        def m_millis(ex_, st, callee, args, argvals, dty):
            d = mir.Agg("Duration")
            d["@ms"] = argvals[0]
            return d

        ex.models = [(pat_poll, m_poll), (r"^(std::time::)?Duration::from_millis$", m_millis)]
        cor = mir.Agg("coroutine")
        cor["#d"] = z3.BitVecVal(k0, 64)
        cor[0] = mir.Ref(("@engine",), True)
        pin = mir.Agg("pin")
        pin[0] = mir.Ref(("@cor",), True)
        paths = ex.run(fn, {"_1": pin, "@cor": cor, "@engine": mir.Agg("engine")})
        hyp = ex.assumptions + [z3.ULE(has, 1), z3.ULE(pd, 1), z3.ULE(od, 1), z3.ULE(rd, 1)]
        for i, p in enumerate(paths):
            if p.end != "return" or not isinstance(p.ret, mir.Agg):
                continue
            if not [c for c in p.calls if re.search(pat_poll, c[0])]:
                continue
            rdy, is_ok = poll_ready_result(p.ret)
            if is_ok is None:
                continue
            H = hyp + p.cond + [pd == 0, od == 1, rd == 0, rdy, is_ok]
            s = z3.Solver()
            s.add(*H)
            if s.check() != z3.sat:
                continue
            n += 1
            news = [c for c in p.calls if re.search(r"(^|::)HeartBeat::new$", c[0])]
            armed = z3.And(has == 1, T != 0)
            o.prove(f"state{k0}.path{i}:armed-exactly-when-the-peer-advertises-a-timeout", H, z3.BoolVal(len(news) == 1) == armed if len(news) <= 1 else z3.BoolVal(False), replay=replay)
            for c in news:
                d = c[1][0] if c[1] else None
                ms = d.get("@ms") if isinstance(d, mir.Agg) else None
                if ms is None or not z3.is_bv(ms):
                    o.prove(f"state{k0}.path{i}:the-period-comes-from-the-peers-open", H, z3.BoolVal(False), replay=replay)
                    continue
                Tz = z3.ZeroExt(ms.size() - 32, T) if ms.size() > 32 else T
                o.prove(f"state{k0}.path{i}:the-period-is-non-zero-and-not-longer-than-the-peers-timeout", H, z3.And(ms != 0, z3.ULE(ms, Tz)), replay=replay)
    o.cover("paths on which the peer's open is handled", [z3.BoolVal(n > 0)])
    return [o]


REGISTRY.setdefault("C17", []).append(c17_heartbeat_period)


# ---- C18: every post under a live transaction is buffered, settled or not ---------------------------


def c18_post_is_buffered(env):
    o = Obligation("c18_every_post_is_buffered_for_the_commit", "C18")
    o.desc = "ResourceTransaction::on_incoming_post: the posted transfer is appended to the transaction's work list exactly once on every path -- whether the controller sent it settled (no presumptive-outcome reply is due) or unsettled (a reply is due) -- so that a commit replays all posts, in posting order"
    fn = env.fn(r"^(transaction::)?manager::<impl at [^>]*>::on_incoming_post$")
    o.functions = [fn.name]
    o.bounds = ["one call; settled absent / false / true; delivery-id present or absent"]
    o.assumes = ["Vec::push appends (std); commit replays the list in order (outside)"]
    ex = env.executor(max_visits=3)
    T = mir.Agg("transfer")
    st_ = mir.Agg("settled")
    sd = z3.BitVec("transfer.settled.is_some", 64)
    sv = z3.Bool("transfer.settled")
    st_["#d"] = sd
    sm = mir.Agg("Some")
    sm[0] = sv
    st_[("as", "Some")] = sm
    T[env.fidx("Transfer", "settled")] = st_
    paths = ex.run(fn, {"_1": mir.Ref(("@txn",), True), "@txn": mir.Agg("txn"), "_2": mir.Agg("txn_id"), "_3": T, "_4": mir.Agg("payload")})
    hyp = ex.assumptions + [z3.ULE(sd, 1)]

    def replay(m):
        return "scn txn_settled_posts", (lambda js: js.get("panic") or js["delivered"] != ["m1", "m2", "m3", "m4"] or js["visible_before_commit"])

    n = 0
    for i, p in enumerate(paths):
        if p.end != "return":
            continue
        n += 1
        pushes = count_calls(p, r"^Vec::<(transaction::manager::)?TxnWorkFrame>::push$")
        o.prove(f"path{i}:the-post-is-buffered-exactly-once", hyp + p.cond, z3.BoolVal(pushes == 1), replay=replay)
        if isinstance(p.ret, mir.Agg) and "#d" in p.ret:
            o.prove(f"path{i}:no-reply-for-a-settled-post", hyp + p.cond + [sd == 1, sv], p.ret["#d"] == 0, replay=replay)
    o.cover("paths", [z3.BoolVal(n > 1)])
    return [o]


REGISTRY.setdefault("C18", []).append(c18_post_is_buffered)


# ---- C12: in DISCARDING every frame but the peer's close is dropped, wherever on_incoming is called from


def c12_discarding_drops_frames(env):
    o = Obligation("c12_discarding_ignores_everything_but_the_close", "C12")
    o.desc = "ConnectionEngine::on_incoming (reached from the event loop AND from the wait for the peer's close): while the connection is DISCARDING (we closed with an error) a frame that is not a close is dropped -- not dispatched to the connection or a session, no error, the engine keeps waiting"
    fn = env.fn(r"^connection::engine::<impl at [^>]*>::on_incoming::\{closure#0\}$")
    o.functions = [fn.name]
    o.bounds = ["coroutine body from its initial state through one poll; every frame body but close; state DISCARDING"]
    o.assumes = ["Connection::local_state reports the state (C12's transition obligations)"]
    FB = env.enums["FrameBody"]
    CS = env.enums["ConnectionState"]
    RUN = env.enums["Running"]
    ex = env.executor(max_visits=3)
    frame = mir.Agg("frame")
    body = mir.Agg("body")
    bd = z3.BitVec("frame.body", 64)
    body["#d"] = bd
    frame[env.fidx("Frame", "body")] = body
    state_d = z3.BitVec("connection.local_state", 64)

    def state_model(ex_, st, callee, args, argvals, dty):
        stt = st.locals.setdefault("@connstate", mir.Agg("ConnectionState"))
        if "#d" not in stt:
            stt["#d"] = state_d
        return mir.Ref(("@connstate",), False)

    ex.models = [(r"Connection>::local_state$", state_model)]
    pin, cor = coroutine_start(env, "@engine", {1: frame})
    paths = ex.run(fn, {"_1": pin, "@cor": cor, "@engine": mir.Agg("engine")})
    hyp = ex.assumptions + [state_valid(env, state_d, "ConnectionState"), z3.Or(*[bd == v for v in FB.values()]), state_d == CS["Discarding"], bd != FB["Close"]]

    def replay(m):
        return "scn discarding_ignores", (lambda js: js.get("panic") or not js["waited_for_peer_close"] or js["handle"] != "not_found")

    dispatch = r"Connection>::on_incoming_(open|begin|end|close)$|::forward_to_session::|Connection>::session_tx_by_incoming_channel$|mpsc::(bounded::)?Sender::<.*>::send$"
    n = 0
    for i, p in enumerate(paths):
        if p.end != "return":
            continue
        H = hyp + p.cond
        s = z3.Solver()
        s.add(*H)
        if s.check() != z3.sat:
            continue
        n += 1
        o.prove(f"path{i}:nothing-is-dispatched", H, z3.BoolVal(count_calls(p, dispatch) == 0), replay=replay)
        rdy, is_ok = poll_ready_result(p.ret)
        if is_ok is not None:
            o.prove(f"path{i}:dropped-without-an-error-in-the-same-step", H, z3.And(rdy, is_ok), replay=replay)
            run = p.ret[("as", "Ready")][0].get(("as", "Ok"))
            rd = run[0].get("#d") if isinstance(run, mir.Agg) and isinstance(run.get(0), mir.Agg) else None
            if rd is not None:
                o.prove(f"path{i}:the-engine-keeps-waiting", H + [rdy, is_ok], rd == RUN["Continue"], replay=replay)
    o.cover("paths in DISCARDING", [z3.BoolVal(n > 0)])
    return [o]


REGISTRY.setdefault("C12", []).append(c12_discarding_drops_frames)


# ---- C13: a peer's detach taken by recv is answered before recv returns -----------------------------


def c13_recv_answers_detach(env):
    o = Obligation("c13_recv_answers_the_peers_detach", "C13")
    o.desc = "ReceiverInner::recv_inner on a detach frame from the peer: the answering detach (closed as the peer's) is sent before the operation returns -- also when the peer's detach carries an error (which the caller then gets)"
    fn = env.fn(r"^receiver::<impl at [^>]*>::recv_inner::\{closure#0\}$")
    o.functions = [fn.name]
    states = _coroutine_states(fn)
    o.bounds = [f"coroutine body from every resume state {states} through one poll; the frame taken from the link's channel is a detach with closed / error symbolic; the send ready or pending"]
    o.assumes = ["Link::send_detach writes the detach (C13's send_detach obligation)"]
    LF = env.enums["LinkFrame"]
    pat_poll = r"mpsc::(bounded::)?Receiver<.*LinkFrame>::recv\(\)\} as (futures_util::|std::future::)?Future>::poll$"

    def replay(m):
        cmds = ["scn peer_detaches_receiver 1", "scn peer_detaches_receiver 0"]
        return cmds, (lambda outs: any(js.get("panic") or not js["answered_while_handle_alive"] for js in outs))

    n = 0
    for k0 in states:
        ex = env.executor(max_visits=2)
        ex.max_paths = 3000
        pd, od = z3.BitVec("recv.poll", 64), z3.BitVec("recv.option", 64)

        def m_poll(ex_, st, callee, args, argvals, dty):
            fr = mir.Agg("LinkFrame")
            fr["#d"] = z3.BitVecVal(LF["Detach"], 64)
            v = mir.Agg("Detach")
            v[0] = mir.Agg("detach")
            fr[("as", "Detach")] = v
            opt = mir.Agg("Option")
            opt["#d"] = od
            sm = mir.Agg("Some")
            sm[0] = fr
            opt[("as", "Some")] = sm
            poll = mir.Agg("Poll")
            poll["#d"] = pd
            rv = mir.Agg("Ready")
            rv[0] = opt
            poll[("as", "Ready")] = rv
            return poll

        ex.models = [(pat_poll, m_poll)]
        cor = mir.Agg("coroutine")
        cor["#d"] = z3.BitVecVal(k0, 64)
        cor[0] = mir.Ref(("@self",), True)
        pin = mir.Agg("pin")
        pin[0] = mir.Ref(("@cor",), True)
        paths = ex.run(fn, {"_1": pin, "@cor": cor, "@self": mir.Agg("receiver")})
        hyp = ex.assumptions + [z3.ULE(pd, 1), z3.ULE(od, 1)]
        for i, p in enumerate(paths):
            if p.end != "return" or not isinstance(p.ret, mir.Agg):
                continue
            if not [c for c in p.calls if re.search(pat_poll, c[0])]:
                continue
            H = hyp + p.cond + [pd == 0, od == 1, p.ret["#d"] == 0]
            s = z3.Solver()
            s.add(*H)
            if s.check() != z3.sat:
                continue
            n += 1
            sends = count_calls(p, r"::send_detach(::<.*>)?$")
            o.prove(f"state{k0}.path{i}:recv-does-not-return-before-the-detach-is-answered", H, z3.BoolVal(sends >= 1), replay=replay)
    o.cover("paths on which a detach is taken", [z3.BoolVal(n > 0)])
    return [o]


REGISTRY.setdefault("C13", []).append(c13_recv_answers_detach)


# ---- C14: end of stream while the peer still owes frames is reported as an error -------------------


def c14_eof_is_an_error(env):
    o = Obligation("c14_transport_end_before_the_peers_close_is_an_error", "C14")
    o.desc = "ConnectionEngine::event_loop, the incoming-frame arm of the select: when the transport ends (the stream yields None) while the peer still owes us frames -- in particular in CLOSE_SENT, where our close is out and the peer's has not arrived -- the step is an error that goes through on_error (and from there into the outcome the ConnectionHandle reports); only in states where nothing more is expected or the error outcome is already recorded (CLOSE_PIPE, DISCARDING, END) may the engine stop without one"
    fn = env.fn(r"^connection::engine::<impl at [^>]*>::event_loop::\{closure#0\}$")
    o.functions = [fn.name]
    states = _coroutine_states(fn)
    o.bounds = [f"coroutine body from every resume state {states} through one poll in which the select! resolves to the incoming-frame arm with None, up to the start of the next loop iteration; every connection state"]
    o.assumes = ["tokio::select! hands the arm the value its future produced; Connection::local_state reports the state"]
    CS = env.enums["ConnectionState"]
    pat_poll = r"^<(std::future::)?PollFn<.*select\.rs.*> as (futures_util::|std::future::)?Future>::poll$"
    owed = ["Opened", "CloseSent", "CloseReceived", "OpenSent", "OpenReceived"]

    def replay(m):
        return "scn cut_after_our_close", (lambda js: js.get("panic") or js["close_result"] == "ok")

    n = 0
    B = _Batch(o, replay)
    for k0 in states:
        ex = env.executor(max_visits=1)
        ex.max_paths = 4000
        ex.stop_calls = r"^std::future::poll_fn::<"
        state_d = z3.BitVec("connection.local_state", 64)
        pd = z3.BitVec("select.poll", 64)
        polled = []

        def m_poll(ex_, st, callee, args, argvals, dty, pd=pd, polled=polled):
            polled.append(1)
            none = mir.Agg("Option<Result<Frame>>")
            none["#d"] = z3.BitVecVal(0, 64)
            out = mir.Agg("Out")
            out["#d"] = z3.BitVecVal(1, 64)
            v = mir.Agg("_1")
            v[0] = none
            out[("as", "_1")] = v
            poll = mir.Agg("Poll")
            poll["#d"] = pd
            rv = mir.Agg("Ready")
            rv[0] = out
            poll[("as", "Ready")] = rv
            return poll

        def state_model(ex_, st, callee, args, argvals, dty, state_d=state_d):
            stt = st.locals.setdefault("@connstate", mir.Agg("ConnectionState"))
            if "#d" not in stt:
                stt["#d"] = state_d
            return mir.Ref(("@connstate",), False)

        ex.models = [(pat_poll, m_poll), (r"Connection>::local_state$", state_model)]
        cor = mir.Agg("coroutine")
        cor["#d"] = z3.BitVecVal(k0, 64)
        pin = mir.Agg("pin")
        pin[0] = mir.Ref(("@cor",), True)
        paths = ex.run(fn, {"_1": pin, "@cor": cor})
        hyp = ex.assumptions + [z3.ULE(pd, 1), state_valid(env, state_d, "ConnectionState")]
        for i, p in enumerate(paths):
            if not [c for c in p.calls if re.search(pat_poll, c[0])]:
                continue
            H = hyp + p.cond + [pd == 0, z3.Or(*[state_d == CS[s_] for s_ in owed])]
            s = z3.Solver()
            s.add(*H)
            if s.check() != z3.sat:
                continue
            n += 1
            errs = count_calls(p, r"^ConnectionEngine::<.*>::on_error$")
            B.add(k0, "end-of-stream-while-frames-are-owed-goes-through-the-error-handler", H, z3.BoolVal(errs >= 1))
    B.flush()
    o.cover("paths on which the stream ends", [z3.BoolVal(n > 0)])
    return [o]


REGISTRY.setdefault("C14", []).append(c14_eof_is_an_error)


# ---- C07: the hold-back queue is drained as far as the reopened window allows -----------------------


def c07_drain_completes(env):
    o = Obligation("c07_drain_stops_only_at_a_closed_window_or_an_empty_queue", "C07")
    o.desc = "Session::prepare_session_frames_from_buffered_transfers (run when the peer's flow reopens its window): it returns only when the remote-incoming-window is used up or the hold-back queue is empty -- whatever frames the caller had already put into the output buffer (the echoed link flow), every held-back transfer the window has room for is sent now, none is left waiting for another flow"
    fn = env.fn(r"^session::<impl at [^>]*>::prepare_session_frames_from_buffered_transfers$")
    o.functions = [fn.name]
    o.bounds = ["loop unrolled up to 3 times (queues of <= 3 entries are drained completely; longer ones are cut by the unrolling bound); every 32-bit window; every length of the output buffer passed in"]
    o.assumes = ["the send step shrinks the window by exactly one (c07_send_step); VecDeque::pop_front is Some exactly when the queue is not empty"]
    ex = env.executor(max_visits=_mv(4, 7))
    S, v = session_pre(env)
    riw_idx = env.fidx("Session", "remote_incoming_window")
    buf_idx = env.fidx("Session", "remote_incoming_window_exhausted_buffer")
    q0 = z3.BitVec("queue.len", 64)
    v0 = z3.BitVec("output_buffer.len", 64)
    Q = mir.Agg("queue")
    Q["@len"] = q0
    S[buf_idx] = Q
    OUT = mir.Agg("output")
    OUT["@len"] = v0

    def tgt(ex_, st, x):
        k = 0
        while isinstance(x, mir.Ref) and k < 4:
            cont, key = ex_.resolve(st, list(x.path))
            x = cont.get(key)
            k += 1
        return x

    def m_pop(ex_, st, callee, args, argvals, dty):
        q = tgt(ex_, st, argvals[0])
        r = mir.Agg("Option")
        r["#d"] = z3.If(q["@len"] != 0, z3.BitVecVal(1, 64), z3.BitVecVal(0, 64))
        sm = mir.Agg("Some")
        t = mir.Agg("(handle, transfer, payload)")
        t[0], t[1], t[2] = mir.Agg("handle"), mir.Agg("transfer"), mir.Agg("payload")
        sm[0] = t
        r[("as", "Some")] = sm
        q["@len"] = z3.If(q["@len"] != 0, q["@len"] - 1, q["@len"])
        return r

    def m_qlen(ex_, st, callee, args, argvals, dty):
        return tgt(ex_, st, argvals[0])["@len"]

    def m_push(ex_, st, callee, args, argvals, dty):
        o_ = tgt(ex_, st, argvals[0])
        if isinstance(o_, mir.Agg) and "@len" in o_:
            o_["@len"] = o_["@len"] + 1
        return mir.Agg("()")

    def m_vlen(ex_, st, callee, args, argvals, dty):
        o_ = tgt(ex_, st, argvals[0])
        return o_["@len"] if isinstance(o_, mir.Agg) and "@len" in o_ else None

    def m_noop(ex_, st, callee, args, argvals, dty):
        return mir.Agg("()")

    def m_step(ex_, st, callee, args, argvals, dty):
        s_ = tgt(ex_, st, argvals[0])
        s_[riw_idx] = s_[riw_idx] - 1
        r = mir.Agg("Result")
        r["#d"] = z3.BitVec(f"send_step.is_err#{ex_.ctx.n}", 64)
        ex_.ctx.n += 1
        ex_.assumptions.append(z3.ULE(r["#d"], 1))
        okv = mir.Agg("Ok")
        okv[0] = mir.Agg("frame")
        r[("as", "Ok")] = okv
        return r

    ex.models = [
        (r"^VecDeque::<.*>::pop_front$", m_pop),
        (r"^VecDeque::<.*>::len$", m_qlen),
        (r"^Vec::<(session::frame::)?SessionFrame>::push$", m_push),
        (r"^Vec::<(session::frame::)?SessionFrame>::len$", m_vlen),
        (r"^Vec::<(session::frame::)?SessionFrame>::reserve(_exact)?$", m_noop),
        (r"on_outgoing_transfer_inner$", m_step),
    ]
    paths = ex.run(fn, {"_1": mir.Ref(("@self",), True), "@self": S, "_2": OUT})
    hyp = ex.assumptions

    def replay(m):
        return "scn window_reopen_with_echo", (lambda js: js.get("panic") or js["transfers_seen"] != 3)

    n = 0
    for i, p in enumerate(paths):
        if p.end != "return" or not isinstance(p.ret, mir.Agg) or "#d" not in p.ret:
            continue
        cur = p.locals["@self"]
        q = cur.get(buf_idx)
        if not (isinstance(q, mir.Agg) and "@len" in q):
            raise mir.Unsupported("hold-back queue lost")
        n += 1
        o.prove(f"path{i}:stops-only-at-a-closed-window-or-an-empty-queue", hyp + p.cond + [p.ret["#d"] == 0], z3.Or(cur[riw_idx] == 0, q["@len"] == 0), replay=replay)
    o.cover("returning paths", [z3.BoolVal(n > 1)])
    return [o]


REGISTRY.setdefault("C07", []).append(c07_drain_completes)


def c16_recv_keeps_partial_delivery(env):
    o = Obligation("c16_recv_resumes_the_partial_delivery_it_holds", "C16")
    o.desc = "ReceiverInner::recv: the frames of a multi-frame delivery that earlier (possibly dropped) recv calls have already taken from the link's channel live in self.incomplete_transfer; a new recv must continue from exactly that state -- at the moment it starts to take the next frame (recv_inner) the partial delivery is what it was on entry"
    fn = env.fn(r"^receiver::<impl at [^>]*>::recv::\{closure#0\}$", sig=r"ReceiverInner<")
    o.functions = [fn.name]
    o.bounds = ["coroutine body from its initial state up to its first use of recv_inner; a partial delivery buffered or not"]
    o.assumes = ["dropping a recv future leaves the receiver's fields as they are (Rust semantics)"]
    ex = env.executor(max_visits=2)
    R = mir.Agg("receiver")
    f_inc = env.fidx("ReceiverInner", "incomplete_transfer")
    inc = mir.Agg("incomplete_transfer")
    inc_d = z3.BitVec("pre.incomplete_transfer.is_some", 64)
    inc["#d"] = inc_d
    R[f_inc] = inc
    snaps = []

    def hook(ex_, st, callee, depth):
        if re.search(r"ReceiverInner::<.*>::recv_inner(::<.*>)?$", callee):
            cur = st.locals.get("@self")
            now = cur.get(f_inc) if isinstance(cur, mir.Agg) else None
            snaps.append((list(st.cond), now.get("#d") if isinstance(now, mir.Agg) else None, now is inc))

    ex.on_call = hook
    pin, cor = coroutine_start(env, "@self", {})
    ex.run(fn, {"_1": pin, "@cor": cor, "@self": R})
    hyp = ex.assumptions + [z3.ULE(inc_d, 1)]

    def replay(m):
        return "scn cancel_recv_multi_frame", (lambda js: js.get("panic") or js["lost"] > 0 or js["errors"] > 0)

    # (only the first use: after recv_inner has run, it has legitimately updated the partial delivery)
    for j, (cond, d, same) in enumerate(snaps[:1]):
        o.prove(f"call{j}:the-partial-delivery-is-untouched-when-the-next-frame-is-taken", hyp + cond, (d == inc_d) if d is not None else z3.BoolVal(False), replay=replay)
    o.cover("recv reaches recv_inner", [z3.BoolVal(len(snaps) > 0)])
    return [o]


REGISTRY.setdefault("C16", []).append(c16_recv_keeps_partial_delivery)


def c16_send_side(env):
    out = []
    # -- (a) the credit taken for a delivery and the delivery itself
    o = Obligation("c16_send_does_not_suspend_between_credit_and_queueing", "C16")
    o.collect_all = True
    o.desc = "SenderLink::send_payload: once the credit for a delivery has been taken (get_delivery_tag_or_detached is ready: link-credit - 1, delivery-count + 1) the future must not suspend before the delivery has been handed to the session -- a send future dropped there has consumed a credit for a delivery the receiver never sees, and the link is one credit short for good (later sends starve once the receiver's grant is used up)"
    fn = env.fn(r"^sender_link::<impl at [^>]*>::send_payload::\{closure#0\}$")
    o.functions = [fn.name]
    states = _coroutine_states(fn)
    o.bounds = [f"coroutine body from every resume state {states} through one poll; every inner future ready or pending"]
    o.assumes = ["dropping a future drops its locals and undoes nothing (Rust semantics); consume(1) takes the credit (C08)"]
    pat_tag = r"get_delivery_tag_or_detached<.*>\(\)\} as (futures_util::|std::future::)?Future>::poll$"

    def replay(m):
        return "scn cancel_send_credit", (lambda js: js.get("panic") or js["starved"])

    n = 0
    seen_q = set()
    for k in states:
        ex, paths = _run_from_state(env, fn, k, max_visits=2, stop=None)
        for i, p in enumerate(paths):
            if p.end != "return" or not isinstance(p.ret, mir.Agg) or "#d" not in p.ret:
                continue
            n += 1
            polls = [c for c in p.calls if re.search(r"Future>::poll$", c[0])]
            if not polls:
                continue
            last = polls[-1][0]
            if re.search(pat_tag, last):
                continue  # still waiting for credit: nothing has been taken
            H = ex.assumptions + p.cond + [p.ret["#d"] == 1]
            s = z3.Solver()
            s.add(*H)
            if s.check() != z3.sat:
                continue
            qn = f"suspends-after-taking-the-credit:awaiting {_short_callee(last)}"
            if (k, qn) in seen_q:
                continue
            seen_q.add((k, qn))
            o.prove(f"state{k}:{qn}", H, z3.BoolVal(False), replay=replay)
    o.cover("paths", [z3.BoolVal(n > 0)])
    out.append(o)

    # -- (b) the frames of one delivery
    o = Obligation("c16_send_does_not_suspend_between_the_frames_of_a_delivery", "C16")
    o.collect_all = True
    o.desc = "SenderLink::send_transfer_without_modifying_unsettled_map (a message larger than the link's max-message-size goes out as several transfers): once the first frame (more=true) has been handed to the session the future must not suspend before the last one has -- a send future dropped in between leaves a delivery on the wire that is never completed or aborted"
    fn = env.fn(r"^sender_link::<impl at [^>]*>::send_transfer_without_modifying_unsettled_map::\{closure#0\}$")
    o.functions = [fn.name]
    states = _coroutine_states(fn)
    o.bounds = [f"coroutine body from every resume state {states} through one poll; loops unrolled 2 times; every inner future ready or pending; the resume states in which a frame of the delivery is already queued are found as a fixed point"]
    o.assumes = ["send_transfer queues one frame on the link->session channel"]

    def replay2(m):
        return "scn cancel_send_multi_frame", (lambda js: js.get("panic") or js["partial_deliveries"] > 0)

    n = 0
    seen_q = set()
    pat_send = r"send_transfer\(\)\} as (futures_util::|std::future::)?Future>::poll$"
    per_state = {}
    for k in states:
        ex, paths = _run_from_state(env, fn, k, max_visits=2, stop=None)
        per_state[k] = (ex, [p for p in paths if p.end == "return" and isinstance(p.ret, mir.Agg) and "#d" in p.ret])
    partial = set()
    changed = True
    while changed:
        changed = False
        for k, (ex, paths) in per_state.items():
            for p in paths:
                polls = [c for c in p.calls if re.search(pat_send, c[0])]
                e = _end_state(p)
                if e in (None, 1, 2) or e in partial:
                    continue
                if len(polls) >= 2 or (k in partial and polls):
                    partial.add(e)
                    changed = True
    for k, (ex, paths) in per_state.items():
        for i, p in enumerate(paths):
            n += 1
            polls = [c for c in p.calls if re.search(pat_send, c[0])]
            if not polls or not (len(polls) >= 2 or k in partial):
                continue  # suspended before the first frame of the delivery: nothing is on the wire yet
            H = ex.assumptions + p.cond + [p.ret["#d"] == 1]
            s = z3.Solver()
            s.add(*H)
            if s.check() != z3.sat:
                continue
            qn = "suspends-with-a-partial-delivery-queued:awaiting send_transfer"
            if (k, qn) in seen_q:
                continue
            seen_q.add((k, qn))
            o.prove(f"state{k}:{qn}", H, z3.BoolVal(False), replay=replay2)
    o.cover("paths", [z3.BoolVal(n > 0)])
    out.append(o)
    return out


REGISTRY.setdefault("C16", []).append(c16_send_side)


def c05_nnt(env):
    return [x for x in _nnt_obligations(env, "C03") if _retag(x, "C05", x.name.replace("c03_", "c05_"))]


REGISTRY.setdefault("C05", []).append(c05_nnt)


# ---- C08: which flows reach the link ----------------------------------------------------------------


def c08_link_flow_classification(env):
    o = Obligation("c08_a_flow_with_a_handle_is_a_link_flow", "C08")
    o.desc = "TryFrom<Flow> for LinkFlow (the session uses it to decide whether an incoming flow is handed to a link): a flow is a link flow exactly when it carries a handle -- whatever else it carries or omits (a receiver may omit delivery-count before it has seen the sender's) -- and delivery-count, link-credit, drain and echo reach the link as they were sent; otherwise the credit the flow grants is never applied and a waiting send is never woken"
    fn = env.fn(r"^endpoint::<impl at [^>]*>::try_from$", sig=r"performatives::Flow\) -> Result<(endpoint::)?LinkFlow")
    o.functions = [fn.name]
    o.bounds = ["one call; handle, delivery-count, link-credit present or absent with every 32-bit value; drain / echo"]
    o.assumes = ["the link applies the LinkFlow (c08_sender_on_incoming_flow)"]
    ex = env.executor(max_visits=3)
    F = mir.Agg("flow")
    sym = {}

    def opt(tag, w=32):
        a = mir.Agg(tag)
        d = z3.BitVec(f"flow.{tag}.is_some", 64)
        v = z3.BitVec(f"flow.{tag}", w)
        a["#d"] = d
        sm = mir.Agg("Some")
        sm[0] = v
        a[("as", "Some")] = sm
        sym[tag] = (d, v)
        return a

    h = mir.Agg("handle")
    hd = z3.BitVec("flow.handle.is_some", 64)
    hv = z3.BitVec("flow.handle", 32)
    h["#d"] = hd
    sm = mir.Agg("Some")
    hh = mir.Agg("Handle")
    hh[0] = hv
    sm[0] = hh
    h[("as", "Some")] = sm
    F[env.fidx("Flow", "handle")] = h
    for f_ in ("delivery_count", "link_credit"):
        F[env.fidx("Flow", f_)] = opt(f_)
    drain, echo = z3.Bool("flow.drain"), z3.Bool("flow.echo")
    F[env.fidx("Flow", "drain")] = drain
    F[env.fidx("Flow", "echo")] = echo
    paths = ex.run(fn, {"_1": F})
    hyp = ex.assumptions + [z3.ULE(hd, 1)] + [z3.ULE(d, 1) for d, _ in sym.values()]

    def replay(m):
        return "scn credit_without_delivery_count", (lambda js: js.get("panic") or not js["send_completed"])

    n = 0
    for i, p in enumerate(paths):
        if p.end != "return" or not isinstance(p.ret, mir.Agg) or "#d" not in p.ret:
            continue
        n += 1
        H = hyp + p.cond
        ok = p.ret["#d"] == 0
        o.prove(f"path{i}:a-link-flow-exactly-when-it-has-a-handle", H, ok == (hd == 1), replay=replay)
        okv = p.ret.get(("as", "Ok"))
        lf = okv[0] if isinstance(okv, mir.Agg) and isinstance(okv.get(0), mir.Agg) else None
        if lf is None:
            continue
        for f_ in ("delivery_count", "link_credit"):
            out = lf.get(env.fidx("LinkFlow", f_))
            d, v = sym[f_]
            if isinstance(out, mir.Agg) and "#d" in out:
                ov = out.get(("as", "Some"))
                ov = ov[0] if isinstance(ov, mir.Agg) and 0 in ov else None
                same = out["#d"] == d
                if ov is not None and z3.is_bv(ov):
                    same = z3.And(same, z3.Implies(d == 1, ov == v))
                o.prove(f"path{i}:{f_}-reaches-the-link-as-sent", H + [ok], same, replay=replay)
            else:
                o.prove(f"path{i}:{f_}-reaches-the-link-as-sent", H + [ok], z3.BoolVal(False), replay=replay)
        for f_, b in (("drain", drain), ("echo", echo)):
            out = lf.get(env.fidx("LinkFlow", f_))
            o.prove(f"path{i}:{f_}-reaches-the-link-as-sent", H + [ok], (out == b) if z3.is_bool(out) else z3.BoolVal(False), replay=replay)
    o.cover("paths", [z3.BoolVal(n > 1)])
    return [o]


# ---- C17: only frames that ARRIVE postpone the local idle deadline ------------------------------------


def c17_idle_deadline(env):
    out = []
    for which, must in (("start_send", False), ("poll_ready", False), ("poll_flush", False), ("poll_close", False)):
        o = Obligation(f"c17_sending_does_not_postpone_the_idle_deadline_{which}", "C17")
        o.desc = f"Sink<amqp::Frame> for Transport::{which}: the local idle time-out measures silence FROM the peer; nothing on the sending side may reset it (an endpoint that keeps sending heartbeats to a dead peer would otherwise never notice)"
        fn = env.fn(rf"^transport::<impl at [^>]*>::{which}$", sig=r"Transport<Io, (frames::)?amqp::Frame>")
        o.functions = [fn.name]
        o.bounds = ["one call; every path"]
        o.assumes = ["Transport::poll_next resets the deadline when the codec yields (C17's idle oracle)"]
        ex = env.executor(max_visits=3)
        paths = ex.run(fn, {"_1": mir.Agg("pin"), "_2": mir.Agg("arg")})

        def replay(m):
            return "scn idle_while_sending", (lambda js: js.get("panic") or js["result"] != "idle_timeout")

        n = 0
        for i, p in enumerate(paths):
            if p.end != "return":
                continue
            n += 1
            resets = count_calls(p, r"(IdleTimeout|Sleep|Delay).*::reset$")
            o.prove(f"path{i}:no-reset-of-the-idle-deadline", ex.assumptions + p.cond, z3.BoolVal(resets == 0), replay=replay)
        o.cover("paths", [z3.BoolVal(n > 0)])
        out.append(o)
    return out


# ---- C10: every more=true frame is recorded, also one without payload ---------------------------------


def c10_partial_frame_recorded(env):
    o = Obligation("c10_every_partial_frame_is_recorded", "C10")
    o.desc = "ReceiverInner::on_incomplete_transfer (a transfer with more=true): on every path the frame's performative is either merged into the delivery being reassembled (or_assign, which also reports contradictions) or starts one (IncompleteTransfer::new, stored in the receiver) -- whatever the payload length, also zero: the first frame carries delivery-id, tag and format that later frames may omit"
    fn = env.fn(r"^receiver::<impl at [^>]*>::on_incomplete_transfer$")
    o.functions = [fn.name]
    o.bounds = ["one call; a delivery already buffered or not; every payload length"]
    o.assumes = ["IncompleteTransfer::or_assign / append are C10's Kani harnesses"]
    ex = env.executor(max_visits=3)
    R = mir.Agg("receiver")
    f_inc = env.fidx("ReceiverInner", "incomplete_transfer")
    inc = mir.Agg("incomplete_transfer")
    inc_d = z3.BitVec("pre.incomplete_transfer.is_some", 64)
    inc["#d"] = inc_d
    R[f_inc] = inc
    paths = ex.run(fn, {"_1": mir.Ref(("@self",), True), "@self": R, "_2": mir.Agg("transfer"), "_3": mir.Agg("payload")})
    hyp = ex.assumptions + [z3.ULE(inc_d, 1)]

    def replay(m):
        return "scn empty_first_fragment", (lambda js: js.get("panic") or not js["intact"])

    n = 0
    for i, p in enumerate(paths):
        if p.end != "return" or not isinstance(p.ret, mir.Agg) or "#d" not in p.ret:
            continue
        n += 1
        H = hyp + p.cond + [p.ret["#d"] == 0]
        merged = count_calls(p, r"IncompleteTransfer::or_assign$")
        started = count_calls(p, r"IncompleteTransfer::new$")
        o.prove(f"path{i}:the-frame-is-merged-or-starts-a-delivery", H, z3.BoolVal(merged + started == 1), replay=replay)
        o.prove(f"path{i}:merged-when-a-delivery-is-buffered", H + [inc_d == 1], z3.BoolVal(merged == 1), replay=replay)
        cur = p.locals["@self"].get(f_inc) if isinstance(p.locals.get("@self"), mir.Agg) else None
        post_d = cur.get("#d") if isinstance(cur, mir.Agg) else None
        o.prove(f"path{i}:a-delivery-is-buffered-afterwards", H, (post_d == 1) if post_d is not None else z3.BoolVal(False), replay=replay)
    o.cover("paths", [z3.BoolVal(n > 1)])
    return [o]


# ---- C19: the SCRAM server nonce is drawn per exchange -------------------------------------------------


def c19_server_nonce_fresh(env):
    o = Obligation("c19_scram_server_nonce_is_drawn_for_each_exchange", "C19")
    o.desc = "ScramAuthenticator::compute_server_first_message (run once per SASL exchange, on the client-first message): the server's part of the nonce is generated by this call (a call to the random source on every path that produces a server-first), not taken from the authenticator -- which the listener clones for every connection; with a reused server nonce a recorded exchange replays verbatim (same AuthMessage, same proof)"
    fn = env.fn(r"^(auth::scram::)?server::<impl at [^>]*>::compute_server_first_message$", sig=r"ScramAuthenticator<")
    o.functions = [fn.name]
    o.bounds = ["one call; every path"]
    o.assumes = ["generate_nonce / the rand source yields unpredictable values"]
    ex = env.executor(max_visits=3)
    ex.max_paths = 3000
    paths = ex.run(fn, {"_1": mir.Ref(("@self",), False), "@self": mir.Agg("authenticator"), "_2": mir.Agg("client_first")})

    def replay(m):
        return "scram_replay", (lambda js: js.get("panic") or js["replay_accepted"])

    n = 0
    for i, p in enumerate(paths):
        if p.end != "return" or not isinstance(p.ret, mir.Agg) or "#d" not in p.ret:
            continue
        H = ex.assumptions + p.cond + [p.ret["#d"] == 0]
        s = z3.Solver()
        s.add(*H)
        if s.check() != z3.sat:
            continue
        n += 1
        draws = count_calls(p, r"(^|::)generate_nonce$")
        o.prove(f"path{i}:a-server-first-is-built-on-a-nonce-drawn-now", H, z3.BoolVal(draws >= 1), replay=replay)
    o.cover("paths that produce a server-first", [z3.BoolVal(n > 0)])
    return [o]


REGISTRY.setdefault("C08", []).append(c08_link_flow_classification)
REGISTRY.setdefault("C17", []).append(c17_idle_deadline)
REGISTRY.setdefault("C10", []).append(c10_partial_frame_recorded)
REGISTRY.setdefault("C19", []).append(c19_server_nonce_fresh)


# ---- C20 / C03: the default read_bytes returns exactly the n bytes asked for ---------------------------


def c20_io_read_bytes(env):
    o = Obligation("c20_io_read_bytes_returns_exactly_n", "C20")
    o.desc = "Read::read_bytes(n) (default method: owned str / symbol / binary through the io reader, n from the size field): on Ok the vector holds exactly n bytes and exactly n bytes were taken from the reader -- also when n needs several 4 KiB chunks and is not a multiple of the chunk size -- so that the io reader yields the same value as the slice reader and leaves what follows untouched"
    senv, fn, paths, hyp, (N, L0, A0), o.bounds, o.assumes = _io_fill_buffer(env, "C20", "read_bytes")
    o.functions = [fn.name]

    def replay(m):
        n = model_value(m, N)
        probes = sorted({min(max(n, 1), 20000), 4097, 5000, 8191, 8193, 4096, 255})
        cmds = [f"ioread_big {x}" for x in probes]
        return cmds, (lambda outs: any(js.get("panic") or not js["agree"] for js in outs))

    n_ret = 0
    for i, p in enumerate(paths):
        if p.end != "return" or not isinstance(p.ret, mir.Agg) or "#d" not in p.ret:
            continue
        n_ret += 1
        wd = p.locals["@world"]
        o.prove(f"path{i}:ok-means-exactly-n-bytes", hyp + p.cond + [p.ret["#d"] == 0], z3.And(wd["len"] == N, wd["received"] == N), replay=replay)
    o.cover("a call that needs two chunks returns", [z3.BoolVal(n_ret > 1)] + hyp + [z3.UGT(N, IO_SLACK), z3.UGE(A0, N)])
    return [o]


def c03_io_read_bytes(env):
    return [x for x in c20_io_read_bytes(env) if _retag(x, "C03", "c03_io_read_bytes_returns_exactly_n")]


REGISTRY.setdefault("C20", []).append(c20_io_read_bytes)
REGISTRY.setdefault("C03", []).append(c03_io_read_bytes)


def c06_frame_size_setters(env):
    return [x for x in c15_frame_size_setters(env) if "encoder" in x.name and _retag(x, "C06", x.name.replace("c15_", "c06_"))]


REGISTRY.setdefault("C06", []).append(c06_frame_size_setters)


# ---- C20: the size computed for a list / map header is the number of bytes the encoder writes --------


def c20_compound_header_sizes(env):
    out = []
    senv = env.crate("serde_amqp")
    ARR = senv.enums["IsArrayElement"]
    for kind in ("map", "list"):
        o = Obligation(f"c20_size_of_{kind}_header_matches_the_encoder", "C20")
        o.desc = f"ser::write_{kind} (what the encoder writes for a {kind} whose entries take L bytes: constructor, size, count, entries) against size_ser::{kind}_size (what serialized_size counts): for EVERY L and every array-element position they agree on the number of bytes and on which lengths are too long -- in particular on the L at which the 8-bit form gives way to the 32-bit form"
        fw = senv.fn(rf"^write_{kind}$")
        fs = senv.fn(rf"^{kind}_size$")
        o.functions = [fw.name + " (serde_amqp)", fs.name + " (serde_amqp)"]
        o.bounds = ["every 64-bit length of the entry bytes; every IsArrayElement position; the writer accepts every write"]
        o.assumes = ["io::Write::write_all(buf) writes buf.len() bytes or fails (std)"]
        L = z3.BitVec("entries.len", 64)
        arr_d = z3.BitVec("is_array_element", 64)

        def run_writer():
            ex = mir.Executor(senv.fns, senv.structs, senv.enums, max_visits=3, consts=senv.consts)
            total = {"n": z3.BitVecVal(0, 64)}

            def tgt(ex_, st, v):
                k = 0
                while isinstance(v, mir.Ref) and k < 4:
                    cont, key = ex_.resolve(st, list(v.path))
                    v = cont.get(key)
                    k += 1
                return v

            def m_write(ex_, st, callee, args, argvals, dty):
                sl = tgt(ex_, st, argvals[1])
                if not (isinstance(sl, mir.Agg) and "#len" in sl):
                    raise mir.Unsupported("write_all of a slice of unknown length")
                w = st.locals.setdefault("@written", mir.Agg("written"))
                w["n"] = (w["n"] if "n" in w else z3.BitVecVal(0, 64)) + sl["#len"]
                r = mir.Agg("Result")
                r["#d"] = z3.BitVecVal(0, 64)
                return r

            ex.models = [(r"Write>::write_all$", m_write)]
            buf = mir.Agg("entries")
            buf["#len"] = L
            a = mir.Agg("IsArrayElement")
            a["#d"] = arr_d
            w0 = mir.Agg("written")
            w0["n"] = z3.BitVecVal(0, 64)
            paths = ex.run(fw, {"_1": mir.Agg("writer"), "_2": z3.BitVec("count", 64), "_3": mir.Ref(("@buf",), False), "@buf": buf, "_4": mir.Ref(("@arr",), False), "@arr": a, "@written": w0})
            return ex, [p for p in paths if p.end == "return" and isinstance(p.ret, mir.Agg) and "#d" in p.ret]

        def run_size():
            ex = mir.Executor(senv.fns, senv.structs, senv.enums, max_visits=3, consts=senv.consts)
            a = mir.Agg("IsArrayElement")
            a["#d"] = arr_d
            paths = ex.run(fs, {"_1": L, "_2": mir.Ref(("@arr",), False), "@arr": a})
            return ex, [p for p in paths if p.end == "return" and isinstance(p.ret, mir.Agg) and "#d" in p.ret]

        exw, pw = run_writer()
        exs, ps = run_size()
        hyp = exw.assumptions + exs.assumptions + [z3.Or(*[arr_d == v for v in ARR.values()])]

        def replay(m, kind=kind):
            l = model_value(m, L)
            probes = sorted({min(l, 70000), 0, 1, 253, 254, 255, 256, 257})
            cmds = [f"hdrsize {kind} {x}" for x in probes]
            return cmds, (lambda outs: any(js.get("panic") or not js["agree"] for js in outs))

        B = _Batch(o, replay)
        n = 0
        for a_ in pw:
            for b_ in ps:
                H = hyp + a_.cond + b_.cond
                s = z3.Solver()
                s.add(*H)
                if s.check() != z3.sat:
                    continue
                n += 1
                okw, oks = a_.ret["#d"] == 0, b_.ret["#d"] == 0
                B.add(0, "the-same-lengths-are-too-long", H, okw == oks)
                sz = b_.ret.get(("as", "Ok"))
                sz = sz[0] if isinstance(sz, mir.Agg) and 0 in sz else None
                wr = a_.locals["@written"]["n"]
                B.add(0, "bytes-written-equal-the-size-counted", H + [okw, oks], (wr == sz) if sz is not None and z3.is_bv(sz) else z3.BoolVal(False))
        B.flush()
        o.cover("pairs of paths", [z3.BoolVal(n > 2)])
        out.append(o)
    return out


REGISTRY.setdefault("C20", []).append(c20_compound_header_sizes)


# ---- C07 / C01: transfers held back by a closed window go out first, in arrival order, each exactly once -------


def _same(a, b):
    return a is not None and b is not None and a.eq(b)


def c07_fifo_order(env):
    """The hold-back queue is given logical positions: the front item has sequence number h, the next h+1, ...;
    the transfer being handed to the session now arrived after all of them and has number h+len. pop_front /
    push_back / is_empty / len follow VecDeque's contract on these numbers. Obligation: the items reaching the send
    step (on_outgoing_transfer_inner) are numbered h, h+1, h+2, ... in call order, each with its own handle and
    payload; the frames pushed to the output are in that order; the current transfer is sent or queued, once."""
    out = []
    targets = [
        ("c07_held_back_transfers_go_first_and_in_order", r"^session::<impl at [^>]*>::on_outgoing_transfer$", "Session::on_outgoing_transfer", True),
        ("c07_reopened_window_drains_in_order", r"^session::<impl at [^>]*>::prepare_session_frames_from_buffered_transfers$", "Session::prepare_session_frames_from_buffered_transfers", False),
    ]
    for name, pat, nice, has_cur in targets:
        o = Obligation(name, "C07")
        o.desc = f"{nice} (with the drain helpers inlined): the transfers that reach the send step are the front of the hold-back queue in queue order, each with its own handle and payload, then -- only once the queue is empty -- the transfer being sent now; the frames are put into the output in that order; the transfer being sent now is either sent or appended at the BACK of the queue, exactly once; no queued item disappears"
        fn = env.fn(pat)
        o.functions = [fn.name]
        ex = env.executor(max_visits=_mv(4, 7))
        ex.inline = {
            r"prepare_session_frames_from_buffered_and_current_transfers$": r"^session::<impl at [^>]*>::prepare_session_frames_from_buffered_and_current_transfers$",
            r"prepare_session_frames_from_buffered_transfers$": r"^session::<impl at [^>]*>::prepare_session_frames_from_buffered_transfers$",
        }
        o.functions += sorted(set(ex.inline.values()))
        o.bounds = ["loop unrolled up to 3 times (up to 3 held-back transfers are followed through; longer drains are cut by the unrolling bound); every 32-bit window, every queue length and front position (64-bit)"]
        o.assumes = ["VecDeque contract on logical positions (pop_front takes the front, push_back appends behind the last); the send step shrinks the window by one (c07_send_step) and returns the frame of the transfer it was given; any other operation on the queue makes the obligation inconclusive"]
        S, v = session_pre(env)
        riw_idx = env.fidx("Session", "remote_incoming_window")
        buf_idx = env.fidx("Session", "remote_incoming_window_exhausted_buffer")
        q0 = z3.BitVec("queue.len", 64)
        h0 = z3.BitVec("queue.front_seq", 64)
        Q = mir.Agg("queue")
        Q["@len"] = q0
        Q["@head"] = h0
        S[buf_idx] = Q
        OUT = mir.Agg("output")
        OUT["@len"] = z3.BitVec("output_buffer.len", 64)
        hyp0 = [z3.ULT(q0, 1 << 32), z3.ULT(h0, 1 << 40)]

        def item(kind, seq):
            a = mir.Agg(kind)
            a["@seq"] = seq
            return a

        def tgt(ex_, st, x):
            k = 0
            while isinstance(x, mir.Ref) and k < 4:
                cont, key = ex_.resolve(st, list(x.path))
                x = cont.get(key)
                k += 1
            return x

        def seq_of(x):
            return x.get("@seq") if isinstance(x, mir.Agg) else None

        def m_pop(ex_, st, callee, args, argvals, dty):
            q = tgt(ex_, st, argvals[0])
            r = mir.Agg("Option")
            r["#d"] = z3.If(q["@len"] != 0, z3.BitVecVal(1, 64), z3.BitVecVal(0, 64))
            sm = mir.Agg("Some")
            t = mir.Agg("(handle, transfer, payload)")
            t[0], t[1], t[2] = item("handle", q["@head"]), item("transfer", q["@head"]), item("payload", q["@head"])
            sm[0] = t
            r[("as", "Some")] = sm
            nz = q["@len"] != 0
            q["@head"] = z3.If(nz, q["@head"] + 1, q["@head"])
            q["@len"] = z3.If(nz, q["@len"] - 1, q["@len"])
            return r

        def m_pushq(ex_, st, callee, args, argvals, dty):
            q = tgt(ex_, st, argvals[0])
            q["@len"] = q["@len"] + 1
            return mir.Agg("()")

        def m_qlen(ex_, st, callee, args, argvals, dty):
            return tgt(ex_, st, argvals[0])["@len"]

        def m_qempty(ex_, st, callee, args, argvals, dty):
            return tgt(ex_, st, argvals[0])["@len"] == 0

        def m_qother(ex_, st, callee, args, argvals, dty):
            raise mir.Unsupported(f"unexpected operation on the hold-back queue: {callee[:90]}")

        def m_push(ex_, st, callee, args, argvals, dty):
            o_ = tgt(ex_, st, argvals[0])
            if isinstance(o_, mir.Agg) and "@len" in o_:
                o_["@len"] = o_["@len"] + 1
            return mir.Agg("()")

        def m_vlen(ex_, st, callee, args, argvals, dty):
            o_ = tgt(ex_, st, argvals[0])
            return o_["@len"] if isinstance(o_, mir.Agg) and "@len" in o_ else None

        def m_noop(ex_, st, callee, args, argvals, dty):
            return mir.Agg("()")

        def m_newvec(ex_, st, callee, args, argvals, dty):
            a = mir.Agg("output")
            a["@len"] = z3.BitVecVal(0, 64)
            return a

        def m_step(ex_, st, callee, args, argvals, dty):
            s_ = tgt(ex_, st, argvals[0])
            s_[riw_idx] = s_[riw_idx] - 1
            r = mir.Agg("Result")
            r["#d"] = z3.BitVec(f"send_step.is_err#{ex_.ctx.n}", 64)
            ex_.ctx.n += 1
            ex_.assumptions.append(z3.ULE(r["#d"], 1))
            okv = mir.Agg("Ok")
            fr = mir.Agg("frame")
            sq = seq_of(argvals[2])
            if sq is not None:
                fr["@seq"] = sq
            okv[0] = fr
            r[("as", "Ok")] = okv
            return r

        ex.models = [
            (r"^VecDeque::<.*>::pop_front$", m_pop),
            (r"^VecDeque::<.*>::push_back$", m_pushq),
            (r"^VecDeque::<.*>::len$", m_qlen),
            (r"^VecDeque::<.*>::is_empty$", m_qempty),
            (r"^VecDeque::<.*>::", m_qother),
            (r"^Vec::<(session::frame::)?SessionFrame>::push$", m_push),
            (r"^Vec::<(session::frame::)?SessionFrame>::len$", m_vlen),
            (r"^Vec::<(session::frame::)?SessionFrame>::reserve(_exact)?$", m_noop),
            (r"^Vec::<(session::frame::)?SessionFrame>::with_capacity$", m_newvec),
            (r"on_outgoing_transfer_inner$", m_step),
        ]
        cur_seq = h0 + q0
        init = {"_1": mir.Ref(("@self",), True), "@self": S}
        if has_cur:
            init.update({"_2": item("handle", cur_seq), "_3": item("transfer", cur_seq), "_4": item("payload", cur_seq)})
        else:
            init["_2"] = OUT
        paths = ex.run(fn, init)
        hyp = ex.assumptions + hyp0

        def replay(m):
            return "scn window_reopen_with_echo", (lambda js: js.get("panic") or js["transfers_seen"] != 3 or not js["in_order"])

        n = sends_seen = 0
        for i, p in enumerate(paths):
            if p.end != "return":
                continue
            n += 1
            sends = [c for c in p.calls if _is(c[0], r"on_outgoing_transfer_inner$")]
            qpush = [c for c in p.calls if re.search(r"^VecDeque::<.*>::push_back$", c[0])]
            vpush = [c for c in p.calls if re.search(r"^Vec::<(session::frame::)?SessionFrame>::push$", c[0])]
            sends_seen = max(sends_seen, len(sends))
            for k, c in enumerate(sends):
                a = c[1]
                sq = [seq_of(a[j]) if len(a) > j else None for j in (1, 2, 3)]
                if any(s is None for s in sq):
                    o.prove(f"path{i}:send{k}:sends-a-transfer-it-was-given", hyp + p.cond, z3.BoolVal(False), replay=replay)
                    continue
                o.prove(f"path{i}:send{k}:next-in-arrival-order", hyp + p.cond, sq[1] == h0 + k, replay=replay)
                o.prove(f"path{i}:send{k}:with-its-own-handle-and-payload", hyp + p.cond, z3.And(sq[0] == sq[1], sq[2] == sq[1]), replay=replay)
            # frames reach the output in the order they were produced
            fseq = [seq_of(c[1][1]) if len(c[1]) > 1 else None for c in vpush]
            fseq = [s for s in fseq if s is not None]
            for k in range(1, len(fseq)):
                o.prove(f"path{i}:output{k}:frames-are-appended-in-order", hyp + p.cond, z3.ULT(fseq[k - 1], fseq[k]), replay=replay)
            # a path on which the send step failed (`?` -> FromResidual) ends the session: only the order goals apply
            if any(re.search(r"from_residual$", c[0]) for c in p.calls):
                continue
            ok = p.ret["#d"] == 0 if isinstance(p.ret, mir.Agg) and "#d" in p.ret else z3.BoolVal(True)
            cur = p.locals["@self"]
            q = cur.get(buf_idx)
            if not (isinstance(q, mir.Agg) and "@len" in q and "@head" in q):
                raise mir.Unsupported("hold-back queue lost")
            # nothing disappears: what was popped was sent
            o.prove(f"path{i}:every-item-taken-from-the-queue-is-sent", hyp + p.cond + [ok], q["@head"] == h0 + sum(1 for c in sends if not (has_cur and len(c[1]) > 2 and _same(seq_of(c[1][2]), cur_seq))), replay=replay)
            if has_cur:
                cur_sent = [c for c in sends if len(c[1]) > 2 and _same(seq_of(c[1][2]), cur_seq)]
                cur_queued = [c for c in qpush if len(c[1]) > 1]
                o.prove(f"path{i}:the-current-transfer-is-sent-or-queued-once", hyp + p.cond + [ok], z3.BoolVal(len(cur_sent) + len(cur_queued) == 1), replay=replay)
                for c in cur_queued:
                    tup = c[1][1]
                    sq = [seq_of(tup.get(j)) if isinstance(tup, mir.Agg) else None for j in (0, 1, 2)]
                    o.prove(f"path{i}:what-is-queued-is-the-current-transfer", hyp + p.cond, z3.BoolVal(all(_same(s, cur_seq) for s in sq)), replay=replay)
                if cur_sent:
                    o.prove(f"path{i}:the-current-transfer-goes-last", hyp + p.cond + [ok], z3.BoolVal(sends[-1] is cur_sent[0]), replay=replay)
        o.cover("returning paths", [z3.BoolVal(n > 1)])
        o.cover("a path that sends two or more transfers", [z3.BoolVal(sends_seen >= 2)])
        out.append(o)
    return out


REGISTRY.setdefault("C07", []).append(c07_fifo_order)


# ---- C11 / C10 / C01: the link-level splitter names the delivery on its first frame only ---------------------


def c11_link_splitter(env):
    """SenderLink::send_transfer_without_modifying_unsettled_map cuts a message larger than the link's
    max-message-size into several transfers. The session stamps a NEW delivery-id on every transfer that carries a
    delivery-tag (on_outgoing_transfer_inner, c11_delivery_id_stamping), so every frame after the first must go to
    the session without a tag -- otherwise the frames of one delivery carry different delivery-ids.
    The tag of the transfer saved across the awaits is followed as an abstract fact per resume state (fixed point):
    'definitely None' or 'anything'."""
    o = Obligation("c11_link_splitter_names_the_delivery_on_the_first_frame_only", "C11")
    o.desc = "SenderLink::send_transfer_without_modifying_unsettled_map: every transfer it hands to the session after the first one of a delivery carries no delivery-tag (and no delivery-id), for every number of pieces -- two, three or more; the session gives a fresh delivery-id to whatever carries a tag, so a tagged continuation splits one delivery into two ids"
    fn = env.fn(r"^sender_link::<impl at [^>]*>::send_transfer_without_modifying_unsettled_map::\{closure#0\}$")
    o.functions = [fn.name]
    states = _coroutine_states(fn)
    o.bounds = [f"coroutine body from every resume state {states} through one poll; loops unrolled 2 times per poll; the tag of the saved transfer per resume state is a fixed point of the transfer function (None / anything); every payload length and max-message-size"]
    o.assumes = ["Transfer::clone copies the tag's presence; send_transfer hands exactly the transfer it was given to the session"]
    TF = env.structs.get("Transfer")
    if TF is None:
        raise mir.Unsupported("struct Transfer not found")
    i_tag, i_id = env.fidx("Transfer", "delivery_tag"), env.fidx("Transfer", "delivery_id")
    m = re.search(r"as (variant#\d+)\)\.(\d+): [\w:]*Transfer\)", "\n".join(t for b in fn.blocks.values() for t in (b[0] + [b[1]])))
    if not m:
        raise mir.Unsupported("saved Transfer not found in the coroutine layout")
    var, fld = m.group(1), int(m.group(2))

    def opt(d):
        a = mir.Agg("Option")
        a["#d"] = d
        return a

    def m_clone(ex_, st, callee, args, argvals, dty):
        x = argvals[0]
        k = 0
        while isinstance(x, mir.Ref) and k < 4:
            cont, key = ex_.resolve(st, list(x.path))
            x = cont.get(key)
            k += 1
        if not isinstance(x, mir.Agg):
            return None
        c = mir.Agg("Transfer")
        for j in (i_tag, i_id):
            v = x.get(j)
            if isinstance(v, mir.Agg) and "#d" in v:
                c[j] = opt(v["#d"])
        return c

    models = [(r"^<(fe2o3_amqp_types::)?(performatives::)?Transfer as Clone>::clone$", m_clone)]

    def run(k, tag_none):
        ex = env.executor(max_visits=_mv(2, 3))
        ex.max_paths = 4000
        ex.models = models
        cor = mir.Agg("coroutine")
        cor["#d"] = z3.BitVecVal(k, 64)
        T = mir.Agg("Transfer")
        dt = z3.BitVec(f"saved.delivery_tag.is_some@{k}", 64)
        di = z3.BitVec(f"saved.delivery_id.is_some@{k}", 64)
        T[i_tag], T[i_id] = opt(dt), opt(di)
        hyp = [z3.ULE(dt, 1), z3.ULE(di, 1)]
        if tag_none:
            hyp.append(dt == 0)
        if k == 0:
            # initial state: the transfer is the argument (upvar) -- saved slot not live yet
            cor_fields = {}
            # arguments of the async fn live in the coroutine's unnamed fields; find the Transfer-typed one
            am = re.search(r"= move \(\(\*_\d+\)\.(\d+): [\w:]*Transfer\)", "\n".join(t for b in fn.blocks.values() for t in (b[0] + [b[1]])))
            if not am:
                raise mir.Unsupported("Transfer argument not found in the coroutine")
            cor[int(am.group(1))] = T
        else:
            sv = mir.Agg(var)
            sv[fld] = T
            cor[("as", var)] = sv
        pin = mir.Agg("pin")
        pin[0] = mir.Ref(("@cor",), True)
        paths = ex.run(fn, {"_1": pin, "@cor": cor})
        return ex, paths, hyp

    def saved_tag(p):
        c = p.locals.get("@cor")
        sv = c.get(("as", var)) if isinstance(c, mir.Agg) else None
        T = sv.get(fld) if isinstance(sv, mir.Agg) else None
        t = T.get(i_tag) if isinstance(T, mir.Agg) else None
        return t.get("#d") if isinstance(t, mir.Agg) else None

    def valid(hyps, goal):
        s = z3.Solver()
        s.set("timeout", 20000)
        s.add(*hyps)
        s.add(z3.Not(goal))
        return s.check() == z3.unsat

    # fixed point of "the saved transfer's tag is None" per resume state
    fact = {0: False}  # state -> tag definitely None?
    runs = {}
    work = [0]
    while work:
        k = work.pop()
        ex, paths, hyp = run(k, fact[k])
        runs[k] = (ex, paths, hyp)
        for p in paths:
            if p.end != "return":
                continue
            e = _end_state(p)
            if e in (None, 1, 2) or e not in states:
                continue
            d = saved_tag(p)
            none_here = d is not None and valid(ex.assumptions + hyp + p.cond, d == 0)
            new = none_here if e not in fact else (fact[e] and none_here)
            if e not in fact or new != fact[e]:
                fact[e] = new
                work.append(e)
    o.bounds.append("tag of the saved transfer per resume state: " + ", ".join(f"{k}:{'None' if v else 'any'}" for k, v in sorted(fact.items())))

    def replay(mdl):
        cmds = ["scn link_split 2", "scn link_split 3", "scn link_split 4"]
        return cmds, (lambda outs: any(js.get("panic") or not js["one_delivery_id"] or not js["received_intact"] for js in outs))

    n = later = 0
    for k, (ex, paths, hyp) in sorted(runs.items()):
        for i, p in enumerate(paths):
            if p.end != "return":
                continue
            n += 1
            sends = [c for c in p.calls if re.search(r"(^|::)send_transfer$", c[0])]
            for j, c in enumerate(sends):
                if k == 0 and j == 0:
                    continue  # the first frame of the delivery carries the caller's tag
                later += 1
                T = c[1][2] if len(c[1]) > 2 else None
                t = T.get(i_tag) if isinstance(T, mir.Agg) else None
                d = t.get("#d") if isinstance(t, mir.Agg) else None
                if d is None:
                    o.prove(f"state{k}:path{i}:send{j}:continuation-carries-no-tag", ex.assumptions + hyp + p.cond, z3.BoolVal(False), replay=replay)
                else:
                    o.prove(f"state{k}:path{i}:send{j}:continuation-carries-no-tag", ex.assumptions + hyp + p.cond, d == 0, replay=replay)
    o.cover("paths", [z3.BoolVal(n > 0)])
    o.cover("continuation frames seen", [z3.BoolVal(later >= 2)])
    return [o]


REGISTRY.setdefault("C11", []).append(c11_link_splitter)


# ---- C10 / C01: reassembly appends each frame's payload once, at the end, and delivers the whole buffer --------


def c10_reassembly_order(env):
    o = Obligation("c10_reassembly_appends_each_payload_once_at_the_end", "C10")
    o.desc = "Reassembly of a multi-frame delivery: IncompleteTransfer::append puts the payload it is given at the END of the chunk list (one Vec::push of exactly that payload onto self.buffer on every path, no other mutation of the list); ReceiverInner::on_incomplete_transfer and on_complete_transfer hand the frame's own payload to append exactly once when a delivery is being reassembled (or start one with it), and the completed delivery is decoded from the whole chunk list"
    out_fns = []
    f_buf = env.fidx("IncompleteTransfer", "buffer")
    marker = z3.BitVec("payload.identity", 64)

    def payload():
        a = mir.Agg("payload")
        a["@id"] = marker
        return a

    def is_payload(x):
        return isinstance(x, mir.Agg) and x.get("@id") is not None and x.get("@id").eq(marker)

    def replay(m):
        cmds = ["scn e2e 512 0 2048 1200 3 333", "scn e2e 512 16 2048 40 3 9"]
        return cmds, (lambda outs: any(js.get("panic") or not js["intact"] for js in outs))

    # (a) append
    fn = env.fn(r"^incomplete_transfer::<impl at [^>]*>::append$")
    out_fns.append(fn.name)
    ex = env.executor(max_visits=3)
    IT = mir.Agg("incomplete")
    IT[f_buf] = mir.Agg("chunks")
    sn, sn_d, _ = opt_u32("pre.section_number")
    IT[env.fidx("IncompleteTransfer", "section_number")] = sn
    IT[env.fidx("IncompleteTransfer", "section_offset")] = z3.BitVec("pre.section_offset", 64)
    ex.assumptions.append(z3.ULE(sn_d, 1))
    paths = ex.run(fn, {"_1": mir.Ref(("@self",), True), "@self": IT, "_2": payload()})
    n = 0
    for i, p in enumerate(paths):
        if p.end != "return":
            continue
        n += 1
        vec_ops = [c for c in p.calls if re.search(r"^Vec::<(bytes::)?Bytes>::", c[0])]
        pushes = [c for c in vec_ops if re.search(r"::push$", c[0])]
        others = [c for c in vec_ops if not re.search(r"::(push|len|is_empty|capacity)$", c[0])]
        o.prove(f"append:path{i}:one-push-at-the-end", ex.assumptions + p.cond, z3.BoolVal(len(pushes) == 1 and not others), replay=replay)
        for c in pushes:
            tgt = c[1][0]
            on_buffer = isinstance(tgt, mir.Ref) and list(tgt.path)[-1:] == [("f", f_buf)]
            o.prove(f"append:path{i}:onto-the-chunk-list-of-this-delivery", ex.assumptions + p.cond, z3.BoolVal(bool(on_buffer)), replay=replay)
            o.prove(f"append:path{i}:the-payload-it-was-given", ex.assumptions + p.cond, z3.BoolVal(is_payload(c[1][1])), replay=replay)
    o.cover("append paths", [z3.BoolVal(n > 0)])

    # (b) the two handlers
    f_inc = env.fidx("ReceiverInner", "incomplete_transfer")
    for which, pat, is_co in (("on_incomplete_transfer", r"^receiver::<impl at [^>]*>::on_incomplete_transfer$", False), ("on_complete_transfer", r"^receiver::<impl at [^>]*>::on_complete_transfer::\{closure#0\}$", True)):
        fn = env.fn(pat)
        out_fns.append(fn.name)
        ex = env.executor(max_visits=3)
        ex.max_paths = 3000

        def m_take(ex_, st, callee, args, argvals, dty):
            ref = argvals[0]
            if not isinstance(ref, mir.Ref):
                raise mir.Unsupported("Option::take on something that is not a tracked place")
            cont, key = ex_.resolve(st, list(ref.path))
            old = cont.get(key)
            new = mir.Agg("None")
            new["#d"] = z3.BitVecVal(0, 64)
            cont[key] = new
            return old if old is not None else mir.Agg("taken")

        ex.models = [(r"Option::<Box<IncompleteTransfer>>::take$", m_take)]
        R = mir.Agg("receiver")
        inc = mir.Agg("incomplete_transfer")
        inc_d = z3.BitVec(f"{which}.pre.incomplete_transfer.is_some", 64)
        inc["#d"] = inc_d
        R[f_inc] = inc
        hyp0 = [z3.ULE(inc_d, 1)]
        if is_co:
            # arguments of the async fn are the coroutine's first fields: self, transfer, payload
            am = re.search(r"= move \(\(\*_\d+\)\.(\d+): (bytes::)?Bytes\)", "\n".join(t for b in fn.blocks.values() for t in (b[0] + [b[1]])))
            sm = re.search(r"\(\(\*_\d+\)\.(\d+): &mut (link::)?(receiver::)?ReceiverInner<", "\n".join(t for b in fn.blocks.values() for t in (b[0] + [b[1]])))
            if not am or not sm:
                raise mir.Unsupported("arguments of on_complete_transfer not found in the coroutine")
            pin, cor = coroutine_start(env, "@self", {})
            del cor[0]
            cor[int(sm.group(1))] = mir.Ref(("@self",), True)
            cor[int(am.group(1))] = payload()
            paths = ex.run(fn, {"_1": pin, "@cor": cor, "@self": R})
        else:
            paths = ex.run(fn, {"_1": mir.Ref(("@self",), True), "@self": R, "_2": mir.Agg("transfer"), "_3": payload()})
        n = 0
        for i, p in enumerate(paths):
            if p.end != "return" or not isinstance(p.ret, mir.Agg) or "#d" not in p.ret:
                continue
            apps = [c for c in p.calls if re.search(r"IncompleteTransfer::append$", c[0])]
            news = [c for c in p.calls if re.search(r"IncompleteTransfer::new$", c[0])]
            merged = count_calls(p, r"IncompleteTransfer::or_assign$")
            errs = [c for c in p.calls if re.search(r"from_residual$", c[0])]
            if errs:
                continue  # a contradiction reported by or_assign (C10's Kani harness) ends the path
            n += 1
            H = ex.assumptions + hyp0 + p.cond
            if which == "on_incomplete_transfer":
                o.prove(f"{which}:path{i}:payload-recorded-once", H, z3.BoolVal(len(apps) + len(news) == 1), replay=replay)
                o.prove(f"{which}:path{i}:appended-iff-a-delivery-is-buffered", H, z3.BoolVal(len(apps) == 1) == (inc_d == 1), replay=replay)
            else:
                o.prove(f"{which}:path{i}:appended-iff-a-delivery-is-buffered", H, z3.BoolVal(len(apps) == 1) == (inc_d == 1), replay=replay)
                o.prove(f"{which}:path{i}:never-appended-twice", H, z3.BoolVal(len(apps) <= 1 and not news), replay=replay)
            for c in apps:
                o.prove(f"{which}:path{i}:what-is-appended-is-this-frames-payload", H, z3.BoolVal(is_payload(c[1][1]) and merged == 1), replay=replay)
            for c in news:
                o.prove(f"{which}:path{i}:a-new-delivery-starts-with-this-frames-payload", H, z3.BoolVal(is_payload(c[1][1])), replay=replay)
        o.cover(f"{which} paths", [z3.BoolVal(n > 1)])
    o.functions = out_fns
    o.bounds = ["one call of each function (the coroutine through its first poll); a delivery already buffered or not; every path"]
    o.assumes = ["Vec::push appends at the end, Option::take leaves None behind (std contracts); or_assign / the section decoder are C10's other checks"]
    return [o]


REGISTRY.setdefault("C10", []).append(c10_reassembly_order)


# ---- C01 (partial): the order / once / intact kernels along the path of a message ------------------------------
# Each is an obligation of C06/C07/C10/C11 run again under C01's name: C01 itself (all six tasks, every schedule)
# is not decided; what is decided is that each step a message goes through keeps it whole, single and in order.


def _under(gen, prop, frm, to, keep=None):
    def g(env):
        out = []
        for o in gen(env):
            if keep and not re.search(keep, o.name):
                continue
            o.prop = prop
            o.name = o.name.replace(frm, to, 1)
            out.append(o)
        return out

    g.__name__ = gen.__name__ + "@" + prop
    return g


REGISTRY["C01"] = [
    _under(c07_fifo_order, "C01", "c07_", "c01_"),
    _under(c11_link_splitter, "C01", "c11_", "c01_"),
    _under(c06_transfer_split, "C01", "c06_", "c01_"),
    _under(c06_start_send_chunks, "C01", "c06_", "c01_"),
    _under(c10_reassembly_order, "C01", "c10_", "c01_"),
    _under(c10_partial_frame_recorded, "C01", "c10_", "c01_"),
    _under(c10_reader, "C01", "c10_", "c01_"),
]


# ---- C10 / C02: the receiver-side relay in the session loop: forwards every transfer, registers first transfers --


def _find_marker(x, key, depth=0):
    if depth > 6 or not isinstance(x, mir.Agg):
        return False
    if x.get(key) is not None:
        return True
    for k in list(x.keys()):
        if k == key:
            continue
        if _find_marker(x.get(k), key, depth + 1):
            return True
    return False


def _relay_transfer_history(env, prop):
    """LinkRelay<OutputHandle>::on_incoming_transfer (runs in the session loop for every incoming transfer) over a
    history of TWO frames from the state the relay has after attach (more = false). A ghost bit follows the AMQP
    meaning of the frames: a delivery is in progress after a frame with more=true that is not aborted."""
    fwd = Obligation(("c10" if prop == "C10" else prop.lower()) + "_relay_forwards_every_transfer_to_the_link", prop)
    fwd.desc = "LinkRelay::on_incoming_transfer (receiver side, session loop), two frames in a row from the attach state: whenever it reports success the transfer -- aborted or not, first or continuation, whatever the relay remembers about the delivery in progress -- was handed to the link's channel; the link alone decides what an abort discards (c10_abort_discards_the_partial_delivery), a frame filtered here leaves the link's partial delivery in place and the next delivery is spliced onto it"
    reg = Obligation(("c02" if prop == "C02" else prop.lower()) + "_first_transfer_of_a_delivery_is_made_routable", prop)
    reg.desc = "same function, same two-frame histories: on a link that settles second, a non-settled transfer that STARTS a delivery (no delivery in progress: the previous frame had more=false or was aborted) and carries delivery-id and tag yields the routing entry (delivery-id, tag) the session stores for the sender's settling disposition -- without it that disposition is dropped and the receiver keeps the delivery unsettled for good"
    fn = env.fn(r"^link::<impl at [^>]*>::on_incoming_transfer::\{closure#0\}$", sig=r"LinkRelay<(endpoint::)?OutputHandle>")
    LR = env.enums.get("LinkRelay")
    RSM = env.enums.get("ReceiverSettleMode")
    if not LR or not RSM:
        raise mir.Unsupported("LinkRelay / ReceiverSettleMode layout not found")
    i_id, i_tag, i_settled, i_more, i_ab = (env.fidx("Transfer", f) for f in ("delivery_id", "delivery_tag", "settled", "more", "aborted"))
    # fields of the Receiver variant, by the order in the source
    rv_fields = env.variant_fields("LinkRelay", "Receiver") if hasattr(env, "variant_fields") else None
    txt = "\n".join(t for b in fn.blocks.values() for t in (b[0] + [b[1]]))
    m_more = re.search(r"as Receiver\)\.(\d+): bool\)", txt)
    m_mode = re.search(r"as Receiver\)\.(\d+): [\w:]*ReceiverSettleMode\)", txt)
    if not m_more or not m_mode:
        raise mir.Unsupported("Receiver relay fields not found")
    f_more, f_mode = int(m_more.group(1)), int(m_mode.group(1))
    am = re.search(r"move \(\(\*_\d+\)\.(\d+): [\w:]*Transfer\)", txt)
    sm = re.search(r"move \(\(\*_\d+\)\.(\d+): &mut (link::)?LinkRelay<", txt)
    pm = re.search(r"move \(\(\*_\d+\)\.(\d+): (bytes::)?Bytes\)", txt)
    if not am or not sm or not pm:
        raise mir.Unsupported("arguments of LinkRelay::on_incoming_transfer not found in the coroutine")
    fwd.functions = reg.functions = [fn.name]
    bounds = ["histories of two frames from the attach state (relay.more = false); every combination of delivery-id / tag / settled present or absent, more, aborted, rcv-settle-mode; the channel send ready (Ok or Err) at the first poll"]
    fwd.bounds = reg.bounds = bounds
    fwd.assumes = reg.assumes = ["tokio mpsc Sender::send delivers the value it is given when it returns Ok; Option::clone keeps presence"]
    mode_d = z3.BitVec("relay.rcv_settle_mode", 64)
    hyp0 = [z3.Or(*[mode_d == v for v in RSM.values()])]

    def frame(k):
        T = mir.Agg("Transfer")
        T["@frame"] = k
        v = {}
        for nm, idx in (("id", i_id), ("tag", i_tag), ("settled", i_settled)):
            a = mir.Agg("Option")
            v[nm] = z3.BitVec(f"frame{k}.{nm}.is_some", 64)
            a["#d"] = v[nm]
            sub = mir.Agg("Some")
            if nm == "id":
                v["id_val"] = BV32(f"frame{k}.delivery_id")
                sub[0] = v["id_val"]
            elif nm == "settled":
                v["settled_val"] = z3.Bool(f"frame{k}.settled")
                sub[0] = v["settled_val"]
            else:
                sub[0] = mir.Agg("tag")
            a[("as", "Some")] = sub
            T[idx] = a
            hyp0.append(z3.ULE(v[nm], 1))
        v["more"], v["aborted"] = z3.Bool(f"frame{k}.more"), z3.Bool(f"frame{k}.aborted")
        T[i_more], T[i_ab] = v["more"], v["aborted"]
        return T, v

    def m_clone_opt(ex_, st, callee, args, argvals, dty):
        x = argvals[0]
        k_ = 0
        while isinstance(x, mir.Ref) and k_ < 4:
            cont, key = ex_.resolve(st, list(x.path))
            x = cont.get(key)
            k_ += 1
        if not (isinstance(x, mir.Agg) and "#d" in x):
            return None
        c = mir.Agg("Option")
        c["#d"] = x["#d"]
        if ("as", "Some") in x:
            c[("as", "Some")] = x[("as", "Some")]
        return c

    def step(k, relay, cond):
        ex = env.executor(max_visits=3)
        ex.max_paths = 3000
        ex.models = [(r"^<(std::option::)?Option<(serde_bytes::(bytebuf::)?)?ByteBuf> as Clone>::clone$", m_clone_opt)]
        T, v = frame(k)
        cor = mir.Agg("coroutine")
        cor["#d"] = z3.BitVecVal(0, 64)
        cor[int(sm.group(1))] = mir.Ref(("@relay",), True)
        cor[int(am.group(1))] = T
        cor[int(pm.group(1))] = mir.Agg("payload")
        pin = mir.Agg("pin")
        pin[0] = mir.Ref(("@cor",), True)
        paths = ex.run(fn, {"_1": pin, "@cor": cor, "@relay": relay}, cond=cond)
        return ex, paths, v

    def new_relay():
        relay = mir.Agg("relay")
        relay["#d"] = z3.BitVecVal(LR["Receiver"], 64)
        r = mir.Agg("Receiver")
        md = mir.Agg("ReceiverSettleMode")
        md["#d"] = mode_d
        r[f_mode] = md
        r[f_more] = z3.BoolVal(False)
        relay[("as", "Receiver")] = r
        return relay

    def replay_fwd(m):
        return "scn abort_then_next 0", (lambda js: js.get("panic") or not js["next_delivery_intact"])

    def replay_reg(m):
        return "scn abort_then_next 1", (lambda js: js.get("panic") or not js["next_delivery_intact"] or js["left_unsettled"] != 0)

    def goals(k, ex, p, v, ghost, hyps):
        rdy, is_ok = poll_ready_result(p.ret)
        if is_ok is None:
            return False
        H = ex.assumptions + hyp0 + hyps + p.cond + [rdy, is_ok]
        s = z3.Solver()
        s.add(*H)
        if s.check() != z3.sat:
            return False
        sends = [c for c in p.calls if re.search(r"mpsc::(bounded::)?Sender::<.*LinkFrame>::send$", c[0])]
        handed = [c for c in sends if len(c[1]) > 1 and _find_marker(c[1][1], "@frame")]
        fwd.prove(f"frame{k}:path{p.idx}:forwarded-to-the-link", H, z3.BoolVal(len(handed) == 1), replay=replay_fwd)
        okv = p.ret[("as", "Ready")][0].get(("as", "Ok"))
        opt = okv.get(0) if isinstance(okv, mir.Agg) else None
        out_d = opt.get("#d") if isinstance(opt, mir.Agg) else None
        unsettled = z3.Not(z3.And(v["settled"] == 1, v["settled_val"]))
        starts = z3.And(z3.Not(ghost), unsettled, mode_d == RSM["Second"], v["id"] == 1, v["tag"] == 1)
        if out_d is None:
            reg.prove(f"frame{k}:path{p.idx}:routing-entry-for-a-first-transfer", H + [starts], z3.BoolVal(False), replay=replay_reg)
        else:
            some = opt.get(("as", "Some"))
            tup = some.get(0) if isinstance(some, mir.Agg) else None
            idv = tup.get(0) if isinstance(tup, mir.Agg) else None
            g = out_d == 1
            if idv is not None and z3.is_bv(idv):
                g = z3.And(g, idv == v["id_val"])
            reg.prove(f"frame{k}:path{p.idx}:routing-entry-for-a-first-transfer", H + [starts], g, replay=replay_reg)
        return True

    n1 = n2 = 0
    ex1, paths1, v1 = step(1, new_relay(), [])
    for i, p in enumerate(paths1):
        p.idx = i
        if p.end != "return" or not isinstance(p.ret, mir.Agg):
            continue
        if not goals(1, ex1, p, v1, z3.BoolVal(False), []):
            continue
        n1 += 1
        rdy, is_ok = poll_ready_result(p.ret)
        ghost2 = z3.And(v1["more"], z3.Not(v1["aborted"]))
        relay2 = p.locals.get("@relay")
        if not isinstance(relay2, mir.Agg):
            raise mir.Unsupported("relay state lost")
        ex2, paths2, v2 = step(2, relay2, ex1.assumptions + p.cond + [rdy, is_ok])
        for j, q in enumerate(paths2):
            q.idx = f"{i}.{j}"
            if q.end != "return" or not isinstance(q.ret, mir.Agg):
                continue
            if goals(2, ex2, q, v2, ghost2, []):
                n2 += 1
    for o_ in (fwd, reg):
        o_.cover("first-frame paths", [z3.BoolVal(n1 > 1)])
        o_.cover("second-frame paths", [z3.BoolVal(n2 > 1)])
    return fwd, reg


def c10_relay_forwards(env):
    return [_relay_transfer_history(env, "C10")[0]]


def c02_relay_registers(env):
    return [_relay_transfer_history(env, "C02")[1]]


REGISTRY.setdefault("C10", []).append(c10_relay_forwards)
REGISTRY.setdefault("C02", []).append(c02_relay_registers)


# ---- C06: the payload of an incoming transfer is exactly what follows the performative in the frame ------------


def c06_incoming_payload(env):
    o = Obligation("c06_incoming_payload_is_what_follows_the_performative", "C06")
    o.desc = "FrameDecoder::decode, transfer frames: the payload handed on is the bytes that are left in the frame buffer AFTER the deserializer has consumed the performative -- however the peer chose to encode it (non-compact widths, trailing defaults written out) -- i.e. it is split off the source buffer after the deserializer ran, with nothing advanced or truncated in between, and its length is what remained; locating the payload by any other measure (e.g. the length this crate would use to re-encode the performative) shifts it"
    fn = env.fn(r"^amqp::<impl at fe2o3-amqp/src/frames/amqp\.rs[^>]*>::decode$")
    o.functions = [fn.name]
    o.bounds = ["frame length: every value < 2^32; header bytes symbolic; the deserializer consumes any prefix of what remains; one decode call"]
    o.assumes = ["BytesMut::split / split_to / split_off / freeze / Into<Bytes> per their documented contract; the reader the deserializer works on consumes from the source buffer it borrows (Buf::reader)"]
    FB = env.enums.get("FrameBody")
    if not FB or "Transfer" not in FB:
        raise mir.Unsupported("FrameBody layout not found")
    ex = env.executor(max_visits=4)
    R0 = BV64("frame.len")

    def world(st):
        return st.locals["@world"]

    def is_src(ex_, st, x):
        return isinstance(x, mir.Ref) and tuple(x.path)[:1] == ("@src",)

    def piece(st, length, from_src):
        w = world(st)
        a = mir.Agg("bytes")
        a["@len"] = length
        a["@after_deser"] = w["deser"]
        a["@rem_after_deser"] = w["rem_after_deser"]
        a["@from_src"] = from_src
        a["@touched"] = False
        return a

    def m_len(ex_, st, callee, args, argvals, dty):
        return world(st)["rem"] if is_src(ex_, st, argvals[0]) else None

    def m_is_empty(ex_, st, callee, args, argvals, dty):
        return (world(st)["rem"] == 0) if is_src(ex_, st, argvals[0]) else None

    def m_get(ex_, st, callee, args, argvals, dty):
        m = re.search(r"::get_([ui])(\d+)(_le|_ne)?$", callee)
        bits = int(m.group(2))
        if is_src(ex_, st, argvals[0]):
            w = world(st)
            w["rem"] = w["rem"] - bits // 8
        ex_.ctx.n += 1
        return z3.BitVec(f"hdr.{ex_.ctx.n}.u{bits}", bits)

    def deref(ex_, st, x):
        k = 0
        while isinstance(x, mir.Ref) and k < 4:
            cont, key = ex_.resolve(st, list(x.path))
            x = cont.get(key)
            k += 1
        return x

    def m_advance(ex_, st, callee, args, argvals, dty):
        if is_src(ex_, st, argvals[0]):
            w = world(st)
            w["rem"] = w["rem"] - argvals[1]
        else:
            t = deref(ex_, st, argvals[0])
            if isinstance(t, mir.Agg) and "@len" in t:
                t["@touched"] = True
        return mir.Agg("unit")

    def m_split_to(ex_, st, callee, args, argvals, dty):
        if not is_src(ex_, st, argvals[0]):
            return None
        w = world(st)
        w["rem"] = w["rem"] - argvals[1]
        a = piece(st, argvals[1], True)
        a["@touched"] = True  # a prefix of chosen length is not "what remains"
        return a

    def m_split(ex_, st, callee, args, argvals, dty):
        if not is_src(ex_, st, argvals[0]):
            return None
        w = world(st)
        a = piece(st, w["rem"], True)
        w["rem"] = z3.BitVecVal(0, 64)
        return a

    def m_truncate(ex_, st, callee, args, argvals, dty):
        if is_src(ex_, st, argvals[0]):
            w = world(st)
            w["rem"] = z3.If(z3.ULT(argvals[1], w["rem"]), argvals[1], w["rem"])
        else:
            t = deref(ex_, st, argvals[0])
            if isinstance(t, mir.Agg) and "@len" in t:
                t["@touched"] = True
        return mir.Agg("unit")

    def m_pass(ex_, st, callee, args, argvals, dty):
        x = deref(ex_, st, argvals[0])
        if isinstance(x, mir.Agg) and "@len" in x:
            c = mir.Agg("bytes")
            for k in ("@len", "@after_deser", "@rem_after_deser", "@from_src", "@touched"):
                c[k] = x[k]
            return c
        return None

    def m_deser(ex_, st, callee, args, argvals, dty):
        w = world(st)
        r2 = z3.BitVec(f"rem.after.deserialize#{ex_.ctx.n}", 64)
        ex_.ctx.n += 1
        ex_.assumptions.append(z3.ULE(r2, w["rem"]))
        # the reader consumes from the buffer it was built on: the source buffer, if that is what was borrowed
        if w["reader_on_src"]:
            w["rem"] = r2
        w["rem_after_deser"] = r2
        w["deser"] = w["deser"] + 1
        r = mir.Agg("Result")
        ex_.new_discr(st, r, "Result")
        okv = mir.Agg("Ok")
        okv[0] = mir.Agg("value")
        r[("as", "Ok")] = okv
        return r

    def m_reader(ex_, st, callee, args, argvals, dty):
        world(st)["reader_on_src"] = is_src(ex_, st, argvals[0])
        return mir.Agg("opaque")

    def m_keep(ex_, st, callee, args, argvals, dty):
        return mir.Agg("opaque")

    ex.models = [
        (r"^BytesMut::len$|as Buf>::remaining$", m_len),
        (r"^BytesMut::is_empty$", m_is_empty),
        (r"as Buf>::get_[ui](8|16|32|64)(_le|_ne)?$", m_get),
        (r"as Buf>::advance$", m_advance),
        (r"^BytesMut::split_to$", m_split_to),
        (r"^BytesMut::split$", m_split),
        (r"^BytesMut::truncate$|^BytesMut::clear$|^(bytes::)?Bytes::truncate$", m_truncate),
        (r"^BytesMut::freeze$|<BytesMut as Into<(bytes::)?Bytes>>::into$|<(bytes::)?Bytes as From<BytesMut>>::from$|<(bytes::)?Bytes as Clone>::clone$", m_pass),
        (r"as Buf>::reader$", m_reader),
        (r"^IoReader::<.*>::new$|Deserializer::<.*>::new$", m_keep),
        (r"as Deserialize<'_>>::deserialize::<", m_deser),
    ]
    w = mir.Agg("world")
    w["rem"], w["deser"], w["rem_after_deser"], w["reader_on_src"] = R0, 0, None, False
    paths = ex.run(fn, {"_1": mir.Ref(("@dec",), True), "@dec": mir.Agg("decoder"), "_2": mir.Ref(("@src",), True), "@src": mir.Agg("src"), "@world": w})
    hyp = ex.assumptions + [z3.ULT(R0, 1 << 32), z3.UGE(R0, 4)]

    def replay(m):
        return "noncompact_transfer", (lambda js: js.get("panic") or not js["payload_intact"])

    n = 0
    for i, p in enumerate(paths):
        if p.end != "return" or not isinstance(p.ret, mir.Agg):
            continue
        okv = p.ret.get(("as", "Ok"))
        opt = okv.get(0) if isinstance(okv, mir.Agg) else None
        some = opt.get(("as", "Some")) if isinstance(opt, mir.Agg) else None
        frame = some.get(0) if isinstance(some, mir.Agg) else None
        if not isinstance(frame, mir.Agg):
            continue
        body = None
        for k in list(frame.keys()):
            v = frame.get(k)
            if isinstance(v, mir.Agg) and "#d" in v and ("as", "Transfer") in v:
                body = v
        if body is None:
            continue
        d = z3.simplify(body["#d"])
        if not (z3.is_bv_value(d) and d.as_long() == FB["Transfer"]):
            continue
        H = hyp + p.cond + [p.ret["#d"] == 0]
        s = z3.Solver()
        s.add(*H)
        if s.check() != z3.sat:
            continue
        n += 1
        tr = body[("as", "Transfer")]
        pay = None
        for k in list(tr.keys()):
            v = tr.get(k)
            if isinstance(v, mir.Agg) and "@len" in v:
                pay = v
        if pay is None:
            o.prove(f"path{i}:payload-is-taken-from-the-frame-buffer", H, z3.BoolVal(False), replay=replay)
            continue
        o.prove(f"path{i}:payload-is-split-off-the-frame-buffer-after-the-performative-was-read", H, z3.BoolVal(bool(pay["@from_src"]) and pay["@after_deser"] == 1 and not pay["@touched"]), replay=replay)
        if pay["@rem_after_deser"] is not None:
            o.prove(f"path{i}:payload-length-is-what-the-deserializer-left", H, pay["@len"] == pay["@rem_after_deser"], replay=replay)
    o.cover("transfer paths", [z3.BoolVal(n > 0)])
    return [o]


REGISTRY.setdefault("C06", []).append(c06_incoming_payload)


# ---- C18: what a discharge does: commit unless the controller says the work failed; unknown ids refused ---------


def c18_discharge(env):
    o = Obligation("c18_a_discharge_commits_unless_it_says_fail", "C18")
    o.desc = "TxnCoordinator::on_discharge (listener side, one control-link delivery): an id this control link did not declare (or already discharged: the id is removed from the link's set by the same call) is refused with unknown-id and neither commit nor rollback is started; otherwise rollback_transaction is started exactly when the discharge says fail=true and commit_transaction exactly when it says fail=false OR LEAVES THE FIELD OUT (AMQP 4.5.5: the flag requests a rollback only if set), never both; the coordinator's answer is the result of that call"
    fn = env.fn(r"^coordinator::<impl at [^>]*>::on_discharge::\{closure#0\}$")
    o.functions = [fn.name]
    o.bounds = ["coroutine body from its initial state through one poll; the fail field absent / false / true; the id known or unknown to the link; the inner future ready or pending"]
    o.assumes = ["HashSet::remove returns whether the id was present (std contract); commit_transaction / rollback_transaction are the session-side steps (c18_* on TxnSession)"]
    i_fail = env.fidx("Discharge", "fail")
    txt = "\n".join(t for b in fn.blocks.values() for t in (b[0] + [b[1]]))
    am = re.search(r"\(\(\*_\d+\)\.(\d+): &[\w:]*Discharge\)", txt)
    sm = re.search(r"\(\(\*_\d+\)\.(\d+): &mut [\w:]*TxnCoordinator\)", txt)
    if not am or not sm:
        raise mir.Unsupported("arguments of on_discharge not found in the coroutine")
    ex = env.executor(max_visits=3)
    known = z3.Bool("the id was declared on this link and not yet discharged")

    def m_remove(ex_, st, callee, args, argvals, dty):
        return known

    ex.models = [(r"^HashSet::<.*>::remove::<", m_remove)]
    D = mir.Agg("discharge")
    fo = mir.Agg("Option<bool>")
    f_d = z3.BitVec("discharge.fail.is_some", 64)
    f_v = z3.Bool("discharge.fail")
    fo["#d"] = f_d
    sub = mir.Agg("Some")
    sub[0] = f_v
    fo[("as", "Some")] = sub
    D[i_fail] = fo
    cor = mir.Agg("coroutine")
    cor["#d"] = z3.BitVecVal(0, 64)
    cor[int(sm.group(1))] = mir.Ref(("@self",), True)
    cor[int(am.group(1))] = mir.Ref(("@dis",), False)
    pin = mir.Agg("pin")
    pin[0] = mir.Ref(("@cor",), True)
    paths = ex.run(fn, {"_1": pin, "@cor": cor, "@self": mir.Agg("coordinator"), "@dis": D})
    hyp = ex.assumptions + [z3.ULE(f_d, 1)]

    def replay(m):
        cmds = ["scn txn_discharge 2", "scn txn_discharge 0", "scn txn_discharge 1"]
        return cmds, (lambda outs: any(js.get("panic") or not js["as_expected"] for js in outs))

    n = 0
    says_fail = z3.And(f_d == 1, f_v)
    for i, p in enumerate(paths):
        if p.end != "return":
            continue
        H = hyp + p.cond
        s = z3.Solver()
        s.add(*H)
        if s.check() != z3.sat:
            continue
        n += 1
        commits = count_calls(p, r"(^|::)commit_transaction$")
        rollbacks = count_calls(p, r"(^|::)rollback_transaction$")
        o.prove(f"path{i}:unknown-id-starts-nothing", H + [z3.Not(known)], z3.BoolVal(commits + rollbacks == 0), replay=replay)
        o.prove(f"path{i}:known-id-starts-exactly-one", H + [known], z3.BoolVal(commits + rollbacks == 1), replay=replay)
        o.prove(f"path{i}:rollback-iff-fail-is-set-and-true", H + [known], z3.BoolVal(rollbacks == 1) == says_fail, replay=replay)
        o.prove(f"path{i}:commit-iff-fail-is-false-or-absent", H + [known], z3.BoolVal(commits == 1) == z3.Not(says_fail), replay=replay)
        rdy, is_ok = poll_ready_result(p.ret) if isinstance(p.ret, mir.Agg) and "#d" in p.ret else (None, None)
        if rdy is not None and is_ok is not None:
            o.prove(f"path{i}:unknown-id-is-refused", H + [z3.Not(known), rdy], z3.Not(is_ok), replay=replay)
    o.cover("paths", [z3.BoolVal(n > 2)])
    return [o]


REGISTRY.setdefault("C18", []).append(c18_discharge)


# ---- C14: the error carried by the peer's end is what the links of that session learn -------------------------


def c14_end_error_wins(env):
    o = Obligation("c14_the_peers_end_error_is_what_the_links_learn", "C14")
    o.desc = "SessionEngine::on_incoming, End arm: when the peer's end moves the session to END_RCVD the stop reason published to the links (before their channel is closed) is RemoteEndedWithError(the peer's error) whenever the end carries an error -- whatever the connection has recorded in the meantime (the peer's close or a cut transport may follow the end back-to-back and be processed by the connection engine first) --; without an error it is the connection's reason if one is recorded, else RemoteEnded; the reason is stored before the links' channel is closed"
    fn = env.fn(r"^session::engine::<impl at [^>]*>::on_incoming::\{closure#0\}$")
    o.functions = [fn.name]
    o.bounds = ["coroutine body from its initial state through one poll with an End frame; error present or absent; every result of on_incoming_end, local_state and OnceLock::get"]
    o.assumes = ["OnceLock::get returns the recorded connection stop reason, if any; SessionStopReason::from(ConnectionStopReason) is ConnectionStopped"]
    SR = env.enums["SessionStopReason"]
    SFB = env.enums.get("SessionFrameBody")
    if not SFB or "End" not in SFB:
        raise mir.Unsupported("SessionFrameBody layout not found")
    txt = "\n".join(t for b in fn.blocks.values() for t in (b[0] + [b[1]]))
    am = re.search(r"move \(\(\*_\d+\)\.(\d+): (session::frame::)?SessionFrame\)", txt)
    sm = re.search(r"move \(\(\*_\d+\)\.(\d+): &mut (session::engine::)?SessionEngine<", txt)
    if not am or not sm:
        raise mir.Unsupported("arguments of SessionEngine::on_incoming not found in the coroutine")
    i_body = env.fidx("SessionFrame", "body")
    i_err = env.fidx("End", "error")
    err_d = z3.BitVec("end.error.is_some", 64)

    def m_from(ex_, st, callee, args, argvals, dty):
        r = mir.Agg("SessionStopReason::ConnectionStopped")
        r["#d"] = z3.BitVecVal(SR["ConnectionStopped"], 64)
        return r

    def m_clone_opt(ex_, st, callee, args, argvals, dty):
        x = argvals[0]
        k_ = 0
        while isinstance(x, mir.Ref) and k_ < 4:
            cont, key = ex_.resolve(st, list(x.path))
            x = cont.get(key)
            k_ += 1
        if not (isinstance(x, mir.Agg) and "#d" in x):
            return None
        c = mir.Agg("Option")
        c["#d"] = x["#d"]
        if ("as", "Some") in x:
            c[("as", "Some")] = x[("as", "Some")]
        return c

    got_d = z3.BitVec("connection_stop_reason.is_recorded", 64)

    def m_get(ex_, st, callee, args, argvals, dty):
        r = mir.Agg("Option<&ConnectionStopReason>")
        r["#d"] = got_d
        sub = mir.Agg("Some")
        sub[0] = mir.Ref(("@csr",), False)
        r[("as", "Some")] = sub
        return r

    ex = env.executor(max_visits=2)
    ex.max_paths = 4000
    ex.stop_calls = r"^std::future::poll_fn::<"
    ex.models = [
        (r"^<(link::error::)?SessionStopReason as From<(connection::)?ConnectionStopReason>>::from$", m_from),
        (r"^<(std::option::)?Option<(fe2o3_amqp_types::)?(definitions::)?Error> as Clone>::clone$", m_clone_opt),
        (r"^OnceLock::<(connection::)?ConnectionStopReason>::get$", m_get),
    ]
    F = mir.Agg("SessionFrame")
    body = mir.Agg("SessionFrameBody")
    body["#d"] = z3.BitVecVal(SFB["End"], 64)
    E = mir.Agg("End")
    eo = mir.Agg("Option<Error>")
    eo["#d"] = err_d
    sub = mir.Agg("Some")
    sub[0] = mir.Agg("the peer's error")
    sub[0]["@peer_error"] = True
    eo[("as", "Some")] = sub
    E[i_err] = eo
    v = mir.Agg("End(..)")
    v[0] = E
    body[("as", "End")] = v
    F[i_body] = body
    cor = mir.Agg("coroutine")
    cor["#d"] = z3.BitVecVal(0, 64)
    cor[int(sm.group(1))] = mir.Ref(("@engine",), True)
    cor[int(am.group(1))] = F
    pin = mir.Agg("pin")
    pin[0] = mir.Ref(("@cor",), True)
    paths = ex.run(fn, {"_1": pin, "@cor": cor, "@engine": mir.Agg("engine"), "@csr": mir.Agg("csr")})
    hyp = ex.assumptions + [z3.ULE(err_d, 1), z3.ULE(got_d, 1)]

    def replay(m):
        cmds = ["scn stop_reason end_err_close", "scn stop_reason end_err"]
        return cmds, (lambda outs: any(js.get("panic") or not js["as_expected"] for js in outs))

    n = 0
    for i, p in enumerate(paths):
        names = [c[0] for c in p.calls]
        sets = [j for j, c in enumerate(names) if re.search(r"Session>::set_session_stop_reason$", c)]
        if not sets:
            continue
        H = hyp + p.cond
        s = z3.Solver()
        s.add(*H)
        if s.check() != z3.sat:
            continue
        n += 1
        reason = p.calls[sets[0]][1][1]
        rd = reason.get("#d") if isinstance(reason, mir.Agg) else None
        if rd is None:
            o.prove(f"path{i}:the-reason-is-a-known-variant", H, z3.BoolVal(False), replay=replay)
            continue
        o.prove(f"path{i}:the-peers-error-wins", H + [err_d == 1], rd == SR["RemoteEndedWithError"], replay=replay)
        if isinstance(rd, int) or z3.is_bv(rd):
            carried = reason.get(("as", "RemoteEndedWithError"))
            inner = carried.get(0) if isinstance(carried, mir.Agg) else None
            o.prove(f"path{i}:and-it-is-the-peers-error-that-is-carried", H + [err_d == 1], z3.BoolVal(isinstance(inner, mir.Agg) and inner.get("@peer_error") is True), replay=replay)
        o.prove(f"path{i}:no-error-and-nothing-recorded-is-a-plain-remote-end", H + [err_d == 0, got_d == 0], rd == SR["RemoteEnded"], replay=replay)
        o.prove(f"path{i}:no-error-but-a-recorded-connection-stop-is-reported", H + [err_d == 0, got_d == 1], rd == SR["ConnectionStopped"], replay=replay)
        closes = [j for j, c in enumerate(names) if re.search(r"mpsc::(bounded::)?Receiver::<.*>::close$", c)]
        o.prove(f"path{i}:stored-before-the-links-channel-is-closed", H, z3.BoolVal(not closes or sets[0] < closes[0]), replay=replay)
    o.cover("paths that publish a reason", [z3.BoolVal(n > 0)])
    return [o]


REGISTRY.setdefault("C14", []).append(c14_end_error_wins)


# ---- C19: the listener leaves the SASL layer only after it has sent an OK outcome --------------------------


def c19_listener_leaves_sasl_only_after_ok(env):
    o = Obligation("c19_listener_starts_amqp_only_after_an_ok_outcome", "C19")
    o.desc = "ConnectionAcceptor::negotiate_sasl_with_framed (listener with a SASL mechanism): on every path that leaves the SASL exchange for the AMQP header exchange (Transport::into_framed_codec / negotiate_amqp_with_framed) the code of the outcome that was just sent is OK -- there is no other way out of the exchange: not a bound on the number of frames, not an unexpected frame, not a challenge --; and the code that is tested is the code of the outcome frame handed to the transport"
    fn = env.fn(r"^acceptor::connection::<impl at [^>]*>::negotiate_sasl_with_framed::\{closure#0\}$")
    o.functions = [fn.name]
    states = _coroutine_states(fn)
    o.bounds = [f"coroutine body from every resume state {states} through one poll; loops unrolled 2 times per poll; every result of every await and of the mechanism's on_init / on_response"]
    o.assumes = ["the mechanism's verdict is C19's other checks (PLAIN: Kani; SCRAM: c19_scram_*); SaslCode::clone copies"]
    SC = env.enums.get("SaslCode")
    if not SC or "Ok" not in SC:
        raise mir.Unsupported("SaslCode layout not found")
    i_code = env.fidx("SaslOutcome", "code")
    txt = "\n".join(t for b in fn.blocks.values() for t in (b[0] + [b[1]]))
    pm = re.search(r"discriminant\((\(\(\(\*_\d+\) as variant#\d+\)\.\d+: [\w:]*SaslCode\))\)", txt)
    if not pm:
        # the loop exit does not test a SaslCode at all
        code_place = None
    else:
        code_place = pm.group(1)

    def m_clone(ex_, st, callee, args, argvals, dty):
        x = argvals[0]
        k_ = 0
        while isinstance(x, mir.Ref) and k_ < 4:
            cont, key = ex_.resolve(st, list(x.path))
            x = cont.get(key)
            k_ += 1
        if isinstance(x, mir.Agg) and "#d" in x:
            c = mir.Agg("SaslCode")
            c["#d"] = x["#d"]
            return c
        return None

    models = [(r"^<(fe2o3_amqp_types::)?(sasl::)?SaslCode as Clone>::clone$", m_clone)]

    def replay(m):
        return "sasl_repeated_init 32", (lambda js: js.get("panic") or not js["never_opened"])

    n = sends_seen = 0
    for k in states:
        ex, paths = _run_from_state(env, fn, k, models=models, max_visits=2, stop=None)
        for i, p in enumerate(paths):
            names = [c[0] for c in p.calls]
            leaves = [j for j, c in enumerate(names) if re.search(r"::into_framed_codec$|negotiate_amqp_with_framed::<", c)]
            H = ex.assumptions + p.cond
            # the code tested is the code of the outcome handed to the transport (segments that build the frame)
            for j, c in enumerate(p.calls):
                if not re.search(r"SinkExt<(frames::sasl::)?Frame>>::send$", c[0]) or len(c[1]) < 2:
                    continue
                fr = c[1][1]
                oc = fr.get(("as", "Outcome")) if isinstance(fr, mir.Agg) else None
                out = oc.get(0) if isinstance(oc, mir.Agg) else None
                cd = out.get(i_code) if isinstance(out, mir.Agg) else None
                if not (isinstance(cd, mir.Agg) and "#d" in cd) or code_place is None:
                    continue
                s = z3.Solver()
                s.add(*(H + [fr["#d"] == env.enums["frames::sasl::Frame"]["Outcome"]] if "frames::sasl::Frame" in env.enums else H))
                if s.check() != z3.sat:
                    continue
                try:
                    saved = ex.read_place(p, code_place)
                except Exception:  # noqa: BLE001
                    saved = None
                if isinstance(saved, mir.Agg) and "#d" in saved and leaves:
                    sends_seen += 1
                    o.prove(f"state{k}:path{i}:the-code-tested-is-the-code-sent", H, saved["#d"] == cd["#d"], replay=replay)
            if not leaves:
                continue
            s = z3.Solver()
            s.add(*H)
            if s.check() != z3.sat:
                continue
            n += 1
            if code_place is None:
                o.prove(f"state{k}:path{i}:leaves-sasl-only-after-an-ok-outcome", H, z3.BoolVal(False), replay=replay)
                continue
            try:
                saved = ex.read_place(p, code_place)
            except Exception:  # noqa: BLE001
                saved = None
            if not (isinstance(saved, mir.Agg) and "#d" in saved):
                o.prove(f"state{k}:path{i}:leaves-sasl-only-after-an-ok-outcome", H, z3.BoolVal(False), replay=replay)
            else:
                o.prove(f"state{k}:path{i}:leaves-sasl-only-after-an-ok-outcome", H, saved["#d"] == SC["Ok"], replay=replay)
    o.cover("paths that leave the SASL exchange", [z3.BoolVal(n > 0)])
    return [o]


REGISTRY.setdefault("C19", []).append(c19_listener_leaves_sasl_only_after_ok)


# ---- C08 / C09 / C16: frame condition of the credit accounting -- who writes link-credit and delivery-count ------


_CREDIT_WRITERS = [
    # the single-step behaviour of each of these is decided by a C08 / C09 harness or obligation
    r"^state::<impl at [^>]*>::on_incoming_flow$",  # sender and receiver: c08_sender_on_incoming_flow / c09_receiver_on_incoming_flow
    r"^state::<impl at [^>]*>::consume$",  # receiver: c09_receiver_consume
    r"^state::<impl at [^>]*>::try_consume$",  # sender: c08 try_consume
    r"^consume_link_credit$",  # sender: c08_lost_wakeup
    r"^state::<impl at [^>]*>::delivery_count_mut$",  # closure-based; its callers are listed below
    r"^receiver::<impl at [^>]*>::refresh_credit_if_needed(::\{closure#\d+\})*$",  # c09 top-up
    r"^receiver_link::<impl at [^>]*>::get_link_flow$",  # c09 flows report the state
]
_CREDIT_MUT_CALLERS = [r"^receiver_link::<impl at [^>]*>::on_incoming_attach(::\{closure#\d+\})*$", r"^verif_facade::"]


def _credit_state_writers(env, prop):
    o = Obligation(f"{prop.lower()}_the_credit_state_has_no_undecided_writer", prop)
    o.desc = "frame condition of the credit accounting: every function of the crate (Drop impls and closures included, cleanup blocks too) that assigns link-credit or delivery-count of a LinkFlowStateInner, or calls the closure-based delivery_count_mut, is one of the step functions whose behaviour C08 / C09 decide -- so no destructor, guard or helper outside them can create, refund or lose credit (e.g. when a pending send or recv is dropped)"
    i_dc, i_lc = env.fidx("LinkFlowStateInner", "delivery_count"), env.fidx("LinkFlowStateInner", "link_credit")
    o.bounds = [f"all {len(env.fns)} MIR functions of fe2o3-amqp (features acceptor, transaction, scram); field assignments through any local whose type mentions LinkFlowStateInner"]
    o.assumes = ["the flow state is only reachable through LinkFlowStateInner (no raw pointers; the crate forbids unsafe)"]
    writers, callers = [], []
    for name, fn in env.fns.items():
        if name.startswith("verif_facade::"):
            continue
        locs = {l for l, t in fn.decls.items() if "LinkFlowStateInner" in t}
        hit = False
        for bb, (stmts, term) in fn.blocks.items():
            for s in stmts:
                m = re.match(r"\s*\(\(?\*?(_\d+)\)?\.(\d+): u32\) = ", s)
                if m and m.group(1) in locs and int(m.group(2)) in (i_dc, i_lc):
                    hit = True
            if re.search(r"LinkFlowState::<.*>::delivery_count_mut::<|::delivery_count_mut::<", term or ""):
                callers.append(name)
        if hit:
            writers.append(name)
    o.functions = sorted(writers)

    def replay(m):
        cmds = ["scn cancel_send_no_credit", "scn cancel_send_credit"]
        return cmds, (lambda outs: bool(outs[0].get("panic")) or outs[0]["transfers_without_credit"] > 0 or outs[0]["sends_completed"] > 0)

    for w in sorted(set(writers)):
        o.prove(f"writer:{_short_callee(w)}", [], z3.BoolVal(any(re.search(p, w) for p in _CREDIT_WRITERS)), replay=replay)
    for c in sorted(set(callers)):
        o.prove(f"caller-of-delivery_count_mut:{_short_callee(c)}", [], z3.BoolVal(any(re.search(p, c) for p in _CREDIT_MUT_CALLERS)), replay=replay)
    o.cover("writers found", [z3.BoolVal(len(writers) >= 4)])
    return o


def c08_credit_writers(env):
    return [_credit_state_writers(env, "C08")]


def c16_credit_writers(env):
    return [_credit_state_writers(env, "C16")]


REGISTRY.setdefault("C08", []).append(c08_credit_writers)
REGISTRY.setdefault("C16", []).append(c16_credit_writers)


# ---- C08: a delivery costs one credit however many frames carry it ---------------------------------------------


def c08_one_credit_per_delivery(env):
    o = Obligation("c08_a_delivery_costs_one_credit_however_many_frames_carry_it", "C08")
    o.desc = "the sender's path of one delivery: SenderLink::send_payload takes the credit exactly once (get_delivery_tag_or_detached: consume(1)) before the transfer is built, and nothing downstream of it -- send_payload_with_transfer, the link-level splitter send_transfer_without_modifying_unsettled_map that cuts a large message into several transfers, send_transfer -- consumes credit again: a delivery of N frames costs one credit and advances delivery-count by one"
    pat_consume = r"as (util::)?(consumer::)?Consume>::consume$|(^|::)consume_link_credit$|::try_consume$"
    down = [
        r"^sender_link::<impl at [^>]*>::send_payload_with_transfer::\{closure#0\}$",
        r"^sender_link::<impl at [^>]*>::send_transfer_without_modifying_unsettled_map::\{closure#0\}$",
        r"^((link::)?sender_link::)?send_transfer::\{closure#0\}$",
    ]

    def replay(m):
        cmds = ["scn link_split 3 1", "scn link_split 4 2"]
        return cmds, (lambda outs: any(js.get("panic") or not js["received_intact"] for js in outs))

    fns = []
    for pat in down:
        fn = env.fn(pat)
        fns.append(fn.name)
        cs = [c for c in mir.callees(fn) if re.search(pat_consume, c)]
        o.prove(f"{_short_callee(fn.name)}:takes-no-credit", [], z3.BoolVal(not cs), replay=replay)
    fn = env.fn(r"^sender_link::<impl at [^>]*>::send_payload::\{closure#0\}$")
    fns.append(fn.name)
    states = _coroutine_states(fn)
    n = 0
    for k in states:
        ex, paths = _run_from_state(env, fn, k, max_visits=2, stop=None)
        for i, p in enumerate(paths):
            names = [c[0] for c in p.calls]
            takes = [j for j, c in enumerate(names) if re.search(r"::get_delivery_tag_or_detached::<", c) and "poll" not in c]
            direct = [j for j, c in enumerate(names) if re.search(pat_consume, c)]
            sends = [j for j, c in enumerate(names) if re.search(r"::send_payload_with_transfer$|::send_payload_with_transfer::<", c) and "poll" not in c]
            H = ex.assumptions + p.cond
            o.prove(f"state{k}:path{i}:credit-is-taken-through-the-one-gate", H, z3.BoolVal(not direct and len(takes) <= 1), replay=replay)
            if k == 0 and sends:
                n += 1
                o.prove(f"state{k}:path{i}:taken-once-before-the-transfer-goes-out", H, z3.BoolVal(len(takes) == 1 and takes[0] < sends[0]), replay=replay)
            elif sends:
                n += 1
                # resumed after the await of the gate: the gate is not entered again
                o.prove(f"state{k}:path{i}:not-taken-again-after-the-gate", H, z3.BoolVal(len(takes) == 0), replay=replay)
    o.functions = fns
    o.bounds = [f"send_payload from every resume state {states} through one poll; the three downstream coroutines by their call lists"]
    o.assumes = ["get_delivery_tag_or_detached takes exactly one credit (consume(1): C08's Kani harness and c08_lost_wakeup)"]
    o.cover("paths that hand the transfer on", [z3.BoolVal(n > 0)])
    return [o]


REGISTRY.setdefault("C08", []).append(c08_one_credit_per_delivery)


# ---- C07 / C01: every frame the session has counted is handed to the connection, in order ------------------------


def c07_counted_frames_are_handed_on(env):
    o = Obligation("c07_every_frame_of_a_released_batch_is_handed_to_the_connection", "C07")
    o.desc = "send_outgoing_item (the session engine's hand-off to the connection, for a single frame and for the batch of transfers released when the peer reopens its window): every frame taken out of the item is handed to the connection's queue with a send that is awaited to completion (or a try_send that succeeded on this path), in the order of the batch -- the frames have already been given their delivery-ids and counted in next-outgoing-id and the remote-incoming-window, so a frame dropped here (e.g. on a full queue) is a transfer the peer never sees and a counter that no longer matches what was sent"
    fn = env.fn(r"^(session::engine::)?send_outgoing_item::\{closure#0\}$")
    o.functions = [fn.name]
    states = _coroutine_states(fn)
    o.bounds = [f"coroutine body from every resume state {states} through one poll; the loop over the batch unrolled 3 times per poll; the queue full, closed or free at every attempt"]
    o.assumes = ["vec::IntoIter::next yields the frames in order; mpsc Sender::send delivers the value it was given once its future completes with Ok"]

    def m_next(ex_, st, callee, args, argvals, dty):
        w = st.locals["@world"]
        r = mir.Agg("Option<SessionFrame>")
        d = z3.BitVec(f"batch.next.is_some#{ex_.ctx.n}", 64)
        ex_.ctx.n += 1
        ex_.assumptions.append(z3.ULE(d, 1))
        r["#d"] = d
        sm = mir.Agg("Some")
        f = mir.Agg("frame")
        f["@pos"] = w["taken"]
        sm[0] = f
        r[("as", "Some")] = sm
        w["taken"] = w["taken"] + 1
        return r

    def replay(m):
        return "scn window_backlog", (lambda js: js.get("panic") or not js["all_in_order"])

    n = 0
    for k in states:
        ex = env.executor(max_visits=_mv(4, 6))
        ex.max_paths = 4000
        ex.models = [(r"^<(&mut )?(std::)?(vec::)?IntoIter<(session::frame::)?SessionFrame> as Iterator>::next$", m_next)]
        cor = mir.Agg("coroutine")
        cor["#d"] = z3.BitVecVal(k, 64)
        pin = mir.Agg("pin")
        pin[0] = mir.Ref(("@cor",), True)
        w = mir.Agg("world")
        w["taken"] = 0
        paths = ex.run(fn, {"_1": pin, "@cor": cor, "@world": w})
        for i, p in enumerate(paths):
            if p.end.startswith("loop-bound"):
                continue
            H = ex.assumptions + p.cond
            s = z3.Solver()
            s.add(*H)
            if s.check() != z3.sat:
                continue
            taken = []  # (index in calls, position, is_some term)
            handed = {}
            for j, c in enumerate(p.calls):
                if re.search(r"IntoIter<(session::frame::)?SessionFrame> as Iterator>::next$", c[0]) and isinstance(c[3], mir.Agg):
                    sm_ = c[3].get(("as", "Some"))
                    fr = sm_.get(0) if isinstance(sm_, mir.Agg) else None
                    if not (isinstance(fr, mir.Agg) and fr.get("@pos") is not None):
                        # `for frame in iter.by_ref()` and friends: another iterator adaptor took the frame out
                        raise mir.Unsupported("a frame leaves the batch through something other than IntoIter::next")
                    taken.append((j, fr["@pos"], c[3]["#d"]))
                mm = re.search(r"mpsc::(bounded::)?Sender::<(session::frame::)?SessionFrame>::(send|try_send)$", c[0])
                if mm and len(c[1]) > 1 and isinstance(c[1][1], mir.Agg) and c[1][1].get("@pos") is not None:
                    ok = z3.BoolVal(True)
                    if mm.group(3) == "try_send":
                        res = c[3]
                        ok = (res["#d"] == 0) if isinstance(res, mir.Agg) and "#d" in res else z3.BoolVal(False)
                    handed.setdefault(c[1][1]["@pos"], []).append((j, ok))
            for (j, pos, is_some) in taken:
                n += 1
                hs = handed.get(pos, [])
                good = z3.Or(*[ok for (_, ok) in hs]) if hs else z3.BoolVal(False)
                o.prove(f"state{k}:path{i}:frame{pos}:taken-from-the-batch-means-handed-on", H + [is_some == 1], good, replay=replay)
                o.prove(f"state{k}:path{i}:frame{pos}:handed-on-once", H + [is_some == 1], z3.BoolVal(len(hs) <= 1), replay=replay)
            order = sorted((min(j for j, _ in hs), pos) for pos, hs in handed.items())
            o.prove(f"state{k}:path{i}:in-batch-order", H, z3.BoolVal([p_ for _, p_ in order] == sorted(p_ for _, p_ in order)), replay=replay)
    o.cover("frames taken from a batch", [z3.BoolVal(n > 1)])
    return [o]


REGISTRY.setdefault("C07", []).append(c07_counted_frames_are_handed_on)
REGISTRY["C01"].append(_under(c07_counted_frames_are_handed_on, "C01", "c07_", "c01_"))


# ---- C09: under auto-accept every delivery handed to the application is counted for the credit top-up ----------


def c09_auto_accept_counts_every_delivery(env):
    o = Obligation("c09_auto_accept_disposes_every_delivery_it_hands_over", "C09")
    o.desc = "ReceiverInner::on_complete_transfer / on_resuming_transfer with auto_accept: every delivery that is going to be returned to the application goes through ReceiverInner::dispose first -- whatever the sender's settled flag says --, because dispose is where processed deliveries are counted and Auto(n) credit is re-issued (c09_count_dispose*, c09_topup_*); a delivery class that skips it (e.g. pre-settled ones) consumes credit that is never replenished and an Auto(n) stream of that class stalls after n deliveries"
    f_auto = env.fidx("ReceiverInner", "auto_accept")
    fns = []
    n = 0

    def replay(m):
        return "scn presettled_stream 4 14", (lambda js: js.get("panic") or js["delivered"] != 14)

    for short, pat in (("on_complete_transfer", r"^receiver::<impl at [^>]*>::on_complete_transfer::\{closure#0\}$"), ("on_resuming_transfer", r"^receiver::<impl at [^>]*>::on_resuming_transfer::\{closure#0\}$")):
        fn = env.fn(pat)
        fns.append(fn.name)
        txt = "\n".join(t for b in fn.blocks.values() for t in (b[0] + [b[1]]))
        sm = re.search(r"\(\(\*_\d+\)\.(\d+): &mut (link::)?(receiver::)?ReceiverInner<", txt)
        if not sm:
            raise mir.Unsupported(f"self of {short} not found in the coroutine")
        ex = env.executor(max_visits=2)
        ex.max_paths = 4000
        auto = z3.Bool(f"{short}.auto_accept")
        R = mir.Agg("receiver")
        R[f_auto] = auto
        cor = mir.Agg("coroutine")
        cor["#d"] = z3.BitVecVal(0, 64)
        cor[int(sm.group(1))] = mir.Ref(("@self",), True)
        pin = mir.Agg("pin")
        pin[0] = mir.Ref(("@cor",), True)
        paths = ex.run(fn, {"_1": pin, "@cor": cor, "@self": R})
        for i, p in enumerate(paths):
            if p.end != "return" or not isinstance(p.ret, mir.Agg) or "#d" not in p.ret:
                continue
            built = [c for c in p.calls if re.search(r"ReceiverLink>::on_complete_transfer::<|::on_complete_transfer::<", c[0]) and "poll" not in c[0]]
            if not built:
                continue
            disposed = [c for c in p.calls if re.search(r"ReceiverInner::<.*>::dispose::<|::dispose::<", c[0]) and "poll" not in c[0]]
            rdy, is_ok = poll_ready_result(p.ret)
            if is_ok is None:
                continue
            # a delivery is handed back: Ready(Ok(Some(..)))
            okv = p.ret[("as", "Ready")][0].get(("as", "Ok"))
            opt = okv.get(0) if isinstance(okv, mir.Agg) else None
            some = (opt["#d"] == 1) if isinstance(opt, mir.Agg) and "#d" in opt else z3.BoolVal(True)
            H = ex.assumptions + p.cond + [rdy, is_ok, some, auto]
            s = z3.Solver()
            s.add(*H)
            if s.check() != z3.sat:
                continue
            n += 1
            o.prove(f"{short}:path{i}:handed-over-only-after-dispose", H, z3.BoolVal(len(disposed) >= 1), replay=replay)
    o.functions = fns
    o.bounds = ["both coroutines from their initial state through one poll (dispose ready at once; the suspended case is C16's obligation); every transfer, every receiver state"]
    o.assumes = ["ReceiverInner::dispose counts the delivery and tops the credit up (c09_count_dispose*, c09_topup_*)"]
    o.cover("paths that hand a delivery over under auto-accept", [z3.BoolVal(n > 0)])
    return [o]


REGISTRY.setdefault("C09", []).append(c09_auto_accept_counts_every_delivery)


# ---- C17: the heartbeat timer runs with exactly the period it was armed with ----------------------------------


def c17_heartbeat_period_is_kept(env):
    o = Obligation("c17_the_heartbeat_timer_runs_with_the_period_it_was_given", "C17")
    o.desc = "HeartBeat::new -> IntervalStream::new -> Interval::new_with_period -> tokio::time::interval: the Duration the connection engine computed from the peer's idle-time-out (c17_heartbeat_period_is_the_peers_idle_timeout) reaches the timer unchanged -- it is not clamped, rounded or replaced on the way (a lower bound of, say, one second silences the endpoint for longer than a peer's sub-second time-out)"
    chain = [
        (r"^heartbeat::<impl at [^>]*>::new$", r"-> HeartBeat", r"IntervalStream(::<.*>)?::new$|heartbeat::<impl at [^>]*>::new$"),
        (r"^heartbeat::<impl at [^>]*>::new$", r"-> IntervalStream<", r"Interval>::new_with_period$|::new_with_period$"),
        (r"^heartbeat::<impl at [^>]*>::new_with_period$", r"-> (tokio::time::)?Interval", r"(^|::)interval(_at)?$"),
    ]
    marker = z3.BitVec("period.identity", 64)

    def replay(m):
        return "hb_gap", (lambda js: js.get("panic") or js["max_gap_ms"] > js["idle_ms"] + js["tolerance_ms"])

    fns = []
    for pat, sig, nxt in chain:
        fn = env.fn(pat, sig=sig)
        fns.append(fn.name)
        ex = env.executor(max_visits=3)
        P = mir.Agg("Duration")
        P["@id"] = marker
        paths = ex.run(fn, {"_1": P})
        n = 0
        for i, p in enumerate(paths):
            if p.end != "return":
                continue
            n += 1
            nxt_calls = [c for c in p.calls if re.search(nxt, c[0]) and c[0] != fn.name]
            others = [c for c in p.calls if re.search(r"Duration|::max$|::min$|::clamp$", c[0]) and c not in nxt_calls]
            short = _short_callee(fn.name) + ("/" + sig[3:].strip("<( ") if sig else "")
            o.prove(f"{short}:path{i}:hands-the-period-on-once", ex.assumptions + p.cond, z3.BoolVal(len(nxt_calls) == 1), replay=replay)
            for c in nxt_calls:
                a = c[1][0] if c[1] else None
                same = isinstance(a, mir.Agg) and a.get("@id") is not None and a.get("@id").eq(marker)
                o.prove(f"{short}:path{i}:the-very-period-it-was-given", ex.assumptions + p.cond, z3.BoolVal(bool(same)), replay=replay)
            o.prove(f"{short}:path{i}:no-arithmetic-on-the-period", ex.assumptions + p.cond, z3.BoolVal(not others), replay=replay)
        o.cover(f"paths of {_short_callee(fn.name)}", [z3.BoolVal(n > 0)])
    o.functions = fns
    o.bounds = ["the three functions between the engine and tokio::time::interval; every path"]
    o.assumes = ["tokio::time::interval(p) ticks every p"]
    return [o]


REGISTRY.setdefault("C17", []).append(c17_heartbeat_period_is_kept)


# ---- C11: the peer's handle a link answers to is the one in the LATEST attach -----------------------------------


def c11_input_handle_follows_the_attach(env):
    o = Obligation("c11_a_link_adopts_the_handle_of_the_attach_it_just_received", "C11")
    o.desc = "SenderLink / ReceiverLink::on_incoming_attach (first attach and every resume after a detach): whenever the attach is accepted far enough to touch the link, the link's input handle -- under which the session files the link, stamps its outgoing transfers for the disposition routing table and routes the peer's frames -- becomes Some(the handle of THIS attach), whatever handle the link remembered from an earlier attachment (the peer frees and reuses handle numbers across detach / re-attach)"
    fns = []
    n = 0
    i_h = env.fidx("Attach", "handle")

    def m_from(ex_, st, callee, args, argvals, dty):
        a = mir.Agg("InputHandle")
        src = argvals[0]
        if isinstance(src, mir.Agg) and src.get(0) is not None:
            a[0] = src[0]
        elif z3.is_expr(src):
            a[0] = src
        else:
            return None
        return a

    def replay(m):
        return "scn resume_with_new_handle", (lambda js: js.get("panic") or not js["send_after_resume_settled"])

    for role, pat in (("sender", r"^sender_link::<impl at [^>]*>::on_incoming_attach$"), ("receiver", r"^receiver_link::<impl at [^>]*>::on_incoming_attach$")):
        fn = env.fn(pat)
        fns.append(fn.name)
        txt = "\n".join(t for b in fn.blocks.values() for t in (b[0] + [b[1]]))
        fm = re.search(r"\(\(\*_1\)\.(\d+): (std::option::)?Option<(endpoint::)?InputHandle>\)", txt)
        if not fm:
            # no direct store into the field: the handle is set some other way (get_or_insert_with, a helper ...)
            f_in = env.fidx("Link", "input_handle")
        else:
            f_in = int(fm.group(1))
        ex = env.executor(max_visits=2)
        ex.max_paths = 6000
        # helpers that take &mut self after the handle is stored: executed as "does not touch the input handle", which
        # is checked on their own MIR bodies (no store into that field)
        helpers = r"::handle_unsettled_in_attach$|::properties_mut::<"

        def m_helper(ex_, st, callee, args, argvals, dty):
            r_ = mir.Agg("helper-result")
            ex_.new_discr(st, r_, "helper")
            return r_

        ex.models = [(r"^<(endpoint::)?InputHandle as From<(fe2o3_amqp_types::)?(definitions::)?Handle>>::from$", m_from), (helpers, m_helper)]
        for hn, hf in env.fns.items():
            if re.search(r"^" + role + r"_link::<impl at [^>]*>::handle_unsettled_in_attach$|^link::<impl at [^>]*>::properties_mut$", hn):
                fns.append(hn)
                stores = [t for b in hf.blocks.values() for t in b[0] if re.match(r"\s*\(\(\*_1\)\.%d: " % f_in, t)]
                o.prove(f"{role}:{_short_callee(hn)}:leaves-the-input-handle-alone", [], z3.BoolVal(not stores), replay=replay)
        L = mir.Agg("link")
        old = mir.Agg("Option<InputHandle>")
        old_d = z3.BitVec(f"{role}.pre.input_handle.is_some", 64)
        old["#d"] = old_d
        sm = mir.Agg("Some")
        ih = mir.Agg("InputHandle")
        old_v = BV32(f"{role}.pre.input_handle")
        ih[0] = old_v
        sm[0] = ih
        old[("as", "Some")] = sm
        L[f_in] = old
        A = mir.Agg("attach")
        H_ = mir.Agg("Handle")
        new_v = BV32(f"{role}.attach.handle")
        H_[0] = new_v
        A[i_h] = H_
        paths = ex.run(fn, {"_1": mir.Ref(("@self",), True), "@self": L, "_2": A})
        hyp = ex.assumptions + [z3.ULE(old_d, 1)]
        # one query per role: the conjunction of `path condition => goal` over all accepting paths (thousands of
        # paths differ only in branches that do not touch the handle)
        imps = []
        for i, p in enumerate(paths):
            if p.end != "return" or not isinstance(p.ret, mir.Agg) or "#d" not in p.ret:
                continue
            H = hyp + p.cond + [p.ret["#d"] == 0]
            n += 1
            cur = p.locals["@self"].get(f_in)
            d = cur.get("#d") if isinstance(cur, mir.Agg) else None
            some = cur.get(("as", "Some")) if isinstance(cur, mir.Agg) else None
            inner = some.get(0) if isinstance(some, mir.Agg) else None
            val = inner.get(0) if isinstance(inner, mir.Agg) else None
            if d is None or val is None or not z3.is_expr(val):
                imps.append(z3.Implies(z3.And(*H), z3.BoolVal(False)))
            else:
                imps.append(z3.Implies(z3.And(*H), z3.And(d == 1, val == new_v)))
        o.prove(f"{role}:the-handle-is-the-one-of-this-attach ({len(imps)} accepting paths)", [], z3.And(*imps) if imps else z3.BoolVal(False), replay=replay)
    o.functions = fns
    o.bounds = ["one call each; the link remembering no handle or any 32-bit handle; every 32-bit handle in the attach; every path on which the attach is accepted (Ok)"]
    o.assumes = ["InputHandle::from(Handle) keeps the number"]
    o.cover("accepting paths", [z3.BoolVal(n > 1)])
    return [o]


REGISTRY.setdefault("C11", []).append(c11_input_handle_follows_the_attach)


# ---- C13: the session engine leaves its loop only when the session is UNMAPPED --------------------------------


def c13_engine_stops_only_unmapped(env):
    o = Obligation("c13_the_session_engine_stops_only_when_unmapped", "C13")
    o.desc = "SessionEngine::on_incoming / on_control / on_outgoing_link_frames (the three handlers whose result decides whether the session task keeps running): they report Running::Stop only when the session's state is UNMAPPED -- in particular not in DISCARDING (the local end with an error has been sent, the peer's answer is still to come: stopping there makes end_with_error return before the peer answered, loses the error of the peer's end and leaves the peer's end to hit a channel without a session) nor in END_SENT / END_RCVD"
    SS = env.enums["SessionState"]
    RN = env.enums.get("Running")
    if not RN or "Stop" not in RN:
        raise mir.Unsupported("Running layout not found")
    fns = []
    n = 0

    def replay(m):
        return "scn end_with_error_waits", (lambda js: js.get("panic") or not js["returned_after_the_peers_end"])

    for short in ("on_incoming", "on_control", "on_outgoing_link_frames"):
        fn = env.fn(r"^session::engine::<impl at [^>]*>::%s::\{closure#0\}$" % short)
        fns.append(fn.name)
        states = _coroutine_states(fn)
        helper = [k for k in env.fns if re.search(r"^session::engine::<impl at [^>]*>::continue_or_stop_by_state$", k)]
        for k in states:
            ex = env.executor(max_visits=_mv(1, 2))
            ex.max_paths = 6000
            ex.stop_calls = None
            if helper:
                ex.inline = {r"::continue_or_stop_by_state$": r"^session::engine::<impl at [^>]*>::continue_or_stop_by_state$"}

            def m_state(ex_, st, callee, args, argvals, dty):
                a = mir.Agg("SessionState")
                d = z3.BitVec(f"local_state#{ex_.ctx.n}", 64)
                ex_.ctx.n += 1
                ex_.assumptions.append(z3.Or(*[d == v for v in SS.values()]))
                a["#d"] = d
                key = f"@state{ex_.ctx.n}"
                st.locals[key] = a
                return mir.Ref((key,), False)

            ex.models = [(r"as (endpoint::)?(session::)?Session>::local_state$", m_state)]
            cor = mir.Agg("coroutine")
            cor["#d"] = z3.BitVecVal(k, 64)
            pin = mir.Agg("pin")
            pin[0] = mir.Ref(("@cor",), True)
            paths = ex.run(fn, {"_1": pin, "@cor": cor})
            for i, p in enumerate(paths):
                if p.end != "return" or not isinstance(p.ret, mir.Agg) or "#d" not in p.ret:
                    continue
                rdy, is_ok = poll_ready_result(p.ret)
                if is_ok is None:
                    continue
                okv = p.ret[("as", "Ready")][0].get(("as", "Ok"))
                run = okv.get(0) if isinstance(okv, mir.Agg) else None
                rd = run.get("#d") if isinstance(run, mir.Agg) else None
                if rd is None:
                    continue
                H = ex.assumptions + p.cond + [rdy, is_ok, rd == RN["Stop"]]
                s = z3.Solver()
                s.add(*H)
                if s.check() != z3.sat:
                    continue
                n += 1
                sts = [c for c in p.calls if re.search(r"Session>::local_state$", c[0]) and isinstance(c[3], mir.Ref)]
                if not sts:
                    o.prove(f"{short}:state{k}:path{i}:stop-is-decided-by-the-session-state", H, z3.BoolVal(False), replay=replay)
                    continue
                last = p.locals.get(sts[-1][3].path[0])
                o.prove(f"{short}:state{k}:path{i}:stops-only-when-unmapped", H, last["#d"] == SS["Unmapped"], replay=replay)
    o.functions = fns
    o.bounds = ["the three coroutines from every resume state through one poll; inner loops cut after one visit; every session state at every look"]
    o.assumes = ["Session::local_state returns the state the lifecycle functions maintain (c13_session_*)"]
    o.cover("paths that report Stop", [z3.BoolVal(n > 0)])
    return [o]


REGISTRY.setdefault("C13", []).append(c13_engine_stops_only_unmapped)


# ---- C12: close() / close_with_error() report what the engine reports -----------------------------------------


def c12_close_reports_the_engines_outcome(env):
    o = Obligation("c12_close_reports_the_engines_outcome", "C12")
    o.desc = "ConnectionHandle::close / close_with_error: whatever happens to the close request itself (the engine may already have stopped, e.g. because the peer closed first -- possibly with an error -- and the engine answered on its own), the call completes only with the result of on_close(), i.e. with the outcome the engine task left behind: a peer that closed with an error is reported as RemoteClosedWithError, never as a clean Ok(())"
    fns = []
    n = 0

    def replay(m):
        cmds = ["scn stop_reason close_err_then_close", "scn stop_reason close_err"]
        return cmds, (lambda outs: any(js.get("panic") or not js["as_expected"] for js in outs))

    pat_poll = r"ConnectionHandle<R>::on_close\(\)\} as (futures_util::|std::future::)?Future>::poll$"
    for short, pat in (("close", r"^connection::<impl at [^>]*>::close::\{closure#0\}$"), ("close_with_error", r"^connection::<impl at [^>]*>::close_with_error::\{closure#0\}$")):
        fn = env.fn(pat)
        fns.append(fn.name)
        states = _coroutine_states(fn)
        def m_on_close_poll(ex_, st, callee, args, argvals, dty):
            pl = mir.Agg("Poll")
            pl["#d"] = z3.BitVec(f"on_close.poll#{ex_.ctx.n}", 64)
            ex_.assumptions.append(z3.ULE(pl["#d"], 1))
            rv = mir.Agg("Ready")
            res_ = mir.Agg("Result")
            res_["#d"] = z3.BitVec(f"on_close.result#{ex_.ctx.n}", 64)
            ex_.assumptions.append(z3.ULE(res_["#d"], 1))
            ex_.ctx.n += 1
            rv[0] = res_
            pl[("as", "Ready")] = rv
            return pl

        for k in states:
            ex, paths = _run_from_state(env, fn, k, models=[(pat_poll, m_on_close_poll)], max_visits=2, stop=None)
            for i, p in enumerate(paths):
                if p.end != "return" or not isinstance(p.ret, mir.Agg) or "#d" not in p.ret:
                    continue
                H = ex.assumptions + p.cond + [p.ret["#d"] == 0]
                s = z3.Solver()
                s.add(*H)
                if s.check() != z3.sat:
                    continue
                n += 1
                polls = [c for c in p.calls if re.search(pat_poll, c[0])]
                if not polls:
                    o.prove(f"{short}:state{k}:path{i}:completes-only-through-on_close", H, z3.BoolVal(False), replay=replay)
                    continue
                res = polls[-1][3]
                inner = res.get(("as", "Ready")) if isinstance(res, mir.Agg) else None
                r_in = inner.get(0) if isinstance(inner, mir.Agg) else None
                r_out = p.ret[("as", "Ready")].get(0) if isinstance(p.ret.get(("as", "Ready")), mir.Agg) else None
                if not (isinstance(r_in, mir.Agg) and "#d" in r_in and isinstance(r_out, mir.Agg) and "#d" in r_out):
                    o.prove(f"{short}:state{k}:path{i}:the-result-is-on_closes-result", H, z3.BoolVal(False), replay=replay)
                    continue
                o.prove(f"{short}:state{k}:path{i}:the-result-is-on_closes-result", H, r_out["#d"] == r_in["#d"], replay=replay)
    o.functions = fns
    o.bounds = ["both coroutines from every resume state through one poll; the control channel open or closed; on_close ready or pending"]
    o.assumes = ["on_close yields the outcome the engine sent before it stopped (c14_connection_engine_publishes_the_stop_reason)"]
    o.cover("completing paths", [z3.BoolVal(n > 1)])
    return [o]


REGISTRY.setdefault("C12", []).append(c12_close_reports_the_engines_outcome)
REGISTRY.setdefault("C14", []).append(lambda env: [_retagged(x, "C14", "c14_close_reports_the_engines_outcome") for x in c12_close_reports_the_engines_outcome(env)])


# ---- C20: both readers hand an un-decoded (lazy) value to the visitor the same way -----------------------------


def c20_lazy_value_hand_over(env):
    o = Obligation("c20_both_readers_hand_a_lazy_value_over_as_an_owned_buffer", "C20")
    o.desc = "Read::forward_read_byte_buf (the raw bytes of the next value, read without decoding: LazyValue, deserialize_byte_buf): the slice reader and the io reader both pass the bytes they read to Visitor::visit_byte_buf -- the owned form, which every visitor understands (serde forwards it to visit_bytes by default, but not the other way round) -- so that decoding from a slice and from a stream succeed or fail together; a reader that hands the buffer over by reference makes from_reader fail for a visitor that, like LazyValue's, takes ownership"
    senv = env.crate("serde_amqp")
    fns = []
    n = 0

    def replay(m):
        return "lazy_reader", (lambda js: js.get("panic") or not js["agree"])

    for which, pat in (("slice", r"^read::sliceread::<impl at [^>]*>::forward_read_byte_buf$|^sliceread::<impl at [^>]*>::forward_read_byte_buf$"), ("io", r"^read::ioread::<impl at [^>]*>::forward_read_byte_buf$|^ioread::<impl at [^>]*>::forward_read_byte_buf$")):
        fn = mir.find_fn(senv.fns, pat)
        fns.append(fn.name)
        ex = mir.Executor(senv.fns, senv.structs, senv.enums, max_visits=3, consts=senv.consts)
        paths = ex.run(fn, {"_1": mir.Ref(("@reader",), True), "@reader": mir.Agg("reader"), "_2": mir.Agg("visitor")})
        for i, p in enumerate(paths):
            if p.end != "return":
                continue
            reads = [c for c in p.calls if re.search(r"read_primitive_bytes_or_else", c[0])]
            if not reads:
                continue
            res = reads[-1][3]
            ok_read = (res["#d"] == 0) if isinstance(res, mir.Agg) and "#d" in res else z3.BoolVal(True)
            H = ex.assumptions + p.cond + [ok_read]
            s = z3.Solver()
            s.add(*H)
            if s.check() != z3.sat:
                continue
            n += 1
            owned = [c for c in p.calls if re.search(r"Visitor<'_>>::visit_byte_buf::<|Visitor<'de>>::visit_byte_buf::<|::visit_byte_buf::<", c[0])]
            other = [c for c in p.calls if re.search(r"::visit_(borrowed_)?bytes::<", c[0])]
            o.prove(f"{which}:path{i}:handed-over-as-an-owned-buffer", H, z3.BoolVal(len(owned) == 1 and not other), replay=replay)
    o.functions = fns
    o.bounds = ["one call of each reader's method; reading the raw value succeeds or fails"]
    o.assumes = ["serde's default Visitor::visit_byte_buf forwards to visit_bytes"]
    o.cover("paths that read a value", [z3.BoolVal(n >= 2)])
    return [o]


REGISTRY.setdefault("C20", []).append(c20_lazy_value_hand_over)


# session 4, round 10: obligations that also speak for another property
# C16: a send woken with credit completes at its next poll -- otherwise the credit it has just taken is lost when the
#      future is dropped there (same obligation as C08's lost wake-up: the waiter's MIR against Notify's contract)
REGISTRY.setdefault("C16", []).append(_under(c08_lost_wakeup, "C16", "c08_", "c16_"))
# C18: a transactional post cut into several frames keeps its transactional state on every frame (the resource side
#      sorts incoming transfer FRAMES by that state)
REGISTRY.setdefault("C18", []).append(_under(c06_transfer_split, "C18", "c06_transfer_split", "c18_a_split_post_keeps_its_transaction_on_every_frame"))


# ---- C02: sending a transfer never forgets an outstanding delivery ----------------------------------------------


def c02_send_step_keeps_routing(env):
    o = Obligation("c02_sending_never_forgets_an_outstanding_delivery", "C02")
    o.desc = "Session::on_outgoing_transfer_inner (the send step of every transfer frame): the table that routes the peer's dispositions back to the sending link (delivery-id -> link, tag) only GROWS here -- one insert under the delivery-id just stamped when the transfer starts an unsettled delivery, and no removal, retain, clear or drain on any path: entries leave the table only when a disposition settles them (on_incoming_disposition); an entry dropped by age or count leaves a slow delivery's send unresolved for good"
    fn = env.fn(r"^session::<impl at [^>]*>::on_outgoing_transfer_inner$")
    o.functions = [fn.name]
    o.bounds = ["one call; every transfer (tag present or not, settled or not), every counter value; every path"]
    o.assumes = ["HashMap::insert adds or replaces one entry (std contract)"]
    ex = env.executor(max_visits=3)
    S, v = session_pre(env)
    paths = ex.run(fn, {"_1": mir.Ref(("@self",), True), "@self": S, "_2": mir.Agg("handle"), "_3": mir.Agg("transfer"), "_4": mir.Agg("payload")})

    def replay(m):
        return "scn slow_settlement 4", (lambda js: js.get("panic") or not js["first_send_resolved"])

    n = 0
    for i, p in enumerate(paths):
        if p.end != "return":
            continue
        n += 1
        maps = [c for c in p.calls if re.search(r"^HashMap::<\((fe2o3_amqp_types::)?(definitions::)?Role, u32\)", c[0])]
        inserts = [c for c in maps if re.search(r">::insert$", c[0])]
        shrinking = [c for c in maps if re.search(r">::(remove|remove_entry|retain|clear|drain|extract_if|shrink_to_fit)(::<.*>)?$", c[0])]
        o.prove(f"path{i}:nothing-leaves-the-routing-table", ex.assumptions + p.cond, z3.BoolVal(not shrinking), replay=replay)
        o.prove(f"path{i}:at-most-one-entry-is-added", ex.assumptions + p.cond, z3.BoolVal(len(inserts) <= 1), replay=replay)
    o.cover("paths", [z3.BoolVal(n > 1)])
    return [o]


REGISTRY.setdefault("C02", []).append(c02_send_step_keeps_routing)


# ---- C14: an attach that is being refused still learns that the session / connection stopped --------------------


def c14_refused_attach_learns_the_stop(env):
    o = Obligation("c14_a_refused_attach_still_reports_why_the_session_stopped", "C14")
    o.desc = "sender_link::recv_detach / receiver_link::recv_detach (an attach the link refuses locally -- e.g. the peer's attach carries no target -- sends a closing detach and waits here for the peer's): when the link's channel is closed instead (the session engine dropped the relay: the session ended or the connection stopped / the transport was cut), the attach fails with SessionStopped(the recorded stop reason, which carries the peer's error) whenever a reason is recorded -- not with the local refusal it was about to report"
    fns = []
    n = 0

    def replay(m):
        return "scn refused_attach_then_close", (lambda js: js.get("panic") or not js["reports_the_stop"])

    for role, errty in (("sender", "SenderAttachError"), ("receiver", "ReceiverAttachError")):
        fn = env.fn(r"^%s_link::recv_detach::\{closure#0\}$" % role)
        fns.append(fn.name)
        AE = env.enums.get(errty)
        if not AE or "SessionStopped" not in AE:
            raise mir.Unsupported(f"{errty} layout not found")
        states = _coroutine_states(fn)
        got_d = z3.BitVec(f"{role}.session_stop_reason.is_recorded", 64)

        def m_get(ex_, st, callee, args, argvals, dty, got_d=got_d):
            r = mir.Agg("Option<&SessionStopReason>")
            r["#d"] = got_d
            sub = mir.Agg("Some")
            sub[0] = mir.Ref(("@ssr",), False)
            r[("as", "Some")] = sub
            return r

        def m_recv_poll(ex_, st, callee, args, argvals, dty):
            pl = mir.Agg("Poll")
            pl["#d"] = z3.BitVec(f"recv.poll#{ex_.ctx.n}", 64)
            ex_.assumptions.append(z3.ULE(pl["#d"], 1))
            rv = mir.Agg("Ready")
            opt = mir.Agg("Option<LinkFrame>")
            opt["#d"] = z3.BitVec(f"recv.frame.is_some#{ex_.ctx.n}", 64)
            ex_.assumptions.append(z3.ULE(opt["#d"], 1))
            ex_.ctx.n += 1
            rv[0] = opt
            pl[("as", "Ready")] = rv
            return pl

        pat_recv = r"mpsc::(bounded::)?Receiver<(link::frame::)?LinkFrame>::recv\(\)\} as (futures_util::|std::future::)?Future>::poll$"
        for k in states:
            ex, paths = _run_from_state(env, fn, k, models=[(r"^OnceLock::<(link::error::)?SessionStopReason>::get$", m_get), (pat_recv, m_recv_poll)], max_visits=2, stop=None)
            for i, p in enumerate(paths):
                if p.end != "return" or not isinstance(p.ret, mir.Agg) or "#d" not in p.ret:
                    continue
                polls = [c for c in p.calls if re.search(pat_recv, c[0])]
                if not polls:
                    continue
                res = polls[-1][3]
                closed = z3.And(res["#d"] == 0, res[("as", "Ready")][0]["#d"] == 0)
                rdy = p.ret["#d"] == 0
                H = ex.assumptions + [z3.ULE(got_d, 1)] + p.cond + [rdy, closed, got_d == 1]
                s = z3.Solver()
                s.add(*H)
                if s.check() != z3.sat:
                    continue
                n += 1
                inner = p.ret.get(("as", "Ready"))
                e = inner.get(0) if isinstance(inner, mir.Agg) else None
                ed = e.get("#d") if isinstance(e, mir.Agg) else None
                o.prove(f"{role}:state{k}:path{i}:closed-channel-with-a-recorded-reason-is-session-stopped", H, (ed == AE["SessionStopped"]) if ed is not None else z3.BoolVal(False), replay=replay)
    o.functions = fns
    o.bounds = ["both coroutines from every resume state through one poll; the channel yielding a frame, closing, or pending; a stop reason recorded or not"]
    o.assumes = ["the session / connection engines record the stop reason before the relay is dropped (c14_*_publishes_the_stop_reason)"]
    o.cover("paths on which the channel is closed and a reason is recorded", [z3.BoolVal(n > 0)])
    return [o]


REGISTRY.setdefault("C14", []).append(c14_refused_attach_learns_the_stop)


# ---- C04: the hand-written decoders of typed protocol items call nothing that can panic ------------------------


_PANICKING_CALLS = r"Index<.*Range.*>>::index(_mut)?$|(^|::)unwrap$|(^|::)expect$|(^|::)unwrap_unchecked$|core::panicking|begin_panic|(^|::)split_at(_mut)?$|slice_index|unwrap_failed|from_utf8_unchecked|<str as Index|<\[.*\] as Index"


def c04_typed_decoders_are_total(env):
    o = Obligation("c04_typed_item_decoders_call_nothing_that_can_panic", "C04")
    o.desc = "every decoding function of fe2o3-amqp-types (Deserialize::deserialize, Visitor::visit_*, TryFrom / From / FromStr conversions used while decoding: error conditions, message-ids, annotation keys, delivery states, sections ...): its MIR calls no API that panics on some input -- no byte-offset slicing of a str or slice (a peer chooses where the multi-byte characters sit), no unwrap / expect, no explicit panic -- so that a symbol, string or code taken from a peer's frame can only produce a value or an error (the arithmetic and bounds assertions of these bodies are C04's Kani harnesses and c04_*_bounds)"
    t = env.crate("fe2o3-amqp-types")
    sel = [(name, fn) for name, fn in t.fns.items() if re.search(r"visit_|::deserialize|::try_from|::from_str|::from$", name)]
    o.functions = [f"{len(sel)} decoding functions of fe2o3-amqp-types"]
    o.bounds = [f"all {len(sel)} MIR functions of fe2o3-amqp-types named deserialize / visit_* / try_from / from / from_str (of {len(t.fns)}); non-cleanup blocks"]
    o.assumes = ["std APIs outside the listed ones do not panic on valid &str / &[u8] arguments"]

    def replay(m):
        return "typed_hostile", (lambda js: bool(js.get("panic")) or js["panics"] > 0)

    bad = 0
    for name, fn in sel:
        hits = sorted({c for c in mir.callees(fn) if re.search(_PANICKING_CALLS, c)})
        if hits:
            bad += 1
            o.prove(f"{_short_callee(name)}:calls {_short_callee(hits[0])}", [], z3.BoolVal(False), replay=replay)
    o.prove(f"all {len(sel)} decoding functions are free of panicking calls", [], z3.BoolVal(bad == 0), replay=replay)
    o.cover("decoding functions found", [z3.BoolVal(len(sel) > 100)])
    return [o]


REGISTRY.setdefault("C04", []).append(c04_typed_decoders_are_total)
REGISTRY.setdefault("C15", []).append(lambda env: [_retagged(x, "C15", "c15_typed_item_decoders_call_nothing_that_can_panic") for x in c04_typed_decoders_are_total(env)])


# ---- C03: the decoder's "which kind of enum am I inside" flag is restored by deserialize_enum -------------------


def c03_enum_type_is_restored(env):
    o = Obligation("c03_deserialize_enum_restores_the_enum_kind", "C03")
    o.desc = "serde_amqp Deserializer::deserialize_enum (entered for Value, Descriptor, Array<T> and every descriptor-selected protocol enum): the decoder's enum_type flag -- which tells the nested variant access how to read the discriminant -- has, on every path that returns the visitor's Ok, the value it had on entry, for every kind of enum (name) and every wire code; otherwise a later enum in the same frame (e.g. Attach.target after Source.outcomes, a DeliveryState in Attach.unsettled) is read under the flag of an earlier one and a valid encoding no longer decodes"
    senv = env.crate("serde_amqp")
    fn = mir.find_fn(senv.fns, r"^de::<impl at [^>]*>::deserialize_enum$")
    o.functions = [fn.name]
    o.bounds = ["one call; every enum name, every wire code, every result of the visitor; the flag arbitrary on entry"]
    o.assumes = ["Visitor::visit_enum may change any decoder state it can reach (havocked)"]
    ET = senv.enums.get("EnumType")
    if not ET:
        raise mir.Unsupported("EnumType layout not found")
    # two types are called Deserializer (bytes and value tree): take the field from this function's own MIR
    txt = "\n".join(t for b in fn.blocks.values() for t in (b[0] + [b[1]]))
    fm = re.search(r"\(\(\*_1\)\.(\d+): (util::)?EnumType\)", txt)
    if not fm:
        raise mir.Unsupported("Deserializer.enum_type not found in deserialize_enum")
    f_et = int(fm.group(1))
    ex = mir.Executor(senv.fns, senv.structs, senv.enums, max_visits=3, consts=senv.consts)
    ex.max_paths = 6000
    D = mir.Agg("deserializer")
    pre = z3.BitVec("pre.enum_type", 64)
    et = mir.Agg("EnumType")
    et["#d"] = pre
    D[f_et] = et

    def m_clone(ex_, st, callee, args, argvals, dty):
        x = argvals[0]
        k_ = 0
        while isinstance(x, mir.Ref) and k_ < 4:
            cont, key = ex_.resolve(st, list(x.path))
            x = cont.get(key)
            k_ += 1
        if isinstance(x, mir.Agg) and "#d" in x:
            c = mir.Agg("EnumType")
            c["#d"] = x["#d"]
            return c
        return None

    ex.models = [(r"^<(de::)?EnumType as Clone>::clone$", m_clone)]
    paths = ex.run(fn, {"_1": mir.Ref(("@de",), True), "@de": D, "_2": mir.Agg("name"), "_3": mir.Agg("variants"), "_4": mir.Agg("visitor")})
    hyp = ex.assumptions + [z3.Or(*[pre == v for v in ET.values()])]

    def replay(m):
        return "enum_after_array", (lambda js: js.get("panic") or not js["roundtrips"])

    n = 0
    imps = []
    for i, p in enumerate(paths):
        if p.end != "return":
            continue
        # the result is usually the visitor's own (opaque: may be Ok); paths that built an Err themselves are excluded
        okc = [p.ret["#d"] == 0] if isinstance(p.ret, mir.Agg) and "#d" in p.ret else []
        if not any(re.search(r"Visitor<'(de|_)>>::visit_enum::<|::visit_enum::<", c[0]) for c in p.calls):
            continue  # the enum was refused before the visitor ran (a malformed header): an error path
        H = hyp + p.cond + okc
        s_ = z3.Solver()
        s_.add(*H)
        if s_.check() != z3.sat:
            continue
        cur = p.locals["@de"].get(f_et)
        d = cur.get("#d") if isinstance(cur, mir.Agg) else (cur if z3.is_expr(cur) else None)
        n += 1
        if d is not None and z3.is_bv(d) and d.size() != 64:
            d = z3.ZeroExt(64 - d.size(), d)
        imps.append((i, H, (d == pre) if d is not None else z3.BoolVal(False)))
    # one query per path is affordable here (a few dozen paths)
    for i, H, g in imps:
        o.prove(f"path{i}:ok-means-the-flag-is-what-it-was", H, g, replay=replay)
    o.cover("returning paths", [z3.BoolVal(n > 3)])
    return [o]


REGISTRY.setdefault("C03", []).append(c03_enum_type_is_restored)
REGISTRY.setdefault("C05", []).append(lambda env: [_retagged(x, "C05", "c05_deserialize_enum_restores_the_enum_kind") for x in c03_enum_type_is_restored(env)])


# ---- C05: defaults that the codec elides / fills in are the specification's defaults --------------------------


_SPEC_DEFAULTS = [
    # (return type in the MIR signature, value, width, where the spec says so)
    (r"-> (messaging::)?(format::)?Priority$", 4, 8, "header.priority: default 4 (AMQP 1.0 part 3, 3.2.1)"),
    (r"-> (performatives::)?(open::)?MaxFrameSize$", 0xFFFFFFFF, 32, "open.max-frame-size: default 4294967295 (part 2, 2.7.1)"),
    (r"-> (performatives::)?(open::)?ChannelMax$", 0xFFFF, 16, "open.channel-max: default 65535 (part 2, 2.7.1)"),
]


def c05_spec_defaults(env):
    o = Obligation("c05_elided_fields_stand_for_the_specifications_defaults", "C05")
    o.desc = "fields marked as having a default are elided by the encoder when they equal Default::default() and filled with it by the decoder when the peer sends null or leaves them out; for the newtypes whose AMQP default is not the zero value (header priority, open max-frame-size and channel-max) Default::default() is the value the specification names -- otherwise a value equal to the wrong default is written as `absent` (meaning something else to every peer) and a peer's elided field decodes to the wrong value, while every round trip within the crate still agrees"
    t = env.crate("fe2o3-amqp-types")
    fns = []

    def replay(m):
        return "spec_defaults", (lambda js: js.get("panic") or not js["as_specified"])

    for sig, val, w, where in _SPEC_DEFAULTS:
        cands = [fn for name, fn in t.fns.items() if re.search(r"::default$", name) and re.search(sig, fn.sig.strip().rstrip("{").strip())]
        if len(cands) != 1:
            o.prove(f"{where}: exactly one Default impl found ({len(cands)})", [], z3.BoolVal(False), replay=replay)
            continue
        fn = cands[0]
        fns.append(fn.name)
        # named std constants are printed by name: `const core::num::<impl u32>::MAX`
        import copy as _copy

        fn = _copy.deepcopy(fn)
        for bb, (stmts, term) in list(fn.blocks.items()):
            def lit(m_):
                bits = int(m_.group(2))
                signed = m_.group(1) == "i"
                which = m_.group(3)
                v_ = ((1 << (bits - 1)) - 1 if signed else (1 << bits) - 1) if which == "MAX" else (-(1 << (bits - 1)) if signed else 0)
                return f"const {v_}_{m_.group(1)}{bits}"
            fn.blocks[bb] = ([re.sub(r"const core::num::<impl ([ui])(\d+)>::(MAX|MIN)", lit, x) for x in stmts], term)
        ex = mir.Executor(t.fns, t.structs, t.enums, max_visits=2, consts=t.consts)
        paths = ex.run(fn, {})
        for i, p in enumerate(paths):
            if p.end != "return":
                continue
            r = p.ret
            v = r.get(0) if isinstance(r, mir.Agg) else r
            if v is None or not z3.is_expr(v):
                o.prove(f"{where}: path{i}: the default is a known constant", ex.assumptions + p.cond, z3.BoolVal(False), replay=replay)
            else:
                vv = v if v.size() == w else (z3.Extract(w - 1, 0, v) if v.size() > w else z3.ZeroExt(w - v.size(), v))
                o.prove(f"{where}: path{i}", ex.assumptions + p.cond, vv == z3.BitVecVal(val, w), replay=replay)
    o.functions = fns
    o.bounds = ["the three Default impls; every path"]
    o.assumes = ["the derive macro elides / fills with Default::default() (serde_amqp_derive; its output for small composites is C05's Kani harnesses)"]
    o.cover("defaults found", [z3.BoolVal(len(fns) == len(_SPEC_DEFAULTS))])
    return [o]


REGISTRY.setdefault("C05", []).append(c05_spec_defaults)
