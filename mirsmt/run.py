#!/usr/bin/env python3
"""Engine M runner: python3-vt mirsmt/run.py --prop C07 --tier quick --out results.json --logdir DIR"""
import argparse
import json
import os
import random
import sys
import time
import traceback

sys.path.insert(0, os.path.dirname(os.path.abspath(__file__)))
import z3  # noqa: E402

import engine  # noqa: E402
import mir  # noqa: E402
import obligations  # noqa: E402

VERIF = os.path.dirname(os.path.dirname(os.path.abspath(__file__)))


def main():
    ap = argparse.ArgumentParser()
    ap.add_argument("--prop")
    ap.add_argument("--list")
    ap.add_argument("--tier", default="quick")
    ap.add_argument("--out")
    ap.add_argument("--logdir", default="/tmp")
    ap.add_argument("--seed", type=int, default=0)
    ap.add_argument("--replay")
    ap.add_argument("--only")
    a = ap.parse_args()
    if a.list:
        for f in obligations.REGISTRY.get(a.list, []):
            print(f.__name__)
        return 0
    if a.replay:
        return do_replay(a.replay, a.logdir)
    prop = a.prop
    obligations.TIER = a.tier
    timeout = 60 if a.tier == "quick" else 600
    results = []
    smtdir = os.path.join(a.logdir, "smt2")
    os.makedirs(smtdir, exist_ok=True)
    try:
        env = engine.Env(os.path.join(a.logdir, "mir-dump.log"))
    except Exception as e:  # noqa: BLE001
        json.dump([{"name": f"mir:{prop}", "status": "error", "detail": str(e)}], open(a.out, "w"))
        return 0
    # translator validation against the native oracle (Serval-style), every run
    try:
        val = validate_translator(env, a.seed, os.path.join(a.logdir, "native.log"))
    except Exception as e:  # noqa: BLE001
        val = {"ok": False, "detail": f"validation crashed: {e}\n{traceback.format_exc()[-800:]}"}
    if not val["ok"]:
        json.dump([{"name": "translator-validation", "status": "error", "detail": val["detail"]}], open(a.out, "w"))
        return 0
    for gen in obligations.REGISTRY.get(prop, []):
        t0 = time.time()
        try:
            obls = gen(env)
        except mir.Unsupported as e:
            results.append({"name": gen.__name__, "status": "inconclusive", "detail": f"MIR not understood: {e}"})
            continue
        except Exception as e:  # noqa: BLE001
            results.append({"name": gen.__name__, "status": "error", "detail": f"{type(e).__name__}: {e}\n{traceback.format_exc()[-1200:]}"})
            continue
        for o in obls:
            if a.only and not __import__("re").search(a.only, o.name):
                continue
            results.append(decide_obligation(o, timeout, smtdir, a.logdir, val, env))
    json.dump(results, open(a.out, "w"), indent=1, default=str)
    return 0


def decide_obligation(o, timeout, smtdir, logdir, val, env):
    r = {"name": o.name, "prop": o.prop, "desc": o.desc, "functions": o.functions, "bounds": o.bounds, "assumes": o.assumes, "queries": 0, "solver_s": 0.0, "status": "ok", "nonvacuous": False, "translator_validation": val.get("summary"), "mir_dump_s": env.mir_s}
    proved, covers_sat, covers = 0, 0, 0
    details = []
    for q in o.queries:
        q["name"] = f"{o.name}:{q['name']}"
        d = engine.decide(q, timeout, smtdir)
        r["queries"] += 3
        r["solver_s"] = round(r["solver_s"] + d["t_z3py"] + d["t_cvc5"] + d["t_z3bin"], 3)
        if d["status"] == "inconclusive":
            r["status"] = "inconclusive"
            details.append(f"{q['name']}: solvers disagree or failed: z3py={d['z3py']} cvc5={d['cvc5']} z3bin={d['z3bin']}")
            continue
        if q["kind"] == "cover":
            covers += 1
            if d["status"] == "sat":
                covers_sat += 1
                if r.get("witness") is None:
                    m = d["model"]
                    r["witness"] = {"cover": q["name"], "values": {str(x): str(m[x]) for x in m.decls()[:12]}}
            else:
                if r["status"] == "ok":
                    r["status"] = "vacuous"
                details.append(f"{q['name']}: cover not satisfiable")
            continue
        if d["status"] == "unsat":
            proved += 1
            continue
        # sat: a counterexample -- replay against the real code before reporting
        m = d["model"]
        cex = {str(x): str(m[x]) for x in m.decls()}
        r["status"] = "failed"
        r["where"] = q["name"]
        rep = q.get("replay") or None
        reproduced = False
        native_out = None
        cmdline = None
        if rep:
            try:
                cmdline, violated = rep(m)
                if isinstance(cmdline, list):
                    js = engine.native(cmdline, os.path.join(logdir, "native.log"))
                else:
                    js = engine.native([cmdline], os.path.join(logdir, "native.log"))[0]
                native_out = js
                reproduced = bool(violated(js))
            except Exception as e:  # noqa: BLE001
                details.append(f"replay crashed: {e}")
        rdir = os.path.join(VERIF, "replays", o.prop)
        os.makedirs(rdir, exist_ok=True)
        nfail = len(r.setdefault("failures", []))
        rpath = os.path.join(rdir, f"{o.name}.json" if nfail == 0 else f"{o.name}.{nfail}.json")
        json.dump({"property": o.prop, "engine": "mir-smt", "obligation": o.name, "query": q["name"], "model": cex, "native_cmd": cmdline, "native_out": native_out, "smt2": d["smt2"]}, open(rpath, "w"), indent=1)
        r["failures"].append({"where": q["name"], "reproduced": reproduced, "replay": rpath})
        if nfail == 0:
            r["reproduced"] = reproduced
            r["replay"] = rpath
        details.append(f"{q['name']}: counterexample {dict(list(cex.items())[:8])} native={native_out}")
        # a further failing query of the same obligation may be a different violation (the first one may be a
        # listed known finding): keep going, within reason
        if o.collect_all and nfail < 6:
            continue
        break
    r["proved"] = proved
    r["covers"] = f"{covers_sat}/{covers}"
    r["nonvacuous"] = covers_sat > 0 and r["status"] == "ok"
    if details:
        r["detail"] = " | ".join(details)[:1500]
    return r


# ---- translator validation ------------------------------------------------------------


def validate_translator(env, seed, log):
    """Runs the SMT encodings of the session kernels on concrete vectors and compares with the
    real code executed natively (corner values + seed-derived random states)."""
    rnd = random.Random(seed)
    corners = [0, 1, 2, 5, 0x7FFFFFFF, 0x80000000, 0xFFFFFFFE, 0xFFFFFFFF]
    vecs = []
    for _ in range(24):
        vecs.append([rnd.choice(corners) if rnd.random() < 0.6 else rnd.getrandbits(32) for _ in range(12)])
    # -- send step
    fn = env.fn(r"^session::<impl at [^>]*>::on_outgoing_transfer_inner$")
    ex = env.executor()
    S, v = obligations.session_pre(env)
    T = mir.Agg("transfer")
    tg = mir.Agg("tag")
    tag_d = z3.BitVec("transfer.delivery_tag.is_some", 64)
    tg["#d"] = tag_d
    T[env.fidx("Transfer", "delivery_tag")] = tg
    paths = [p for p in ex.run(fn, {"_1": mir.Ref(("@self",), True), "@self": S, "_3": T}) if p.end == "return"]
    lines, expect = [], []
    for vec in vecs:
        noi, riw, has_tag = vec[0], (vec[1] % 7) + 1, vec[2] & 1
        lines.append(f"transfer 3 0 {noi} 10 10 {vec[3]} 0 {riw} 0 {has_tag} 0")
        expect.append((noi, riw, has_tag))
    outs = engine.native(lines, log)
    n_checked = 0
    for (noi, riw, has_tag), js in zip(expect, outs):
        sub = [(v["next_outgoing_id"], z3.BitVecVal(noi, 32)), (v["remote_incoming_window"], z3.BitVecVal(riw, 32)), (tag_d, z3.BitVecVal(has_tag, 64))]
        hit = False
        for p in paths:
            c = z3.simplify(z3.substitute(z3.And(*p.cond) if p.cond else z3.BoolVal(True), *sub))
            s = z3.Solver()
            s.add(c)
            if s.check() != z3.sat:
                continue
            post = obligations.session_post(env, p)
            got_noi = z3.simplify(z3.substitute(post["next_outgoing_id"], *sub)).as_long()
            got_riw = z3.simplify(z3.substitute(post["remote_incoming_window"], *sub)).as_long()
            if js.get("panic") or got_noi != js["next_outgoing_id"] or got_riw != js["remote_incoming_window"]:
                return {"ok": False, "detail": f"translator disagrees with the real code on transfer noi={noi} riw={riw}: smt=({got_noi},{got_riw}) native={js}"}
            did = js["frames"][0][0] if js["frames"] else None
            if has_tag and did != noi:
                return {"ok": False, "detail": f"native delivery-id {did} != next-outgoing-id {noi}"}
            hit = True
            break
        if not hit:
            return {"ok": False, "detail": f"no symbolic path covers the concrete vector noi={noi} riw={riw} tag={has_tag}"}
        n_checked += 1
    # -- flow recompute
    fn = env.fn(r"^session::<impl at [^>]*>::on_incoming_flow_inner::\{closure#0\}$")
    ex = env.executor(inline=obligations.INLINE_CONST)
    S, v = obligations.session_pre(env)
    F, f = obligations.flow_agg(env)
    cor = mir.Agg("coroutine")
    cor["#d"] = z3.BitVecVal(0, 64)
    cor[0] = mir.Ref(("@self",), True)
    cor[1] = F
    pin = mir.Agg("pin")
    pin[0] = mir.Ref(("@cor",), True)
    paths = [p for p in ex.run(fn, {"_1": pin, "@cor": cor, "@self": S}) if p.end != "unwind"]
    lines, expect = [], []
    for vec in vecs:
        io, noi, nii_d, nii, iw, fnoi, fow = vec[4], vec[5], vec[6] & 1, vec[7], vec[8], vec[9], vec[10]
        lines.append(f"flow 3 {io} {noi} 10 10 0 0 0 0 {nii_d} {nii} {iw} {fnoi} {fow}")
        expect.append((io, noi, nii_d, nii, iw, fnoi, fow))
    outs = engine.native(lines, log)
    for (io, noi, nii_d, nii, iw, fnoi, fow), js in zip(expect, outs):
        sub = [(v["initial_outgoing_id"], z3.BitVecVal(io, 32)), (v["next_outgoing_id"], z3.BitVecVal(noi, 32)), (f["nii_d"], z3.BitVecVal(nii_d, 64)), (f["nii_v"], z3.BitVecVal(nii, 32)), (f["incoming_window"], z3.BitVecVal(iw, 32)), (f["next_outgoing_id"], z3.BitVecVal(fnoi, 32)), (f["outgoing_window"], z3.BitVecVal(fow, 32))]
        hit = False
        for p in paths:
            c = z3.simplify(z3.substitute(z3.And(*p.cond) if p.cond else z3.BoolVal(True), *sub))
            s = z3.Solver()
            s.add(*ex.assumptions)
            s.add(c)
            if s.check() != z3.sat:
                continue
            post = obligations.session_post(env, p)
            got = [z3.simplify(z3.substitute(post[k], *sub)).as_long() for k in ("remote_incoming_window", "next_incoming_id", "remote_outgoing_window")]
            nat = [js["remote_incoming_window"], js["next_incoming_id"], js["remote_outgoing_window"]]
            if js.get("panic") or got != nat:
                return {"ok": False, "detail": f"translator disagrees with the real code on flow {(io, noi, nii_d, nii, iw, fnoi, fow)}: smt={got} native={nat}"}
            hit = True
            break
        if not hit:
            return {"ok": False, "detail": "no symbolic path covers a concrete flow vector"}
        n_checked += 1
    return {"ok": True, "summary": f"{n_checked} concrete vectors (corner values + VERIF_SEED-derived) agreed between the SMT encoding and the natively executed real code"}


def do_replay(path, logdir):
    """A recorded SMT counterexample is re-judged by re-running its obligation against the current
    tree: the obligation (re-encoded from the current MIR) must still fail and its counterexample
    must still reproduce natively."""
    rp = json.load(open(path))
    import subprocess

    out = os.path.join(logdir, "replay.json")
    subprocess.run([sys.executable, os.path.abspath(__file__), "--prop", rp["property"], "--only", "^" + rp["obligation"] + "$", "--out", out, "--logdir", logdir])
    res = json.load(open(out))
    for r in res:
        print(r["status"], r["name"], (r.get("detail") or "")[:400])
    if any(r["status"] == "failed" and r.get("reproduced") for r in res):
        return 1
    return 0


if __name__ == "__main__":
    sys.exit(main())
