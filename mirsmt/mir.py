"""Engine M, part 1: rustc MIR (text, -Zunpretty=mir) -> symbolic execution over z3 terms.

Only a *scalar slice* of the state is interpreted: integers, bools, C-like enum discriminants,
Option/Result/Poll tags and the scalar fields reachable from them. Everything else is an opaque
lazily-created symbol.  Whatever the executor does not understand and that could write a tracked
location raises `Unsupported` (the run is then inconclusive, never silently skipped).
"""
import re
from dataclasses import dataclass, field

import z3

INT_BITS = {"u8": 8, "u16": 16, "u32": 32, "u64": 64, "usize": 64, "u128": 128, "i8": 8, "i16": 16, "i32": 32, "i64": 64, "isize": 64, "i128": 128, "char": 32}
SIGNED = {"i8", "i16", "i32", "i64", "isize", "i128"}
ALIASES = {"SequenceNo": "u32", "TransferNumber": "u32", "DeliveryNumber": "u32", "Uint": "u32", "Ushort": "u16", "Boolean": "bool", "MessageFormat": "u32", "Ulong": "u64", "Ubyte": "u8"}
BUILTIN_VARIANTS = {"None": 0, "Some": 1, "Ok": 0, "Err": 1, "Ready": 0, "Pending": 1, "Continue": 0, "Break": 1}


class Unsupported(Exception):
    pass


def split_call(term):
    """`dest = callee(args) -> [return: bbN, unwind ..]` -> (dest, callee, argtext, bbN | 'unwind')
    (callee generics may contain parentheses, so the argument list is found from the right)"""
    m = re.match(r"(.*) -> (\[return: (bb\d+)(?:, unwind[^\]]*)?\]|unwind .*)$", term)
    if not m or " = " not in m.group(1):
        return None
    head = m.group(1)
    ret = m.group(3) or "unwind"
    if not head.endswith(")"):
        return None
    depth = 0
    i = len(head) - 1
    while i >= 0:
        if head[i] == ")":
            depth += 1
        elif head[i] == "(":
            depth -= 1
            if depth == 0:
                break
        i -= 1
    if i <= 0:
        return None
    left = head[:i]
    args = head[i + 1 : -1]
    dest, callee = left.split(" = ", 1)
    return dest.strip(), callee.strip(), args, ret


# --------------------------------------------------------------------------------------
# parsing
# --------------------------------------------------------------------------------------


@dataclass
class Fn:
    name: str
    sig: str
    decls: dict  # local -> type text
    blocks: dict  # bb name -> (list of statements, terminator)
    cleanup: set
    args: list
    debug: dict = field(default_factory=dict)
    ret_local: str = "_0"


def parse_mir(text):
    fns = {}
    i = 0
    lines = text.split("\n")
    n = len(lines)
    while i < n:
        l = lines[i]
        if l.startswith("fn ") and l.rstrip().endswith("{"):
            header = l
            m = re.match(r"fn (.*?)\((.*)\) -> (.*) \{$", header)
            name = m.group(1) if m else header[3:60]
            args = re.findall(r"(_\d+): ", m.group(2)) if m else []
            decls, blocks, cleanup, debug = {}, {}, set(), {}
            if m:
                for am in re.finditer(r"(_\d+): ((?:[^,()<>\[\]{}]|\((?:[^()]|\([^()]*\))*\)|<(?:[^<>]|<(?:[^<>]|<[^<>]*>)*>)*>|\[[^\]]*\]|\{[^{}]*\})+)", m.group(2)):
                    decls[am.group(1)] = am.group(2).strip()
                decls["_0"] = m.group(3).strip()
            i += 1
            cur = None
            stmts = []
            while i < n and lines[i] != "}":
                s = lines[i].strip()
                dm = re.match(r"let (?:mut )?(_\d+): (.*);$", s)
                if dm:
                    decls[dm.group(1)] = dm.group(2)
                elif s.startswith("debug "):
                    gm = re.match(r"debug (\S+) => (.*);$", s)
                    if gm:
                        debug[gm.group(1)] = gm.group(2)
                else:
                    bm = re.match(r"(bb\d+)( \(cleanup\))?: \{$", s)
                    if bm:
                        cur = bm.group(1)
                        stmts = []
                        if bm.group(2):
                            cleanup.add(cur)
                    elif s == "}" and cur is not None:
                        blocks[cur] = (stmts[:-1], stmts[-1] if stmts else "return")
                        cur = None
                    elif cur is not None and s and not s.startswith("//") and not s.startswith("scope") and not s.startswith("StorageLive") and not s.startswith("StorageDead"):
                        stmts.append(s.rstrip(";") if not s.endswith("];") or "->" not in s else s.rstrip(";"))
                i += 1
            fns.setdefault(name, Fn(name, header, decls, blocks, cleanup, args, debug))
        i += 1
    return fns


def callees(fn):
    """names of the functions a MIR body calls (non-cleanup blocks)"""
    out = []
    for bb, (stmts, term) in fn.blocks.items():
        if bb in fn.cleanup:
            continue
        c = split_call(term or "")
        if c:
            out.append(c[1])
    return out


def find_fn(fns, pattern, sig=None):
    rx = re.compile(pattern)
    hits = [k for k in fns if rx.search(k) and (sig is None or re.search(sig, fns[k].sig))]
    if len(hits) != 1:
        raise Unsupported(f"function pattern {pattern!r} matches {len(hits)} MIR functions: {hits[:4]}")
    return fns[hits[0]]


# ---- source-level struct / enum layouts (field index <-> name, variant name -> discriminant) ----


def parse_consts(paths):
    """simple named integer constants: `pub const NAME: usize = 512;` -> {NAME: (512, 'usize')}"""
    consts = {}
    for p in paths:
        try:
            src = open(p, encoding="utf-8").read()
        except OSError:
            continue
        for m in re.finditer(r"\bconst\s+([A-Z][A-Z0-9_]*)\s*:\s*(\w+)\s*=\s*(0x[0-9a-fA-F_]+|[0-9][0-9_]*)\s*;", src):
            lit = m.group(3).replace("_", "")
            consts.setdefault(m.group(1), (int(lit, 16) if lit.startswith("0x") else int(lit), m.group(2)))
    return consts


def _qual(path):
    """type path without generics / references: `&mut connection::error::Error<T>` -> `connection::error::Error`"""
    path = re.sub(r"^&(mut )?", "", (path or "").strip())
    path = re.sub(r"(::)?<.*", "", path)
    return path.rstrip(":").strip()


def _modpath(file):
    """module path of a source file: /repo/fe2o3-amqp/src/connection/error.rs -> fe2o3_amqp::connection::error"""
    m = re.search(r"/([\w-]+)/src/(.*)\.rs$", file)
    if not m:
        return ""
    segs = [m.group(1).replace("-", "_")] + [x for x in m.group(2).split("/") if x not in ("mod", "lib")]
    return "::".join(segs)


class LayoutTable(dict):
    """name -> layout for names defined once; names defined in several modules (`Error`, `Builder`, `Field`)
    are NOT in the dict: they are looked up with their module path as rustc prints it for ambiguous names
    (`connection::error::Error`). An ambiguous name that cannot be resolved is `Unsupported` (the obligation is
    inconclusive) -- never a silent pick of one of the candidates."""

    def __init__(self):
        super().__init__()
        self.amb = {}

    def add(self, name, modpath, val):
        if name in self.amb:
            self.amb[name].append((modpath, val))
        elif dict.__contains__(self, name):
            self.amb[name] = [self._first[name], (modpath, val)]
            dict.__delitem__(self, name)
        else:
            if not hasattr(self, "_first"):
                self._first = {}
            self._first[name] = (modpath, val)
            dict.__setitem__(self, name, val)

    def resolve(self, path):
        q = _qual(path)
        name = q.split("::")[-1]
        if dict.__contains__(self, name):
            return dict.__getitem__(self, name)
        if name not in self.amb:
            return None
        qsegs = q.split("::")[:-1]
        hits = []
        def subseq(a, b):
            it = iter(b)
            return all(x in it for x in a)

        exact = [val for modpath, val in self.amb[name] if qsegs and (modpath.split("::") == qsegs or modpath.split("::")[1:] == qsegs)]
        if len(exact) == 1:
            return exact[0]
        for modpath, val in self.amb[name]:
            msegs = modpath.split("::")
            # rustc prints the definition path (local crate: without the crate name) or a re-export path that
            # skips inner modules (`fe2o3_amqp_types::performatives::Disposition` for ..::performatives::disposition::Disposition)
            if qsegs and subseq(qsegs, msegs):
                hits.append(val)
        if len(hits) == 1:
            return hits[0]
        raise Unsupported(f"`{path}` names {len(self.amb[name])} different types and its module path does not single one out")

    def get(self, key, default=None):
        r = self.resolve(key)
        return default if r is None else r

    def __getitem__(self, key):
        r = self.resolve(key)
        if r is None:
            raise KeyError(key)
        return r

    def __contains__(self, key):
        return self.resolve(key) is not None


def _as_table(d):
    if isinstance(d, LayoutTable):
        return d
    t = LayoutTable()
    for k, v in d.items():
        t.add(k, "", v)
    return t


def parse_layouts(paths):
    structs, enums = LayoutTable(), LayoutTable()
    for p in sorted(paths):
        modpath = _modpath(p)
        try:
            src = open(p, encoding="utf-8").read()
        except OSError:
            continue
        src = re.sub(r"//[^\n]*", "", src)
        src = re.sub(r"/\*.*?\*/", "", src, flags=re.S)
        # test-only modules are not part of the library (they may re-declare a type under its own name)
        while True:
            tm = re.search(r"#\[cfg\(test\)\]\s*(?:#\[[^\]]*\]\s*)*(?:pub(?:\([^)]*\))?\s+)?mod\s+\w+\s*\{", src)
            if not tm:
                break
            body = _balanced(src, tm.end() - 1)
            if body is None:
                break
            src = src[: tm.start()] + src[tm.end() + len(body) + 1 :]
        for m in re.finditer(r"\bstruct\s+(\w+)\s*(?:<[^{;]*?>)?\s*(?:where[^{]*)?\{", src):
            body = _balanced(src, m.end() - 1)
            if body is None:
                continue
            fields = []
            depth = 0
            cur = ""
            for ch in body:
                if ch in "<([{":
                    depth += 1
                elif ch in ">)]}":
                    depth -= 1
                if ch == "," and depth == 0:
                    fields.append(cur)
                    cur = ""
                else:
                    cur += ch
            if cur.strip():
                fields.append(cur)
            names = []
            for f in fields:
                f = re.sub(r"#\[[^\]]*\]", "", f).strip()
                fm = re.match(r"(?:pub(?:\([^)]*\))?\s+)?(\w+)\s*:", f)
                if fm:
                    names.append(fm.group(1))
            structs.add(m.group(1), modpath, names)
        for m in re.finditer(r"\benum\s+(\w+)\s*(?:<[^{;]*?>)?\s*\{", src):
            body = _balanced(src, m.end() - 1)
            if body is None:
                continue
            variants = []
            depth = 0
            cur = ""
            for ch in body:
                if ch in "<([{":
                    depth += 1
                elif ch in ">)]}":
                    depth -= 1
                if ch == "," and depth == 0:
                    variants.append(cur)
                    cur = ""
                else:
                    cur += ch
            if cur.strip():
                variants.append(cur)
            vmap = {}
            idx = 0
            for v in variants:
                v = re.sub(r"#\[[^\]]*\]", "", v).strip()
                vm = re.match(r"(\w+)", v)
                if not vm:
                    continue
                em = re.search(r"=\s*(0x[0-9a-fA-F_]+|\d[\d_]*)", v) if "(" not in v and "{" not in v else None
                if em:
                    lit = em.group(1).replace("_", "")
                    lit = re.sub(r"(u8|u16|u32|u64|usize|i8|i16|i32|i64|isize)$", "", lit) if not lit.startswith("0x") else re.sub(r"(u8|u16|u32|u64|usize)$", "", lit)
                    idx = int(lit, 16) if lit.startswith("0x") else int(lit)
                vmap[vm.group(1)] = idx
                idx += 1
            enums.add(m.group(1), modpath, vmap)
    return structs, enums


def _balanced(src, open_idx):
    depth = 0
    for j in range(open_idx, len(src)):
        if src[j] == "{":
            depth += 1
        elif src[j] == "}":
            depth -= 1
            if depth == 0:
                return src[open_idx + 1 : j]
    return None


# --------------------------------------------------------------------------------------
# values
# --------------------------------------------------------------------------------------


class Agg(dict):
    """struct / tuple / enum payload tree: key -> value; '#d' = discriminant (z3 BitVec 64);
    ('as', variant) -> Agg of that variant's fields.  Missing keys are created on first read."""

    def __init__(self, label="?"):
        super().__init__()
        self.label = label


@dataclass
class Ref:
    path: tuple  # (root local or '@name', proj...)
    mutable: bool


def norm_type(t):
    t = t.strip()
    t = re.sub(r"^(?:std|core|alloc)::[\w:]*::(\w+)", r"\1", t) if not t.startswith("std::option") else t
    last = re.split(r"::", re.sub(r"<.*", "", t))[-1]
    if last in ALIASES and "<" not in t:
        return ALIASES[last]
    return t


def is_int(t):
    return norm_type(t) in INT_BITS


class Ctx:
    """one symbolic run: fresh-symbol factory + recorded inputs"""

    def __init__(self):
        self.n = 0
        self.inputs = {}

    def fresh(self, ty, hint):
        ty = norm_type(ty)
        self.n += 1
        name = f"{hint}#{self.n}"
        if ty in INT_BITS:
            v = z3.BitVec(name, INT_BITS[ty])
            self.inputs[name] = v
            return v
        if ty == "bool":
            v = z3.Bool(name)
            self.inputs[name] = v
            return v
        return Agg(name)


# --------------------------------------------------------------------------------------
# executor
# --------------------------------------------------------------------------------------


@dataclass
class Path:
    cond: list
    locals: dict
    calls: list
    obligations: list  # (description, z3 Bool that must hold, path condition snapshot)
    ret: object = None
    end: str = ""
    visits: dict = field(default_factory=dict)


class Executor:
    def __init__(self, fns, structs, enums, inline=None, max_visits=3, max_paths=4000, consts=None):
        self.consts = consts or {}
        self.fns = fns
        self.structs = _as_table(structs)
        self.enums = _as_table(enums)
        self.inline = inline or {}
        self.max_visits = max_visits
        self.max_paths = max_paths
        self.ctx = Ctx()
        self.solver = z3.Solver()
        self.solver.set("timeout", 20000)
        self.assumptions = []  # type-validity facts about symbolic inputs (enum discriminants in range)
        self.models = []  # obligation-specific call models: (regex, fn(ex, st, callee, args, argvals, dest_ty) -> value)
        self.stop_calls = None  # regex: a path ends (end="stopped") when it reaches such a call
        self.on_call = None  # optional hook(ex, st, callee, depth) run at every call terminator (schedule points)

    # ---- place handling -------------------------------------------------------------
    PLACE_TOK = re.compile(r"\s*(\(|\)|\*|_\d+|\.\d+|\.\w+|as variant#\d+|as \w+|: )")

    def parse_place(self, s):
        """returns list: [root, proj...]; proj = ('f', idx) | ('d',) | ('as', variant)"""
        s = s.strip()
        # strip type ascriptions "(X: T)" -> X   (types may contain nested brackets)
        s = self._strip_types(s)
        return self._parse_place_inner(s)

    def _strip_types(self, s):
        out = ""
        i = 0
        while i < len(s):
            if s.startswith(": ", i):
                # skip until the matching ')' at depth 0
                depth = 0
                j = i + 2
                while j < len(s):
                    c = s[j]
                    if c in "<([{":
                        depth += 1
                    elif c in ">]}":
                        depth -= 1
                    elif c == ")":
                        if depth == 0:
                            break
                        depth -= 1
                    j += 1
                i = j
            else:
                out += s[i]
                i += 1
        return out

    def _parse_place_inner(self, s):
        s = s.strip()
        # grammar: P := _N | (*P) | (P).k | P.k | (P as V)
        pos = 0

        def parse():
            nonlocal pos
            while pos < len(s) and s[pos] == " ":
                pos += 1
            if s[pos] == "(":
                pos += 1
                if s[pos] == "*":
                    pos += 1
                    inner = parse()
                    node = inner + [("d",)]
                else:
                    inner = parse()
                    node = inner
                    while pos < len(s) and s[pos] == " ":
                        pos += 1
                    if s.startswith("as ", pos):
                        pos += 3
                        m = re.match(r"(variant#\d+|\w+)", s[pos:])
                        pos += m.end()
                        node = node + [("as", m.group(1))]
                while pos < len(s) and s[pos] == " ":
                    pos += 1
                if pos < len(s) and s[pos] == ")":
                    pos += 1
            else:
                m = re.match(r"_\d+", s[pos:])
                if not m:
                    raise Unsupported(f"cannot parse place {s!r} at {pos}")
                node = [m.group(0)]
                pos += m.end()
            while pos < len(s) and s[pos] == ".":
                m = re.match(r"\.(\d+)", s[pos:])
                if not m:
                    break
                node = node + [("f", int(m.group(1)))]
                pos += m.end()
            return node

        node = parse()
        return node

    def resolve(self, st, place):
        """follow references: returns (container Agg-or-locals dict, key)"""
        root = place[0]
        cont, key = st.locals, root
        for pr in place[1:]:
            cur = cont.get(key)
            if pr == ("d",):
                if isinstance(cur, Ref):
                    cont, key = self.resolve(st, list(cur.path))
                    continue
                if cur is None:
                    # reference argument never assigned: it points to an anonymous object
                    tgt = "@" + str(key)
                    st.locals.setdefault(tgt, Agg(tgt))
                    cont[key] = Ref((tgt,), True)
                    cont, key = st.locals, tgt
                    continue
                if isinstance(cur, Agg):
                    # an opaque value of reference type (e.g. returned by an unmodelled call): it points
                    # to an anonymous object, represented by the aggregate itself
                    tgt = f"@anon{self.ctx.n}"
                    self.ctx.n += 1
                    st.locals[tgt] = cur
                    cont[key] = Ref((tgt,), True)
                    cont, key = st.locals, tgt
                    continue
                raise Unsupported(f"deref of non-reference {place}")
            cur = cont.get(key)
            if cur is None:
                cur = Agg(str(key))
                cont[key] = cur
            if isinstance(cur, Ref):
                # auto-deref through field access on a reference-typed local (Pin<&mut T>.0 etc.)
                cont, key = self.resolve(st, list(cur.path))
                cur = cont.get(key)
                if cur is None:
                    cur = Agg(str(key))
                    cont[key] = cur
            if not isinstance(cur, Agg):
                raise Unsupported(f"projection {pr} into scalar at {place}")
            if pr[0] == "f":
                cont, key = cur, pr[1]
            elif pr[0] == "as":
                sub = cur.get(("as", pr[1]))
                if sub is None:
                    sub = Agg(f"{cur.label}as{pr[1]}")
                    cur[("as", pr[1])] = sub
                cont, key = cur, ("as", pr[1])
        return cont, key

    def read_place(self, st, text, ty=None):
        place = self.parse_place(text)
        cont, key = self.resolve(st, place)
        v = cont.get(key)
        if v is None:
            if ty is None:
                ty = self.place_type(st, text)
            v = self.ctx.fresh(ty or "?", self.hint(place))
            cont[key] = v
        return v

    def hint(self, place):
        return "".join(p if isinstance(p, str) else (f".{p[1]}" if p[0] == "f" else ("*" if p[0] == "d" else f"@{p[1]}")) for p in place)

    def place_type(self, st, text):
        text = text.strip()
        m = re.search(r": ([^()]*(?:\([^()]*\))?[^()]*)\)$", text)
        # outermost ascription is the last ": T)" at depth 1
        t = self._outer_type(text)
        if t:
            return t
        if re.fullmatch(r"_\d+", text):
            return self.cur_fn.decls.get(text)
        return None

    def _outer_type(self, text):
        if not text.startswith("("):
            return None
        depth = 0
        for i, c in enumerate(text):
            if c in "(<[{":
                depth += 1
            elif c in ")>]}":
                depth -= 1
            if depth == 1 and text.startswith(": ", i):
                # type runs to the matching close paren
                j = i + 2
                d = 0
                while j < len(text):
                    c2 = text[j]
                    if c2 in "<([{":
                        d += 1
                    elif c2 in ">]}":
                        d -= 1
                    elif c2 == ")":
                        if d == 0:
                            return text[i + 2 : j]
                        d -= 1
                    j += 1
        return None

    def write_place(self, st, text, val):
        place = self.parse_place(text)
        cont, key = self.resolve(st, place)
        cont[key] = val

    # ---- operands -------------------------------------------------------------------
    def operand(self, st, s, ty=None):
        s = s.strip()
        if s.startswith("copy ") or s.startswith("move "):
            v = self.read_place(st, s[5:], ty)
            return v
        if s.startswith("const "):
            return self.const(s[6:], ty)
        return self.read_place(st, s, ty)

    def const(self, c, ty=None):
        c = c.strip()
        if c in ("true", "false"):
            return z3.BoolVal(c == "true")
        m = re.match(r"(-?\d+)_(\w+)$", c)
        if m:
            t = m.group(2)
            return z3.BitVecVal(int(m.group(1)), INT_BITS[t])
        last = c.split("::")[-1]
        if last in self.consts and (ty is None or norm_type(ty) in INT_BITS or True):
            val, cty = self.consts[last]
            w = INT_BITS.get(norm_type(ty or cty or "usize"), INT_BITS.get(norm_type(cty or "usize"), 64))
            return z3.BitVecVal(val, w)
        m = re.match(r"(\w+(?:::\w+)*)::(\w+)::\{constant#0\}$", c)
        if m and m.group(2) in self.enums.get(m.group(1), {}):
            # the discriminant expression of a fieldless enum variant (`EncodingCodes::Uuid as u8`)
            vals = self.enums[m.group(1)]
            w = INT_BITS.get(norm_type(ty or ""), 8 if max(vals.values()) < 256 else 32)
            return z3.BitVecVal(vals[m.group(2)], w)
        m = re.match(r"(\w+(?:::\w+)*)::(\w+)$", c)
        if m and m.group(2) in self.enums.get(m.group(1), {}):
            a = Agg(c)
            a["#d"] = z3.BitVecVal(self.enums[m.group(1)][m.group(2)], 64)
            return a
        return Agg("const:" + c[:30])

    # ---- statements -----------------------------------------------------------------
    def split_args(self, s):
        out, depth, cur = [], 0, ""
        for ch in s:
            if ch in "(<[{":
                depth += 1
            elif ch in ")>]}":
                depth -= 1
            if ch == "," and depth == 0:
                out.append(cur.strip())
                cur = ""
            else:
                cur += ch
        if cur.strip():
            out.append(cur.strip())
        return out

    def exec_assign(self, st, lhs, rhs):
        rhs = rhs.strip()
        if rhs.startswith("no_retag "):
            rhs = rhs[len("no_retag "):]
        lty = self.place_type(st, lhs)
        um = re.match(r"(?:copy|move) (_\d+) as &(?:mut )?\[\w+\] \(PointerCoercion\(Unsize", rhs)
        if um:
            # &[T; N] -> &[T]: a slice of N elements (N from the declared type of the source)
            am = re.match(r"&(?:mut )?\[\w+; (\d+)\]$", (self.cur_fn.decls.get(um.group(1)) or "").strip())
            if am:
                name = f"@unsized{self.ctx.n}"
                self.ctx.n += 1
                sl = Agg("slice")
                sl["#len"] = z3.BitVecVal(int(am.group(1)), 64)
                st.locals[name] = sl
                self.write_place(st, lhs, Ref((name,), False))
                return
        pm0 = re.match(r"PtrMetadata\((?:move|copy) (.*)\)$", rhs)
        if pm0:
            v = self.read_place(st, pm0.group(1))
            if isinstance(v, Ref):
                cont, key = self.resolve(st, list(v.path))
                tgt = cont.get(key)
                if isinstance(tgt, Agg) and "#len" in tgt:
                    self.write_place(st, lhs, tgt["#len"])
                    return
            self.write_place(st, lhs, self.ctx.fresh("usize", "ptrmeta"))
            return
        # references
        m = re.match(r"&(mut |raw const |raw mut )?(.*)$", rhs)
        if m and not rhs.startswith("&&"):
            place = self.parse_place(m.group(2))
            # canonicalise: resolve to storage, keep path as given but deref'd through refs
            cont, key = self.resolve(st, place)
            self.write_place(st, lhs, Ref(self._canon(st, place), bool(m.group(1) and "mut" in m.group(1))))
            return
        if rhs.startswith("copy ") or rhs.startswith("move ") or rhs.startswith("const "):
            # casts
            cm = re.match(r"(copy|move|const) (.*) as (\w+) \((\w+)\)$", rhs)
            if cm:
                v = self.operand(st, f"{cm.group(1)} {cm.group(2)}")
                self.write_place(st, lhs, self.cast(v, cm.group(3), src_ty=self.place_type(st, cm.group(2)) if cm.group(1) != "const" else None))
                return
            v = self.operand(st, rhs, lty)
            if rhs.startswith("move ") or rhs.startswith("copy "):
                v = self.clone_val(v)
            self.write_place(st, lhs, v)
            return
        m = re.match(r"discriminant\((.*)\)$", rhs)
        if m:
            a = self.read_place(st, m.group(1))
            if not isinstance(a, Agg):
                raise Unsupported(f"discriminant of scalar {m.group(1)}")
            if "#d" not in a:
                self.new_discr(st, a, self.deep_type(st, m.group(1)))
            self.write_place(st, lhs, a["#d"])
            return
        m = re.match(r"(Add|Sub|Mul)WithOverflow\((.*)\)$", rhs)
        if m:
            a, b = [self.operand(st, x) for x in self.split_args(m.group(2))]
            signed = norm_type(self.operand_type(st, self.split_args(m.group(2))[0]) or "u32") in SIGNED
            w = a.size()
            if m.group(1) == "Add":
                val = a + b
                ovf = z3.Not(z3.BVAddNoOverflow(a, b, signed)) if not signed else z3.Or(z3.Not(z3.BVAddNoOverflow(a, b, True)), z3.Not(z3.BVAddNoUnderflow(a, b)))
            elif m.group(1) == "Sub":
                val = a - b
                ovf = z3.Not(z3.BVSubNoUnderflow(a, b, signed)) if not signed else z3.Or(z3.Not(z3.BVSubNoOverflow(a, b)), z3.Not(z3.BVSubNoUnderflow(a, b, True)))
            else:
                val = a * b
                # written out with a double-width product: z3's bvumul_noovfl is not SMT-LIB (cvc5 1.0 rejects it)
                if signed:
                    wide = z3.SignExt(w, a) * z3.SignExt(w, b)
                    ovf = wide != z3.SignExt(w, z3.Extract(w - 1, 0, wide))
                else:
                    wide = z3.ZeroExt(w, a) * z3.ZeroExt(w, b)
                    ovf = z3.Extract(2 * w - 1, w, wide) != 0
            t = Agg("ovf")
            t[0] = val
            t[1] = ovf
            self.write_place(st, lhs, t)
            return
        m = re.match(r"(Add|Sub|Mul|BitAnd|BitOr|BitXor|Shl|Shr|Eq|Ne|Lt|Le|Gt|Ge|Div|Rem|AddUnchecked|SubUnchecked)\((.*)\)$", rhs)
        if m:
            args = self.split_args(m.group(2))
            a, b = [self.operand(st, x) for x in args]
            signed = norm_type(self.operand_type(st, args[0]) or "u32") in SIGNED
            op = m.group(1)
            if isinstance(a, Agg) or isinstance(b, Agg):
                raise Unsupported(f"binary op on aggregate: {rhs}")
            r = {
                "Add": lambda: a + b, "AddUnchecked": lambda: a + b, "Sub": lambda: a - b, "SubUnchecked": lambda: a - b, "Mul": lambda: a * b,
                "BitAnd": lambda: (z3.And(a, b) if z3.is_bool(a) else a & b), "BitOr": lambda: (z3.Or(a, b) if z3.is_bool(a) else a | b),
                "BitXor": lambda: (z3.Xor(a, b) if z3.is_bool(a) else a ^ b),
                "Shl": lambda: a << b, "Shr": lambda: (a >> b if signed else z3.LShR(a, b)),
                "Eq": lambda: a == b, "Ne": lambda: a != b,
                "Lt": lambda: (a < b if signed else z3.ULT(a, b)), "Le": lambda: (a <= b if signed else z3.ULE(a, b)),
                "Gt": lambda: (a > b if signed else z3.UGT(a, b)), "Ge": lambda: (a >= b if signed else z3.UGE(a, b)),
                "Div": lambda: (a / b if signed else z3.UDiv(a, b)), "Rem": lambda: (z3.SRem(a, b) if signed else z3.URem(a, b)),
            }[op]()
            self.write_place(st, lhs, r)
            return
        m = re.match(r"Not\((.*)\)$", rhs)
        if m:
            a = self.operand(st, m.group(1))
            self.write_place(st, lhs, z3.Not(a) if z3.is_bool(a) else ~a)
            return
        # tuple aggregate
        if rhs.startswith("(") and rhs.endswith(")") and not rhs.startswith("(*") and not re.match(r"\(_\d+", rhs) and not re.match(r"\(\(", rhs):
            t = Agg("tuple")
            for i, a in enumerate(self.split_args(rhs[1:-1])):
                t[i] = self.clone_val(self.operand(st, a))
            self.write_place(st, lhs, t)
            return
        # enum variant / struct aggregates:  Path::Variant(args) | Path { f: v, .. } | Path::Variant
        m = self._split_variant(rhs)
        if m and (m.group(2) in BUILTIN_VARIANTS or m.group(2) in self.enums.get(_qual(m.group(1)), {})) and " as " not in rhs:
            vname = m.group(2)
            ename = self._simple(m.group(1))
            d = BUILTIN_VARIANTS.get(vname) if ename in ("Option", "Result", "Poll", "ControlFlow") else self.enums.get(_qual(m.group(1)), {}).get(vname, BUILTIN_VARIANTS.get(vname))
            a = Agg(f"{ename}::{vname}")
            a["#d"] = z3.BitVecVal(d, 64)
            if m.group(3) is not None:
                sub = Agg(vname)
                for i, x in enumerate(self.split_args(m.group(3))):
                    sub[i] = self.clone_val(self.operand(st, x))
                a[("as", vname)] = sub
            self.write_place(st, lhs, a)
            return
        m = re.match(r"([\w:<>, &'\[\]()]+?)(?:::(\w+))? \{ (.*) \}$", rhs)
        if m and m.group(2) and not (m.group(2) in self.enums.get(_qual(m.group(1)), {})):
            # `path::Struct { .. }`: the last segment is the struct, not an enum variant
            m = re.match(r"([\w:<>, &'\[\]()]+?)() \{ (.*) \}$".replace("+?)()", "+)()"), rhs)
        if m:
            sname = self._simple(m.group(1))
            squal = _qual(m.group(1))
            fields = {}
            for fa in self.split_args(m.group(3)):
                k, v = fa.split(": ", 1)
                fields[k.strip()] = self.clone_val(self.operand(st, v))
            a = Agg(sname)
            if m.group(2):  # struct-like enum variant
                ename, vname = sname, m.group(2)
                d = self.enums.get(squal, {}).get(vname)
                if d is None:
                    raise Unsupported(f"unknown enum variant {rhs[:60]}")
                a["#d"] = z3.BitVecVal(d, 64)
                sub = Agg(vname)
                for i, (k, v) in enumerate(fields.items()):
                    sub[i] = v
                a[("as", vname)] = sub
            else:
                order = self.structs.get(squal) or {"Range": ["start", "end"], "RangeFrom": ["start"], "RangeTo": ["end"]}.get(sname)
                if order is None:
                    raise Unsupported(f"struct layout of {sname} unknown")
                for k, v in fields.items():
                    if k not in order:
                        raise Unsupported(f"field {k} not in parsed layout of {sname} (renamed?)")
                    a[order.index(k)] = v
            self.write_place(st, lhs, a)
            return
        tm = re.match(r"([A-Z]\w*)(?:::<.*?>)?\((.*)\)$", rhs)
        if tm and tm.group(1) not in BUILTIN_VARIANTS and tm.group(1) not in ("PtrMetadata", "Len", "ShallowInitBox", "CopyForDeref", "Repeat", "UnaryOp", "NullaryOp", "Cast"):
            # tuple-struct constructor, e.g. `OutgoingChannel(move _22)`
            a = Agg(tm.group(1))
            for i, x in enumerate(self.split_args(tm.group(2))):
                a[i] = self.clone_val(self.operand(st, x))
            self.write_place(st, lhs, a)
            return
        if re.fullmatch(r"[A-Z]\w*", rhs):
            # bare fieldless variant, e.g. `_6 = Mapped`: the enum is the destination's type
            ename = _qual(lty or self.deep_type(st, lhs) or "")
            cands = [e for e, vs in self.enums.items() if rhs in vs]
            if ename and rhs in self.enums.get(ename, {}):
                pass
            elif len(cands) == 1:
                ename = cands[0]
            elif not cands and (lty or "").startswith("std::"):
                # a std enum the sources do not define (io::ErrorKind, ...): an opaque value
                a = Agg(f"{lty}::{rhs}")
                self.write_place(st, lhs, a)
                return
            else:
                raise Unsupported(f"cannot resolve bare variant {rhs} (destination type {lty})")
            a = Agg(f"{ename}::{rhs}")
            a["#d"] = z3.BitVecVal(self.enums[ename][rhs], 64)
            self.write_place(st, lhs, a)
            return
        pm = re.match(r"PtrMetadata\((?:move|copy) (.*)\)$", rhs)
        if pm:
            try:
                v = self.read_place(st, pm.group(1))
                if isinstance(v, Ref):
                    cont, key = self.resolve(st, list(v.path))
                    tgt = cont.get(key)
                    if isinstance(tgt, Agg) and "#len" in tgt:
                        self.write_place(st, lhs, tgt["#len"])
                        return
            except Unsupported:
                pass
        if re.match(r"\[.*\]$", rhs) or rhs.startswith("PtrMetadata") or rhs.startswith("Len(") or " as " in rhs or rhs.startswith("ShallowInitBox") or rhs.startswith("{closure") or rhs.startswith("{coroutine") or rhs.startswith("{async"):
            self.write_place(st, lhs, self.ctx.fresh(lty or "?", "opaque"))
            return
        if re.fullmatch(r"[\w:<>, ]+::[A-Z]\w*", rhs):
            # a unit-like variant/constant of a type whose layout we do not track (e.g. atomic::Ordering)
            self.write_place(st, lhs, Agg("const:" + rhs[-30:]))
            return
        raise Unsupported(f"rvalue not understood: {lhs} = {rhs[:120]}")

    class _M:
        def __init__(self, g):
            self.g = g

        def group(self, i):
            return self.g[i]

    def _split_variant(self, rhs):
        """`path::Variant(args)` / `path::Variant` with arbitrary generics in `path` -> groups (0, path, Variant, args|None)"""
        depth = 0
        last = -1
        i = 0
        n = len(rhs)
        while i < n:
            c = rhs[i]
            if c in "<([{":
                depth += 1
            elif c in ">)]}":
                depth -= 1
            elif depth == 0 and rhs.startswith("::", i):
                last = i
                i += 1
            elif depth == 0 and c == " ":
                return None
            i += 1
            if depth == 0 and last >= 0 and i < n and rhs[i] == "(":
                break
        if last < 0:
            return None
        path, rest = rhs[:last], rhs[last + 2 :]
        vm = re.match(r"(\w+)(?:\((.*)\))?$", rest, re.S)
        if not vm:
            return None
        return Executor._M([rhs, path, vm.group(1), vm.group(2)])

    def new_discr(self, st, a, ty):
        """fresh discriminant of an enum-typed place, constrained to the variants of its type"""
        d = z3.BitVec(f"{a.label}#d#{self.ctx.n}", 64)
        self.ctx.n += 1
        self.ctx.inputs[str(d)] = d
        a["#d"] = d
        ty = (ty or "").strip()
        ty = re.sub(r"^&(mut )?", "", ty)
        base = self._simple(ty)
        nvar = None
        if base in ("Option", "Result", "Poll", "ControlFlow"):
            nvar = 2
        elif _qual(ty) in self.enums:
            vals = sorted(self.enums[_qual(ty)].values())
            self.assumptions.append(z3.Or(*[d == v for v in vals]))
        if nvar:
            self.assumptions.append(z3.ULT(d, nvar))
        return d

    def deep_type(self, st, text):
        """type of a place expression: its ascription, or the declared type of the local (through one deref)"""
        text = text.strip()
        t = self._outer_type(text)
        if t:
            return t
        m = re.fullmatch(r"\(\*(_\d+)\)", text)
        if m:
            t = self.cur_fn.decls.get(m.group(1), "")
            return re.sub(r"^&(mut )?", "", t)
        if re.fullmatch(r"_\d+", text):
            return self.cur_fn.decls.get(text)
        return None

    def _simple(self, path):
        path = re.sub(r"(::)?<.*>", "", path.strip())
        path = re.sub(r"(::)?<.*", "", path)
        return path.rstrip(":").split("::")[-1].strip()

    def _canon(self, st, place):
        """canonical storage path of a place (follows refs)"""
        root = place[0]
        path = [root]
        for pr in place[1:]:
            if pr == ("d",):
                cont, key = self.resolve(st, path)
                cur = cont.get(key)
                if isinstance(cur, Ref):
                    path = list(cur.path)
                    continue
                self.resolve(st, path + [pr])
                cont, key = self.resolve(st, path)
                cur = cont.get(key)
                path = list(cur.path)
                continue
            path = path + [pr]
        return tuple(path)

    def clone_val(self, v):
        if isinstance(v, Agg):
            c = Agg(v.label)
            for k, x in v.items():
                c[k] = self.clone_val(x)
            return c
        return v

    def operand_type(self, st, s):
        s = s.strip()
        if s.startswith("const "):
            m = re.search(r"_(\w+)$", s)
            return m.group(1) if m else None
        s = s[5:] if s.startswith(("copy ", "move ")) else s
        return self.place_type(st, s)

    def cast(self, v, to, src_ty=None):
        to = norm_type(to)
        if to not in INT_BITS:
            if to == "bool":
                return v
            raise Unsupported(f"cast to {to}")
        w = INT_BITS[to]
        if z3.is_bool(v):
            return z3.If(v, z3.BitVecVal(1, w), z3.BitVecVal(0, w))
        if isinstance(v, Agg):
            if "#d" in v:
                v = v["#d"]
            else:
                # an opaque value (result of an unmodelled call) cast to an integer: any value of that width
                self.ctx.n += 1
                return z3.BitVec(f"cast.of.opaque#{self.ctx.n}", w)
        sw = v.size()
        if sw == w:
            return v
        if sw > w:
            return z3.Extract(w - 1, 0, v)
        signed = norm_type(src_ty or "") in SIGNED
        return z3.SignExt(w - sw, v) if signed else z3.ZeroExt(w - sw, v)

    # ---- calls ----------------------------------------------------------------------
    def model_call(self, st, callee, args, dest_ty):
        """returns value or None if not modelled"""
        m = re.match(r"core::num::<impl (\w+)>::(\w+)$", callee)
        if m:
            ty, op = m.group(1), m.group(2)
            vals = [self.operand(st, a) for a in args]
            w = INT_BITS[ty]
            signed = ty in SIGNED
            a = vals[0]
            b = vals[1] if len(vals) > 1 else None
            if signed and op not in ("wrapping_add", "wrapping_sub", "wrapping_neg"):
                return None
            mx = z3.BitVecVal((1 << w) - 1, w)
            if op == "wrapping_add":
                return a + b
            if op == "wrapping_sub":
                return a - b
            if op == "saturating_add":
                return z3.If(z3.BVAddNoOverflow(a, b, False), a + b, mx)
            if op == "saturating_sub":
                return z3.If(z3.UGE(a, b), a - b, z3.BitVecVal(0, w))
            if op in ("checked_add", "checked_sub"):
                r = Agg("Option")
                ok = z3.BVAddNoOverflow(a, b, False) if op == "checked_add" else z3.UGE(a, b)
                r["#d"] = z3.If(ok, z3.BitVecVal(1, 64), z3.BitVecVal(0, 64))
                sub = Agg("Some")
                sub[0] = a + b if op == "checked_add" else a - b
                r[("as", "Some")] = sub
                return r
            if op == "min":
                return z3.If(z3.ULE(a, b), a, b)
            if op == "max":
                return z3.If(z3.UGE(a, b), a, b)
            return None
        m = re.match(r"(?:std::cmp|core::cmp)::(min|max)::<(\w+)>$", callee) or re.match(r"<(\w+) as Ord>::(min|max)$", callee)
        if m:
            g = m.groups()
            op, ty = (g[0], g[1]) if g[0] in ("min", "max") else (g[1], g[0])
            if norm_type(ty) in INT_BITS and norm_type(ty) not in SIGNED:
                a, b = [self.operand(st, x) for x in args]
                return z3.If(z3.ULE(a, b), a, b) if op == "min" else z3.If(z3.UGE(a, b), a, b)
        if re.search(r"^<(std::result::)?Result<.*> as (std::ops::)?Try>::branch$", callee):
            x = self.operand(st, args[0])
            if isinstance(x, Agg):
                if "#d" not in x:
                    self.new_discr(st, x, "Result")
                r = Agg("ControlFlow")
                r["#d"] = z3.If(x["#d"] == 0, z3.BitVecVal(0, 64), z3.BitVecVal(1, 64))
                cont = Agg("Continue")
                ok = x.get(("as", "Ok"))
                cont[0] = ok[0] if isinstance(ok, Agg) and 0 in ok else Agg("okval")
                r[("as", "Continue")] = cont
                brk = Agg("Break")
                res = Agg("Result::Err")
                res["#d"] = z3.BitVecVal(1, 64)
                if ("as", "Err") in x:
                    res[("as", "Err")] = x[("as", "Err")]
                brk[0] = res
                r[("as", "Break")] = brk
                return r
        if re.match(r"(std::option::)?Option::<.*>::ok_or(_else)?::<", callee):
            x = self.operand(st, args[0])
            if isinstance(x, Ref):
                cont, key = self.resolve(st, list(x.path))
                x = cont.get(key)
            if isinstance(x, Agg):
                if "#d" not in x:
                    self.new_discr(st, x, "Option")
                r = Agg("Result")
                r["#d"] = z3.If(x["#d"] == 1, z3.BitVecVal(0, 64), z3.BitVecVal(1, 64))
                okv = Agg("Ok")
                some = x.get(("as", "Some"))
                okv[0] = some[0] if isinstance(some, Agg) and 0 in some else Agg("someval")
                r[("as", "Ok")] = okv
                return r
        if re.match(r"(std::result::)?Result::<.*>::map_err::<", callee):
            x = self.operand(st, args[0])
            if isinstance(x, Agg):
                if "#d" not in x:
                    self.new_discr(st, x, "Result")
                r = Agg("Result")
                r["#d"] = x["#d"]
                if ("as", "Ok") in x:
                    r[("as", "Ok")] = x[("as", "Ok")]
                return r
        if re.search(r"as (std::ops::)?FromResidual<.*Result<.*>>::from_residual$", callee) and re.match(r"<(std::result::)?Result<", callee):
            r = Agg("Result::Err")
            r["#d"] = z3.BitVecVal(1, 64)
            return r
        m = re.match(r"(?:std::option::)?Option::<(.*)>::(unwrap_or|is_some|is_none|unwrap_or_default)$", callee)
        if m:
            op = m.group(2)
            o = self.operand(st, args[0])
            if isinstance(o, Ref):
                cont, key = self.resolve(st, list(o.path))
                o = cont.get(key)
            if not isinstance(o, Agg):
                return None
            if "#d" not in o:
                self.new_discr(st, o, "Option")
            is_some = o["#d"] == 1
            if op == "is_some":
                return is_some
            if op == "is_none":
                return z3.Not(is_some)
            inner_ty = m.group(1)
            if norm_type(inner_ty) in INT_BITS or norm_type(inner_ty) == "bool":
                sub = o.get(("as", "Some"))
                if sub is None:
                    sub = Agg("Some")
                    o[("as", "Some")] = sub
                if 0 not in sub:
                    sub[0] = self.ctx.fresh(inner_ty, o.label + ".some")
                d = self.operand(st, args[1]) if op == "unwrap_or" else (z3.BoolVal(False) if norm_type(inner_ty) == "bool" else z3.BitVecVal(0, INT_BITS[norm_type(inner_ty)]))
                return z3.If(is_some, sub[0], d)
        return None

    def havoc_through(self, st, v):
        if isinstance(v, Ref) and v.mutable:
            cont, key = self.resolve(st, list(v.path))
            cont[key] = Agg(f"havoc:{self.hint(list(v.path))}#{self.ctx.n}")
            self.ctx.n += 1
        elif isinstance(v, Agg):
            for x in list(v.values()):
                self.havoc_through(st, x)

    # ---- running --------------------------------------------------------------------
    def run(self, fn, init_locals, cond=None, depth=0):
        """symbolically execute `fn` from bb0; returns list[Path] (terminated paths)"""
        if depth > 6:
            raise Unsupported("inlining too deep")
        done = []
        start = Path(cond=list(cond or []), locals=init_locals, calls=[], obligations=[])
        work = [(start, "bb0")]
        while work:
            if len(done) + len(work) > self.max_paths:
                raise Unsupported("too many paths")
            st, bb = work.pop()
            saved_fn = getattr(self, "cur_fn", None)
            self.cur_fn = fn
            try:
                nxt = self.exec_block(fn, st, bb, depth)
            finally:
                self.cur_fn = saved_fn if saved_fn is not None else fn
            for s2, b2 in nxt:
                if b2 is None:
                    done.append(s2)
                else:
                    work.append((s2, b2))
        return done

    def fork(self, st):
        p = Path(cond=list(st.cond), locals=self.clone_locals(st.locals), calls=list(st.calls), obligations=list(st.obligations), visits=dict(st.visits))
        return p

    def clone_locals(self, locs):
        return {k: self.clone_val(v) for k, v in locs.items()}

    def feasible(self, conds):
        self.solver.push()
        self.solver.add(*self.assumptions)
        self.solver.add(*conds)
        r = self.solver.check()
        self.solver.pop()
        return r != z3.unsat

    def exec_block(self, fn, st, bb, depth):
        if bb in fn.cleanup:
            st.end = "unwind"
            return [(st, None)]
        st.visits[bb] = st.visits.get(bb, 0) + 1
        if st.visits[bb] > self.max_visits:
            st.end = f"loop-bound@{bb}"
            return [(st, None)]
        stmts, term = fn.blocks[bb]
        for s in stmts:
            if s.startswith(("nop", "FakeRead", "PlaceMention", "AscribeUserType", "Retag", "Coverage", "ConstEvalCounter", "assume(", "Deinit(", "BackwardIncompatibleDropHint")):
                continue
            m = re.match(r"(.*?) = (.*)$", s)
            if not m:
                raise Unsupported(f"statement not understood: {s[:100]}")
            lhs, rhs = m.group(1), m.group(2)
            dm = re.match(r"discriminant\((.*)\)$", lhs)
            if dm:
                tgt = self.read_place(st, dm.group(1))
                if not isinstance(tgt, Agg):
                    raise Unsupported(f"SetDiscriminant on scalar: {s[:80]}")
                tgt["#d"] = z3.BitVecVal(int(rhs), 64)
                continue
            self.exec_assign(st, lhs, rhs)
        return self.exec_term(fn, st, term, depth)

    def exec_term(self, fn, st, term, depth):
        term = term.strip()
        if term.startswith("return"):
            st.ret = st.locals.get(fn.ret_local)
            st.end = "return"
            return [(st, None)]
        if term.startswith("unreachable"):
            st.end = "unreachable"
            # reaching `unreachable` would be UB: make it an obligation
            st.obligations.append(("unreachable terminator reached", z3.BoolVal(False), list(st.cond)))
            return [(st, None)]
        if term.startswith(("resume", "terminate", "abort")):
            st.end = "unwind"
            return [(st, None)]
        m = re.match(r"goto -> (bb\d+)", term)
        if m:
            return [(st, m.group(1))]
        m = re.match(r"drop\((.*)\) -> \[return: (bb\d+)", term)
        if m:
            return [(st, m.group(2))]
        m = re.match(r"falseEdge -> \[real: (bb\d+)", term) or re.match(r"falseUnwind -> \[real: (bb\d+)", term)
        if m:
            return [(st, m.group(1))]
        m = re.match(r"assert\((!?)(.*?), \"(.*?)\".*\) -> \[success: (bb\d+)", term)
        if m:
            v = self.operand(st, m.group(2))
            ok = z3.Not(v) if m.group(1) == "!" else v
            st.obligations.append((f"{m.group(3)} [{fn.name.split('::')[-1]}]", ok, list(st.cond)))
            st.cond.append(ok)
            return [(st, m.group(4))]
        m = re.match(r"switchInt\((.*?)\) -> \[(.*)\]$", term)
        if m:
            v = self.operand(st, m.group(1))
            targets = []
            other = None
            for t in m.group(2).split(", "):
                k, b = t.split(": ")
                if k == "otherwise":
                    other = b
                else:
                    targets.append((int(k), b))
            out = []
            if z3.is_bool(v):
                conds = []
                for k, b in targets:
                    c = z3.Not(v) if k == 0 else v
                    conds.append((c, b))
                if other:
                    neg = z3.And(*[z3.Not(c) for c, _ in conds]) if conds else z3.BoolVal(True)
                    conds.append((neg, other))
            else:
                conds = [(v == z3.BitVecVal(k, v.size()), b) for k, b in targets]
                if other:
                    neg = z3.And(*[v != z3.BitVecVal(k, v.size()) for k, _ in targets]) if targets else z3.BoolVal(True)
                    conds.append((neg, other))
            for c, b in conds:
                c = z3.simplify(c)
                if z3.is_false(c):
                    continue
                if not z3.is_true(c) and not self.feasible(st.cond + [c]):
                    continue
                s2 = self.fork(st) if len(conds) > 1 else st
                if not z3.is_true(c):
                    s2.cond.append(c)
                out.append((s2, b))
            return out
        cm = split_call(term)
        if cm:
            dest, callee, argtext, ret_bb = cm
            if not ret_bb.startswith("bb"):
                st.end = "diverges"
                st.calls.append((callee, [], list(st.cond)))
                return [(st, None)]
            args = self.split_args(argtext)
            dest_ty = self.place_type(st, dest)
            argvals = []
            for a in args:
                try:
                    argvals.append(self.operand(st, a))
                except Unsupported:
                    argvals.append(None)
            rec = [callee, argvals, list(st.cond), None]
            st.calls.append(rec)
            if self.stop_calls is not None and re.search(self.stop_calls, callee):
                # the obligation is about the code up to here (e.g. the rest of one loop iteration)
                st.end = "stopped"
                return [(st, None)]
            if self.on_call is not None:
                self.on_call(self, st, callee, depth)
            r = None
            for pat, mf in self.models:
                if re.search(pat, callee):
                    r = mf(self, st, callee, args, argvals, dest_ty)
                    break
            if r is None:
                r = self.model_call(st, callee, args, dest_ty)
            if r is not None:
                rec[3] = r
                self.write_place(st, dest, r)
                return [(st, ret_bb)]
            # inline?
            for pat, target in self.inline.items():
                if re.search(pat, callee):
                    callee_fn = find_fn(self.fns, target)
                    out = []
                    init = {}
                    for name, val in zip(callee_fn.args, argvals):
                        init[name] = val
                    # share referents: callee refs point into caller storage -> run callee in the SAME locals namespace
                    sub_locals = st.locals
                    prefix = f"${depth}${len(st.calls)}$"
                    renamed = self._rename_fn(callee_fn, prefix)
                    for name, val in zip(renamed.args, argvals):
                        sub_locals[name] = val
                    sub = Path(cond=st.cond, locals=sub_locals, calls=st.calls, obligations=st.obligations, visits={})
                    saved = self.cur_fn
                    paths = self.run(renamed, sub_locals, cond=st.cond, depth=depth + 1)
                    self.cur_fn = saved
                    for p in paths:
                        if p.end != "return":
                            p2 = Path(cond=p.cond, locals=p.locals, calls=p.calls, obligations=p.obligations, visits=dict(st.visits), end=p.end)
                            out.append((p2, None))
                            continue
                        p2 = Path(cond=p.cond, locals=p.locals, calls=p.calls, obligations=p.obligations, visits=dict(st.visits))
                        saved2 = self.cur_fn
                        self.cur_fn = fn
                        self.write_place(p2, dest, p.ret if p.ret is not None else self.ctx.fresh(dest_ty or "?", "ret"))
                        self.cur_fn = saved2
                        out.append((p2, ret_bb))
                    return out
            # opaque call: havoc result and everything reachable through &mut arguments
            for v in argvals:
                if v is not None:
                    self.havoc_through(st, v)
            rv = self.ctx.fresh(dest_ty or "?", "ret:" + re.sub(r"<.*?>", "", callee)[-40:])
            rec[3] = rv
            self.write_place(st, dest, rv)
            return [(st, ret_bb)]
        m = re.match(r"(.*\)) -> (bb\d+)$", term)
        if m and " = " in m.group(1) and m.group(2) in fn.cleanup:
            # a call that never returns (its only edge is the unwind edge into a cleanup block): panic_fmt etc.
            st.end = "diverges"
            st.calls.append([m.group(1).split(" = ", 1)[1].split("(", 1)[0].strip(), [], list(st.cond), None])
            return [(st, None)]
        m = re.match(r"yield\(", term)
        if m:
            raise Unsupported("yield terminator (un-lowered coroutine)")
        raise Unsupported(f"terminator not understood: {term[:120]}")

    def _rename_fn(self, fn, prefix):
        """alpha-rename locals of an inlined callee so that they live in the caller's namespace"""
        def rn(s):
            return re.sub(r"(?<![\w#$])_(\d+)\b", lambda m: f"_{prefix_num}{m.group(1)}", s)

        prefix_num = str(abs(hash(prefix)) % 9000 + 1000)
        blocks = {b: ([rn(x) for x in ss], rn(t)) for b, (ss, t) in fn.blocks.items()}
        decls = {rn(k): v for k, v in fn.decls.items()}
        return Fn(fn.name, fn.sig, decls, blocks, set(fn.cleanup), [rn(a) for a in fn.args], fn.debug, rn("_0"))
